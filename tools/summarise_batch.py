#!/usr/bin/env python3
"""usage: summarise_batch.py <batch.log>...  -> one line per seeded change: demo passes clean / fails with change / pinned 35 / our exit"""
import re, sys
for f in sys.argv[1:]:
    cur = None; rows = []
    for line in open(f, errors='replace'):
        m = re.match(r'#### (\S+) change (\d+)', line)
        if m:
            cur = {'id': '%s%s' % (m.group(1), m.group(2)), 'phase': None, 'clean': None, 'with': None, 'pinned': None, 'exit': None, 'viol': 0}
            rows.append(cur); continue
        if cur is None: continue
        if line.startswith('== clean tree'): cur['phase'] = 'clean'
        elif line.startswith('== with change: demo'): cur['phase'] = 'with'
        elif line.startswith('== with change: pinned'): cur['phase'] = 'pinned'
        elif line.startswith('== our checks'): cur['phase'] = 'ours'
        elif line.startswith('test result:'):
            ok = line.startswith('test result: ok')
            if cur['phase'] == 'clean' and cur['clean'] is None: cur['clean'] = ok
            elif cur['phase'] == 'with' and cur['with'] is None: cur['with'] = ok
            elif cur['phase'] == 'pinned' and cur['pinned'] is None: cur['pinned'] = ('35 passed' in line)
        elif line.startswith('error') and cur['phase'] in ('clean', 'with') and 'test failed' not in line:
            cur.setdefault('err', line.strip()[:80])
        elif line.startswith('VIOLATION'): cur['viol'] += 1
        elif line.startswith('exit='): cur['exit'] = line.strip()[5:]
        elif line.startswith('APPLY FAILED'): cur['err'] = 'APPLY FAILED'
    for r in rows:
        good = r['clean'] is True and r['with'] is False and r['pinned'] is True
        print('%-10s confirmed=%-5s clean_pass=%s with_change_pass=%s pinned35=%s our_exit=%s violations=%d %s' % (
            r['id'], good, r['clean'], r['with'], r['pinned'], r['exit'], r['viol'], r.get('err', '')))
