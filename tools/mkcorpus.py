#!/usr/bin/env python3
"""Regenerates the committed fuzz seed corpora under /verif/corpus/.

  der_decoders: written by vcheck itself (VERIF_C04_DUMP_SEEDS=<dir> makes the
                C04 module dump every valid seed <= 16 KiB with its selector
                octet in front): run
                  VERIF_C04_DUMP_SEEDS=/verif/corpus/der_decoders VERIF_SUB=seeds ./check C04 quick
  xml_parsers:  files of /repo/test-data with the parser selector in front
  rtr_stream:   hand-encoded PDU sequences (mode octet, chunk octet, stream)
"""
import os, struct, sys, glob

ROOT = os.path.dirname(os.path.dirname(os.path.abspath(__file__)))
TD = "/repo/test-data"

def write(d, name, data):
    os.makedirs(d, exist_ok=True)
    with open(os.path.join(d, name), "wb") as f:
        f.write(data)

# ---------------------------------------------------------------- xml_parsers
xml = os.path.join(ROOT, "corpus", "xml_parsers")
sel = {
    "rrdp/ripe-notification.xml": 0, "rrdp/ripe-notification-unsorted.xml": 0,
    "rrdp/ripe-notification-with-gaps.xml": 0, "rrdp/lolz-notification.xml": 0,
    "rrdp/ripe-snapshot.xml": 1, "rrdp/ripe-delta.xml": 2,
    "ca/rfc6492/not-performed-response.xml": 3, "ca/rfc6492/revoke-req.xml": 3,
    "ca/rfc6492/revoke-response.xml": 3,
}
for f in sorted(glob.glob(TD + "/ca/rfc8181/*.xml")):
    sel[os.path.relpath(f, TD)] = 4
for f in sorted(glob.glob(TD + "/ca/rfc8183/*.xml")):
    n = os.path.basename(f)
    sel[os.path.relpath(f, TD)] = 5 if "child" in n else 6 if "parent-response" in n else 7 if "publisher" in n else 8
for rel, s in sel.items():
    data = open(os.path.join(TD, rel), "rb").read()
    if len(data) > 200_000:
        continue
    write(xml, "%d-%s" % (s, rel.replace("/", "_")), bytes([s]) + data)
    if s in (3, 4, 5, 6, 7, 8) and len(data) < 3000:
        write(xml, "9-%s" % rel.replace("/", "_"), bytes([9]) + data)

# ----------------------------------------------------------------- rtr_stream
rtr = os.path.join(ROOT, "corpus", "rtr_stream")

def hdr(ver, typ, sess, length):
    return struct.pack(">BBHI", ver, typ, sess, length)

def v4(ver, flags, plen, mlen, addr, asn):
    return hdr(ver, 4, 0, 20) + bytes([flags, plen, mlen, 0]) + bytes(addr) + struct.pack(">I", asn)

def v6(ver, flags, plen, mlen, addr, asn):
    return hdr(ver, 6, 0, 32) + bytes([flags, plen, mlen, 0]) + bytes(addr) + struct.pack(">I", asn)

def eod(ver, sess, serial):
    if ver == 0:
        return hdr(0, 7, sess, 12) + struct.pack(">I", serial)
    return hdr(ver, 7, sess, 24) + struct.pack(">IIII", serial, 3600, 600, 7200)

def router_key(ver, flags, ski, asn, spki):
    body = bytes(ski) + struct.pack(">I", asn) + spki
    return struct.pack(">BBBBI", ver, 9, flags, 0, 8 + len(body)) + body

def aspa(flags, customer, providers):
    body = struct.pack(">I", customer) + b"".join(struct.pack(">I", p) for p in providers)
    return struct.pack(">BBBBI", 2, 11, flags, 0, 8 + len(body)) + body

def error(ver, code, pdu, text):
    body = struct.pack(">I", len(pdu)) + pdu + struct.pack(">I", len(text)) + text
    return hdr(ver, 10, code, 8 + len(body)) + body

spki = open(TD + "/crypto/rsa-key.public.der", "rb").read()[:91]
payload = (v4(1, 1, 24, 24, [192, 0, 2, 0], 64496) + v6(1, 1, 32, 48, [0x20, 1, 0xd, 0xb8] + [0] * 12, 64497)
           + v4(1, 0, 8, 16, [10, 0, 0, 0], 4294967295) + router_key(1, 1, range(20), 64498, spki))
seqs = {
    "payload-v1": (0, 0, payload + eod(1, 7, 42)),
    "payload-v2-aspa": (0, 3, v4(2, 1, 0, 32, [0, 0, 0, 0], 0) + aspa(1, 64496, [64497, 64498, 4200000000]) + aspa(0, 64499, []) + eod(2, 7, 43)),
    "payload-v0": (0, 1, v4(0, 1, 32, 32, [203, 0, 113, 7], 1) + eod(0, 9, 0xffffffff)),
    "client-reply": (1, 5, hdr(1, 3, 7, 8) + payload + eod(1, 7, 42)),
    "client-reply-error": (1, 0, error(1, 2, hdr(1, 1, 7, 12) + struct.pack(">I", 5), b"no data available")),
    "server-queries": (2, 0, hdr(1, 2, 0, 8) + hdr(1, 1, 7, 12) + struct.pack(">I", 41) + error(1, 4, b"", b"unsupported version")),
    "server-mixed": (2, 2, hdr(1, 0, 7, 12) + struct.pack(">I", 1) + hdr(1, 8, 0, 8) + eod(1, 7, 1) + router_key(1, 1, range(20), 1, spki) + aspa(1, 1, [2])),
    "typed": (3, 7, hdr(1, 0, 7, 12) + struct.pack(">I", 9) + hdr(1, 1, 7, 12) + struct.pack(">I", 9) + hdr(1, 2, 0, 8) + hdr(1, 3, 7, 8)
              + v4(1, 1, 24, 24, [192, 0, 2, 0], 64496) + v6(1, 1, 128, 128, [0] * 16, 1) + hdr(1, 8, 0, 8) + eod(1, 7, 9)),
    "notify": (4, 0, hdr(1, 0, 7, 12) + struct.pack(">I", 77) + hdr(1, 0, 7, 12) + struct.pack(">I", 78)),
    "notify-error": (4, 1, error(0, 0, b"\x00" * 8, b"corrupt data")),
    "error-truncated": (2, 0, error(1, 1, hdr(1, 2, 0, 8), b"internal error")[:-5]),
    "huge-length": (0, 0, struct.pack(">BBBBI", 1, 9, 1, 0, 0xffffffff) + bytes(24)),
}
for name, (mode, chunk, stream) in seqs.items():
    write(rtr, name, bytes([mode, chunk]) + stream)
print("corpus written below", os.path.join(ROOT, "corpus"))
