#!/bin/bash
# usage: run_benign_batch.sh <snapshot-dir> <target-dir> <ID>...   (env BEN_PREFIX, default ben)   benign (property-preserving) changes: checks must stay silent
SNAP="$1"; TGT="$2"; shift 2
export VERIF_NO_FUZZ=1
for id in "$@"; do
  WT=/tmp/${BEN_PREFIX:-ben}-$id
  for diff in /tmp/${BEN_PREFIX:-ben}-$id-out/change*.diff; do
    k=$(basename "$diff" .diff); k=${k#change}
    echo "#### benign $id change $k"
    (cd $WT && git checkout -q -- . && git apply "$diff") || { echo "APPLY FAILED"; continue; }
    for chk in $id ${EXTRA_CHECKS:-}; do
      (cd "$SNAP" && VERIF_TARGET_DIR="$TGT" RPKI_SRC="$WT" ./check "$chk" quick 2>&1 | grep -E "^(VIOLATION|OK|FAIL|INCONCLUSIVE|KNOWN|BUILD|GENERATOR)" | cut -c1-400 | head -6; echo "check=$chk exit=${PIPESTATUS[0]}")
    done
    (cd $WT && git checkout -q -- .)
  done
done
