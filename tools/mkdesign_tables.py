#!/usr/bin/env python3
"""Rewrites the generated tables in DESIGN.md (between <!-- BEGIN x --> / <!-- END x --> markers):
seeded changes (from seeded/*/meta.json) and fixed findings (from known_findings.json)."""
import json, glob, os, re
V = os.path.dirname(os.path.dirname(os.path.abspath(__file__)))
rows = []
for d in sorted(glob.glob(V + '/seeded/*/meta.json')):
    m = json.load(open(d)); sid = os.path.basename(os.path.dirname(d))
    first = m['needs_to_manifest'].strip().splitlines()
    # first non-heading line of the notes as a one-line summary
    summ = next((l.strip('-* ').strip() for l in first if l.strip() and not l.startswith('#')), '')
    summ = (summ[:150] + '…') if len(summ) > 150 else summ
    rows.append('| %s | %s | %s | %s | %s |' % (sid, m['property'], summ.replace('|', '/'),
        'yes' if m['detected_by_quick_check'] else '**no**', m['detected_by'].replace('|', '/')))
seeded = '| id | property | what it breaks / needs | detected (quick) | by |\n|---|---|---|---|---|\n' + '\n'.join(rows)
k = json.load(open(V + '/known_findings.json'))
fixed = '\n'.join('* `%s`' % f for f in k['fixed'])
openf = '\n'.join('* %s `%s`: %s' % (o['property'], o['signature'], o['what']) for o in k['open']) or '(none)'
s = open(V + '/DESIGN.md').read()
def put(name, body):
    global s
    pat = re.compile(r'(<!-- BEGIN %s -->\n).*?(<!-- END %s -->)' % (name, name), re.S)
    assert pat.search(s), name
    s = pat.sub(lambda m: m.group(1) + body + '\n' + m.group(2), s)
# as-built summary from the committed evidence files
ab = []
for f in sorted(glob.glob(V + '/evidence/C*.json')):
    e = json.load(open(f)); c = e['coverage']
    subs = ', '.join('`%s` (%s cases%s)' % (n, format(v['cases'], ','), ', exhaustive' if v.get('exhaustive') else '') for n, v in c.get('subchecks', {}).items())
    fz = c.get('fuzz') or {}
    if fz:
        subs += '; libFuzzer `%s` (%s execs + %s replayed)' % (fz.get('target'), format(fz.get('execs', 0), ','), fz.get('replayed', 0))
    ab.append('**%s** (%s tier, %s evaluations, %s distinct non-trivial, %.0f s): %s\n\n> %s\n' % (
        e['property_id'], e['tier'], format(c['evaluations'], ','), format(c['distinct_nontrivial'], ','), e['wall_s'], subs, c['rule']))
put('seeded', seeded); put('fixed', fixed); put('open', openf); put('asbuilt', '\n'.join(ab))
open(V + '/DESIGN.md', 'w').write(s)
print('seeded rows:', len(rows), 'fixed:', len(k['fixed']))
