#!/bin/bash
# usage: rerun_seeded.sh <snapshot-dir> <target-dir> <worktree-dir> <outfile> <seeded-id>...
# Applies each /verif/seeded/<id>/patch.diff to a scratch worktree of /repo HEAD and runs the quick
# check of its property (vcheck part only) from the snapshot; appends "<id> <property> <exit>" to <outfile>.
SNAP="$1"; TGT="$2"; WT="$3"; OUT="$4"; shift 4
export VERIF_NO_FUZZ=1
[ -d "$WT" ] || git -C /repo worktree add -q "$WT" HEAD
for sid in "$@"; do
  d=/verif/seeded/$sid
  prop=$(python3 -c "import json;print(json.load(open('$d/meta.json'))['property'])")
  (cd "$WT" && git checkout -q -- . && git apply "$d/patch.diff") || { echo "$sid $prop APPLY-FAILED" >> "$OUT"; continue; }
  (cd "$SNAP" && VERIF_TARGET_DIR="$TGT" RPKI_SRC="$WT" ./check "$prop" quick >/tmp/rerun-$sid.log 2>&1); rc=$?
  echo "$sid $prop $rc $(grep -c '^VIOLATION' /tmp/rerun-$sid.log)" >> "$OUT"
  (cd "$WT" && git checkout -q -- .)
done
