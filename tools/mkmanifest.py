#!/usr/bin/env python3
"""Regenerates /verif/MANIFEST.json from the table below and validates it."""
import json, os, sys
HERE = os.path.dirname(os.path.dirname(os.path.abspath(__file__)))

# id -> (technique, level text, level note, design ref)
CHECKS = {
 "C16": ("exhaustive enumeration (all 2^32 differences per base, all increments, all wire values) against an RFC 1982 table oracle",
         "Complete enumeration of the stated finite domain per base value: every difference d, every increment n <= 2^31-1, every 32-bit wire value; the oracle is the RFC 1982 table written independently in the harness. For the enumerated bases this is a decision, not a sample; bases other than the boundary ones are seed-derived.",
         "Trusts the harness' own table and u32 arithmetic; bases are a finite set (comparison depends only on d, which the enumeration shows for each base separately).",
         "DESIGN.md §3 C16"),
 "C06": ("model-based stateful PBT: generated histories of source updates / notifies / client steps / reconnects over the real rtr::Server and rtr::Client (in-memory sockets, paused-clock current_thread runtime) against a reference payload-history model",
         "Exploration of generated histories (proptest, shrinking) with the oracle checked after every client step: data applied through PayloadTarget == source snapshot named by Client::state() restricted to the negotiated version, state and timing equality, failed steps apply nothing. Reaches version downgrade, diff vs reset vs cache-reset fallback, serial wrap, mid-response updates, which the example tests cannot. The reference source also holds large items (provider lists to 4000, keys to 5000 octets) and tables of 1500-4000 origins, so single responses exceed 64 KiB.",
         "Single-threaded scheduler owned by the harness; reference source/model in rtrsim.rs is trusted; absence is not proven beyond the explored histories.",
         "DESIGN.md §3 C06"),
 "C07": ("round-trip + fault-injection PBT: generated PDUs / PDU sequences written and read back through every reader; every truncation point and header corruption against a reference model of the type/length/version rules; deterministic poll / byte / EOF-poll counters instead of timeouts; hand-written ASPA PDUs beyond the constructors' provider limit through every reader and through Client::update (three-valued: refused within the byte bound, or exact framing and exact providers)",
         "Exploration with generated values plus exhaustive header enumeration (all type and version bytes, boundary lengths) and all truncation points per generated sequence; hang detection is by counting polls of an exhausted in-memory reader, so it is deterministic. A 'foreign' sub-check feeds PDUs the constructors cannot build (0-200000 providers).",
         "In-memory AsyncRead that never returns Pending; announced lengths above 1 MiB are not handed to allocating body readers (memory is not part of the statement); reference length rules from RFC 8210 / 8210bis as implemented.",
         "DESIGN.md §3 C07"),
 "C08": ("metamorphic + model PBT over schedules: generated client byte streams x fragmentations x notify interleavings against the real rtr::Server; output minus Serial Notify must equal the one-chunk no-notify reference run; independent PDU parser; exhaustive 2-chunk splits x notify positions for single-query streams",
         "Exploration of generated schedules on a harness-owned single-threaded executor (settle points make the interleaving exactly the generated one) plus a complete enumeration of two-chunk splits with notify placements for 25 single-PDU streams. Wrong query lengths include values right in their low 8/16/24 bits; the source's data includes large items and tables (64 KiB and more per response).",
         "Harness owns the scheduler (current_thread runtime); multi-threaded races are outside the statement; behaviour after the first malformed query is only compared metamorphically.",
         "DESIGN.md §3 C08"),
 "C13": ("PBT against an integer address-range model + exhaustive pairs/triples over a boundary-dense prefix domain; BTreeSet as reference for AS-number set algebra",
         "Random exploration of every constructor / text / serde path with a model on integers, complete enumeration of all ordered pairs and triples over a boundary-dense domain of valid prefixes for covers / total-order / hash laws, random RouteOrigin triples and AS multisets with forced duplicates. A further complete enumeration covers every pair of prefix lengths of a family x 5 base addresses x 5 bit relations.",
         "std::net address parsing/formatting and BTreeSet are trusted; the pair/triple domain is boundary-dense, not all prefixes.",
         "DESIGN.md §3 C13"),
 "C15": ("exhaustive small-domain enumeration of filter x payload combinations + random filter lists and whole files; reference drop predicate on integer address ranges; JSON round trip through all four serialiser forms; the file's JSON in foreign spellings (member order, white space, escapes) and from_reader over a piecewise reader",
         "Complete enumeration of the criterion-presence x match-relation domain for all three filter kinds against 9 payloads, plus random exploration of larger filter lists and of whole files for the serde round trip and iter_payload. The JSON round trip also runs on an independently re-spelled document and through a reader that delivers the text in pieces; provider sets reach the maximum of 16380.",
         "Reference predicate written from the statement; serde_json is trusted as the JSON reader/writer.",
         "DESIGN.md §3 C15"),
 "C03": ("PBT against an independent interval-set model (iset.rs) over every public entry point (FromIterator, builders, FromStr incl. hostile text, serde, DER written by the library and by the harness, set operations, Refuse/Trim issuance, resource limits, prefix decomposition) + complete enumeration of all sequences of <=3 blocks and all pairs of sets over 8-point domains with a bitmap oracle; BER-mode decoders on lists with non-zero unused bits, resource limits in the older serde spellings",
         "Random exploration with forced classes (bridging, adjacent, nested, touching 0/max, dotted-quad IPv6) checks canonical form and denotation of every obtained collection against the model; two exhaustive enumerations over small domains per family decide construction and all pair operations there completely (bitmap oracle, the model itself is cross-checked against it on every run). Foreign forms (BER unused bits, older serde member names) are three-valued: refused or equal.",
         "The interval model and its bitmap self-test are trusted; inverted (min>max) pairs are generated only for text and DER, not for the unchecked in-memory constructors (documented as caller precondition).",
         "DESIGN.md §3 C03"),
 "C12": ("exhaustive enumeration over a small alphabet (all strings to length 7/9 into every parser, all ordered pairs and triples of accepted rsync URIs, all join arguments to length 6/8) + random structured URIs; oracles: text-level reference model of scheme/authority/module/path, reference equality, algebraic laws of join/parent/relative_to/is_parent_of",
         "Complete enumeration of the stated small-alphabet domain (parse, pairs, triples, join) plus random exploration beyond it (long hosts, ports, mixed case, deep paths, forbidden and non-ASCII bytes). Three-valued acceptance oracle (must accept conventional authorities / must reject forbidden shapes / don't care) so the check never demands more than the statement. The random part includes hosts of 64-380 octets and path segments of 100-300 octets. A complete 'octets' enumeration puts every octet value at every kind of position of a URI and of a join argument.",
         "Reference model of the RFC 3986 subset documented in uri.rs; unusual-but-accepted authorities are don't-care for acceptance but must obey all laws once accepted.",
         "DESIGN.md §3 C12"),
 "C17": ("exhaustive enumeration: every day of years 1-9999 x boundary seconds (+ all seconds of selected days) against an independent days-from-civil calendar and renderer; all single/double (triple) substitutions, insertions, deletions over 40 valid time strings with a three-valued acceptance oracle; all (not-before, not-after, now) triples over boundary instants; serial pairs over boundary values + random serials and decimal strings",
         "Complete enumeration by day and over the near-valid string neighbourhoods, validity triples and serial boundary pairs; random exploration for 20-octet serials and decimal text. Encoding is compared byte-for-byte with the harness' own rendering, decoding with its own calendar. Validity windows are also decoded with either end in the other time form (three-valued: refused or the same window).",
         "Own proleptic Gregorian calendar in the harness; year 0000 and second 60 are don't-care; chrono is only used by the library.",
         "DESIGN.md §3 C17"),
 "C01": ("model-based PBT over generated certificate chains (library builder + deterministic pool signer, DER round trip before validation) against a reference interval-set model of accept/reject and of the validated resources; single-point tampering of accepted chains (TBS / signature bit flips, sibling issuer, foreign key, time edge, AKI, DER-patched SKI, foreign block); every certificate also in the dress of a foreign writer (der::Dress: extension order, unknown extensions, CPS qualifier, further CRL-DP / SIA entries, non-canonical but equivalent RFC 3779 lists, family order), re-signed, with a one-directional verdict (accepted => model)",
         "Exploration of generated chains TA -> CA{0..2} -> EE/router/CA with per-family missing/inherit/blocks drawn relative to the issuer's validated set, both overclaim policies, validity edges at millisecond resolution; every accepted chain class is also tampered at a single point and must turn into rejection (Trim + foreign block: accepted with the intersection). Certificates are also validated in foreign dress (re-encoded and re-signed by an independent DER editor); for those only 'accepted implies the model accepts with the model's resources' is demanded.",
         "RSA-SHA256 is trusted to reject modified signed bytes (flips confined to TBS bytes / signature value); chains are built with the library's own TbsCert builder (C05 decides builder/decoder agreement); private interval model in c01.rs.",
         "DESIGN.md §3 C01"),
 "C05": ("round-trip PBT per builder (certificate, CRL, manifest, ROA, ASPA, CSR, IdCert, signed message): decode(encode(built)) validates, re-encoding the decoded twin reproduces the bytes (outer object, to-be-signed part, inner content), accessor snapshots of built and decoded twin are identical and panic-free; independent TLV walk for list presence",
         "Exploration of profile-conforming builder inputs (serial widths, both time encodings, URIs with/without trailing slash, resource sets of all shapes, unsorted/duplicate entry lists, up to 300 revoked / 40 files / 16380-bounded providers). A 'big-lists' sub-check builds manifests of 65536 / 65537 / 70001 files (lists longer than a 16-bit counter can count).",
         "Generators stay inside the object profiles (whole seconds, non-empty provider sets without the customer, max-length within the family); Roa::process/Aspa::process read the wall clock and are only called for windows covering 2000..2200.",
         "DESIGN.md §3 C05"),
 "C09": ("round-trip PBT of notification/snapshot/delta values through every parser and reader-buffer size; XML-aware mutation fuzzing (in-process) of written and sample files; unbounded lazy byte streams with a counting reader against the per-element byte bound (exhaustive over offending-construct x position for header limits); model check of sort_and_verify_deltas / has_matching_origins; metamorphic re-spelling of written files (xmlrespell): equivalent XML parses to an equal value or is refused",
         "Exploration for the round trip, mutated bytes and the delta-chain model; complete enumeration of the hostile-stream shapes for the 1 MB header limit, sampled for the 100 MB content limit. Bounds are judged by bytes pulled from a counting BufRead, never by time. Written files are also offered in equivalent XML spellings (attribute order, quotes, white space, comments, empty-element forms, character references): equal value or refusal.",
         "Peak heap is not measured (no counting allocator in this check); streams of endlessly many valid elements are outside the hostile-stream generator (parse_limited exists for that by design).",
         "DESIGN.md §3 C09"),
 "C11": ("round-trip + idempotence PBT over all 16 message variants of RFC 6492/8181/8183 with XML-special characters in every field that admits them; independent well-formedness and attribute-value oracle (Python expat on batches); XML-aware mutation of written and sample messages into every parser (no panic); metamorphic re-spelling of written messages (xmlrespell incl. time stamps with numeric UTC offsets): equal message or refusal",
         "Exploration over generated messages built through public API from protocol-valid values; every written document is additionally parsed by expat and its element order, attribute values and text compared with an independent model of the message. Written documents are also offered in equivalent XML spellings: an equal message or a refusal, never a different message.",
         "python3 with expat must be present (absent => exit 2, inconclusive); publication PDUs with tag None and ErrorReply::empty() are outside the protocol-valid domain and only take part in the idempotence relation / are excluded.",
         "DESIGN.md §3 C11"),
 "C02": ("differential PBT in both directions: signed objects assembled by an independent RFC 5652/6488 DER writer (der.rs; content types of 1-40 octets so the signed-attribute set crosses 127/128 octets; open encoding choices varied) must be accepted iff digest, signature, sid, EE certificate and resource coverage hold; every library-built object is verified by the harness' own CMS verifier; 12 kinds of single-point tampering must be rejected; EE certificates of independent-writer objects in foreign dress, ROAs with the IPv6 family first",
         "Exploration over generated generic objects, ROAs, ASPAs and manifests from the independent writer and from the library builders, with EE resources / prefixes / customer AS drawn relative to each other (interval model), evaluation times on the validity edges, CRL callback verdicts; at most one violated condition per case so the iff is decided condition by condition. The EE certificate of an independent-writer object may come in foreign dress (der::Dress): acceptance is demanded for what RFC 6487/7318/3779 allow, optional for the rest, rejection of violated conditions always.",
         "RSA-SHA256 and SHA-256 from aws-lc-rs are trusted (used directly, not through the library); tampering is confined to signed bytes / the signature value; der.rs has its own self-check sub-check.",
         "DESIGN.md §3 C02"),
 "C04": ("structure-aware mutation PBT (TLV tree mutations of valid seeds of all 15 entry points, strict and relaxed; every proper prefix of every seed; re-signed protocol messages with mutated CRLs; random bytes) with an accessor-walk oracle (every getter / iterator / validation / re-encoding under a panic guard) and a counting-allocator bound + coverage-guided libFuzzer target der_decoders with a DER-aware custom mutator and the same oracle",
         "Exploration: any panic in a decoder or in any accessor of a decoded value is a violation; allocation calls and peak live bytes per input are bounded by a linear function of the input length (deterministic proxy for 'no run-away'); the quick tier also replays the committed corpus and runs a fixed-work libFuzzer burst, the thorough tier a 16-job campaign. Time values are also generated calendar-shaped from a number (any century, month 0-13, day 0 / 28-32, ...), not only taken from a table.",
         "CPU-only super-linear behaviour without allocation is only seen by the watchdog (exit 2); stack overflows / aborts are isolated by the driver's journal mode; the walk validates against test-data/ta.cer only.",
         "DESIGN.md §3 C04"),
 "C10": ("differential PBT: messages created by the library (every evaluation-time position, right key and 7 other keys, bit flips) and messages assembled by the independent DER writer (EE identity certificate and CRL variants, 0-4 extra signed attributes so the set spans 100-700 octets, at most one violated condition) against the accept-iff oracle; own CMS verifier for library-created messages; ProvisioningCms/PublicationCms create-decode-validate",
         "Exploration with one fault kind per case (13 kinds: digest, signature, sid, EE signer, EE window, EE is CA, CRL signer, CRL window, EE revoked, ...) so that each conjunct of the iff is exercised in both directions. The independent writer also permutes the EE certificate's extensions and puts crlEntryExtensions on revoked entries.",
         "RSA/SHA from aws-lc-rs trusted; the created/protocol sub-checks read the wall clock only as the base of validity windows with margins of minutes; AKI/SKI mismatch cases are not generated (not named in the statement).",
         "DESIGN.md §3 C10"),
 "C14": ("PBT with manifests assembled by the independent DER writer (0-300 entries, ~60 hostile file-name shapes, hash bit strings of 0-64 octets with unused bits, both time orders/types) against the reference predicate ^[A-Za-z0-9_-]+\\.[A-Za-z]{3}$ + exhaustive enumeration of all names of length 0-5 over a 9-character alphabet",
         "Exploration plus complete enumeration of short names: decode succeeds iff every name matches and thisUpdate <= nextUpdate; on success len/iter/iter_uris/hash verification are checked against what was encoded (URIs re-parse, lie directly inside the base directory). Complete enumeration of every octet value at every kind of position of a file name; manifests of 255 ... 131075 entries (len() versus entries iterated; refusal allowed beyond 4096).",
         "Manifest::decode does not verify signatures, so the wrapper carries a constant signature value; with UTCTime manifest times only 'accepted => names valid and this <= next' is asserted.",
         "DESIGN.md §3 C14"),
}
PENDING = {}
ALL = ["C%02d" % i for i in range(1, 18)]

def main():
    checks = []
    for pid in ALL:
        if pid not in CHECKS:
            continue
        tech, text, note, ref = CHECKS[pid]
        checks.append({
            "property_id": pid,
            "quick_cmd": "./check %s quick" % pid,
            "thorough_cmd": "./check %s thorough" % pid,
            "evidence_file": "/verif/evidence/%s.json" % pid,
            "replay_cmd_template": "./check %s --replay {path}" % pid,
            "engine": "vcheck",
            "level_claimed": {"category": "exploration", "text": text, "design_ref": ref},
            "level_note": note,
            "technique": tech,
        })
    na = [{"property_id": pid, "reason": PENDING.get(pid, "check not built yet (build round in progress); planned per DESIGN.md section 3")}
          for pid in ALL if pid not in CHECKS]
    m = {
        "version": 1,
        "setup_cmd": "./check --build",
        "hooks": {
            "guard": "rpki_verif",
            "enable": "no hooks are needed: every property is observed through public API; the harness builds /repo as a path dependency with features ca,repository,rrdp,rtr,slurm,softkeys,serde-support",
            "baseline_off_cmd": "cd /repo && cargo test --workspace --no-fail-fast --offline",
            "source_commits": [],
            "add_only": True,
        },
        "engines": [
            {"name": "libfuzzer", "path": "/verif/fuzz", "serves_properties": ["C04", "C07", "C09", "C11"],
             "kind_free_text": "cargo-fuzz 0.13 / libFuzzer targets der_decoders (C04, DER-aware custom mutator, accessor-walk + allocation oracle), rtr_stream (C07), xml_parsers (C09, C11; parse-write-parse round trip inside the target); ./check runs fuzz/run.sh first (strict replay of corpus/ and regress/fuzz-*, then a fixed-work burst in quick or a 16-job campaign in thorough) and merges its summary into the evidence"},
            {"name": "vcheck", "path": "/verif/harness", "serves_properties": [c["property_id"] for c in checks],
             "kind_free_text": "proptest 1.11 TestRunner driven from a binary (seeded ChaCha, 16 shards, shrinking, JSON replay files) plus complete enumeration of small finite domains; explicit reference-model / round-trip / metamorphic oracles per property"},
        ],
        "checks": checks,
        "not_applicable": na,
        "notes": "Exit codes: 0 held on everything explored, 1 VIOLATION (replay file printed), 2 inconclusive (build failure, watchdog, generator-health floor missed). known_findings.json lists open findings (reported as KNOWN-FINDING, excluded from the search) and fixed ones (suppress nothing).",
    }
    path = os.path.join(HERE, "MANIFEST.json")
    json.dump(m, open(path, "w"), indent=1)
    open(path, "a").write("\n")
    try:
        import jsonschema
        jsonschema.validate(m, json.load(open("/root/.vp/MANIFEST.schema.json")))
        print("MANIFEST.json valid:", len(checks), "checks,", len(na), "not_applicable")
    except ImportError:
        print("jsonschema not available; not validated")

if __name__ == "__main__":
    main()
