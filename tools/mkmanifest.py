#!/usr/bin/env python3
"""Regenerates /verif/MANIFEST.json from the table below and validates it."""
import json, os, sys
HERE = os.path.dirname(os.path.dirname(os.path.abspath(__file__)))

# id -> (technique, level text, level note, design ref)
CHECKS = {
 "C16": ("exhaustive enumeration (all 2^32 differences per base, all increments, all wire values) against an RFC 1982 table oracle",
         "Complete enumeration of the stated finite domain per base value: every difference d, every increment n <= 2^31-1, every 32-bit wire value; the oracle is the RFC 1982 table written independently in the harness. For the enumerated bases this is a decision, not a sample; bases other than the boundary ones are seed-derived.",
         "Trusts the harness' own table and u32 arithmetic; bases are a finite set (comparison depends only on d, which the enumeration shows for each base separately).",
         "DESIGN.md §3 C16"),
}
PENDING = {}
ALL = ["C%02d" % i for i in range(1, 18)]

def main():
    checks = []
    for pid in ALL:
        if pid not in CHECKS:
            continue
        tech, text, note, ref = CHECKS[pid]
        checks.append({
            "property_id": pid,
            "quick_cmd": "./check %s quick" % pid,
            "thorough_cmd": "./check %s thorough" % pid,
            "evidence_file": "/verif/evidence/%s.json" % pid,
            "replay_cmd_template": "./check %s --replay {path}" % pid,
            "engine": "vcheck",
            "level_claimed": {"category": "exploration", "text": text, "design_ref": ref},
            "level_note": note,
            "technique": tech,
        })
    na = [{"property_id": pid, "reason": PENDING.get(pid, "check not built yet (build round in progress); planned per DESIGN.md section 3")}
          for pid in ALL if pid not in CHECKS]
    m = {
        "version": 1,
        "setup_cmd": "./check --build",
        "hooks": {
            "guard": "rpki_verif",
            "enable": "no hooks are needed: every property is observed through public API; the harness builds /repo as a path dependency with features ca,repository,rrdp,rtr,slurm,softkeys,serde-support",
            "baseline_off_cmd": "cd /repo && cargo test --workspace --no-fail-fast --offline",
            "source_commits": [],
            "add_only": True,
        },
        "engines": [
            {"name": "vcheck", "path": "/verif/harness", "serves_properties": [c["property_id"] for c in checks],
             "kind_free_text": "proptest 1.11 TestRunner driven from a binary (seeded ChaCha, 16 shards, shrinking, JSON replay files) plus complete enumeration of small finite domains; explicit reference-model / round-trip / metamorphic oracles per property"},
        ],
        "checks": checks,
        "not_applicable": na,
        "notes": "Exit codes: 0 held on everything explored, 1 VIOLATION (replay file printed), 2 inconclusive (build failure, watchdog, generator-health floor missed). known_findings.json lists open findings (reported as KNOWN-FINDING, excluded from the search) and fixed ones (suppress nothing).",
    }
    path = os.path.join(HERE, "MANIFEST.json")
    json.dump(m, open(path, "w"), indent=1)
    open(path, "a").write("\n")
    try:
        import jsonschema
        jsonschema.validate(m, json.load(open("/root/.vp/MANIFEST.schema.json")))
        print("MANIFEST.json valid:", len(checks), "checks,", len(na), "not_applicable")
    except ImportError:
        print("jsonschema not available; not validated")

if __name__ == "__main__":
    main()
