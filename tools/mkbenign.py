#!/usr/bin/env python3
"""usage: mkbenign.py <id> <n>  -> prints the prompt for a benign-change agent (worktree /tmp/ben-<id>)."""
import sys, subprocess
pid, n = sys.argv[1], sys.argv[2]
prop = subprocess.check_output(['python3', '/verif/tools/proptext.py', pid], text=True)
t = open('/verif/tools/benign_prompt.txt').read()
print(t.replace('{WT}', '/tmp/ben-%s' % pid).replace('{PROPERTY}', prop).replace('{N}', n))
