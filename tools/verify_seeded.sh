#!/bin/bash
# usage: verify_seeded.sh <worktree> <change.diff> <demo.rs> <PROPERTY-ID> [extra check ids...]
# Confirms a seeded change: applies to a clean worktree, builds with all features, pinned suite
# passes (35), demo fails with the change and passes without; then runs our check(s) against it.
set -u
WT="$1"; DIFF="$2"; DEMO="$3"; ID="$4"; shift 4
FEAT="ca,repository,rrdp,rtr,slurm,softkeys,serde-support"
export CARGO_NET_OFFLINE=true
cd "$WT" || exit 9
git checkout -q -- . && git clean -qfd tests
name="$(basename "$DEMO" .rs)"
cp "$DEMO" tests/
echo "== clean tree: demo must pass"
cargo test --offline --features $FEAT --test "$name" 2>&1 | grep -E "^test result|error(\[|:)" | head -3
git apply "$DIFF" || { echo "APPLY FAILED"; exit 9; }
echo "== with change: build all features"
cargo build --offline --features $FEAT 2>&1 | tail -1
echo "== with change: demo must fail"
cargo test --offline --features $FEAT --test "$name" 2>&1 | grep -E "^test result|error(\[|:)" | head -3
rm "tests/$(basename "$DEMO")"
echo "== with change: pinned suite"
cargo test --workspace --no-fail-fast --offline 2>&1 | grep -E "^test result" | head -5
echo "== our checks against the change"
cd "${VERIF_SNAP:-/verif}"
for id in "$ID" "$@"; do
  VERIF_TARGET_DIR="${VERIF_SNAP_TARGET:-/verif/target}" RPKI_SRC="$WT" ./check "$id" quick 2>&1 | grep -E "^(VIOLATION|OK|FAIL|INCONCLUSIVE|KNOWN|BUILD)" | head -5
  echo "exit=${PIPESTATUS[0]}"
done
cd "$WT" && git checkout -q -- . && git clean -qfd tests
