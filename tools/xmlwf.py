#!/usr/bin/env python3
"""Independent XML well-formedness oracle for the C11 check (expat).

stdin : one document per line, hex encoded.
stdout: one JSON object per line:
        {"ok": true, "els": [[name, [k1, v1, k2, v2, ...], text], ...]}
        {"ok": false, "err": "..."}
`els` lists the elements in document order (start tags) with their
attributes as expat reports them (entity references resolved, attribute-value
normalisation applied) and the character data directly inside the element with
all white space removed. No namespace processing: names are reported as
written, xmlns appears as an attribute.
"""
import json
import sys
import xml.parsers.expat


def check(doc: bytes):
    els = []
    stack = []
    p = xml.parsers.expat.ParserCreate()
    p.ordered_attributes = True
    p.buffer_text = True

    def start(name, attrs):
        el = [name, list(attrs), []]
        els.append(el)
        stack.append(el)

    def end(name):
        stack.pop()

    def chars(data):
        if stack:
            stack[-1][2].append(data)

    p.StartElementHandler = start
    p.EndElementHandler = end
    p.CharacterDataHandler = chars
    try:
        p.Parse(doc, True)
    except xml.parsers.expat.ExpatError as e:
        return {"ok": False, "err": str(e)}
    out = []
    for name, attrs, text in els:
        out.append([name, attrs, "".join("".join(text).split())])
    return {"ok": True, "els": out}


def main():
    w = sys.stdout
    for line in sys.stdin:
        line = line.strip()
        if not line:
            continue
        try:
            doc = bytes.fromhex(line)
        except ValueError as e:
            w.write(json.dumps({"ok": False, "err": "bad hex: %s" % e}) + "\n")
            continue
        w.write(json.dumps(check(doc)) + "\n")
    w.flush()


if __name__ == "__main__":
    main()
