#!/usr/bin/env python3
"""usage: mkbreaker.py <id> <suffix> <n>  -> prints the prompt for a breaker agent."""
import json, sys, subprocess
pid, suf, n = sys.argv[1], sys.argv[2], sys.argv[3]
prop = subprocess.check_output(['python3', '/verif/tools/proptext.py', pid], text=True)
t = open('/verif/tools/breaker_prompt.txt').read()
print(t.replace('{WT}', '/tmp/brk-%s-%s' % (pid, suf)).replace('{PROPERTY}', prop).replace('{N}', n).replace('{ID}', pid.lower()))
