#!/usr/bin/env python3
"""usage: mkbreaker.py <id> <suffix> <n>  -> prints the prompt for a breaker agent."""
import json, sys, subprocess
pid, suf, n = sys.argv[1], sys.argv[2], sys.argv[3]
prop = subprocess.check_output(['python3', '/verif/tools/proptext.py', pid], text=True)
t = open('/verif/tools/breaker_prompt.txt').read()
focus = json.load(open('/verif/tools/breaker_focus.json')).get('%s-%s' % (pid, suf))
if focus:
    prop += '\nFOCUS FOR THIS ROUND (other people cover the remaining aspects of the property; all of these are aspects named by the property itself): ' + focus + '\n'
print(t.replace('{WT}', '/tmp/brk-%s-%s' % (pid, suf)).replace('{PROPERTY}', prop).replace('{N}', n).replace('{ID}', pid.lower()))
