//! Empty library, see /verif/Cargo.toml.
