#!/usr/bin/env python3
"""Prints the text of one property (for breaker-agent prompts)."""
import json, sys
for l in open('/verif/properties.jsonl'):
    p = json.loads(l)
    if p['id'] == sys.argv[1]:
        print("Property %s — %s\nStatement: %s\nQuantified over: %s\nSource files concerned: %s" % (
            p['id'], p['title'], p['statement'], p['quantifier']['text'], ", ".join(p['anchors']['files'])))
