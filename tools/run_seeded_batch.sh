#!/bin/bash
# usage: run_seeded_batch.sh <snapshot-dir> <target-dir> <suffix> <ID>...   (log to stdout)
SNAP="$1"; TGT="$2"; SUF="$3"; shift 3
export VERIF_SNAP="$SNAP" VERIF_SNAP_TARGET="$TGT" VERIF_NO_FUZZ=1
for id in "$@"; do
  low=$(echo $id | tr A-Z a-z)
  for diff in /tmp/brk-$id-$SUF-out/change*.diff; do
    k=$(basename "$diff" .diff); k=${k#change}
    echo "#### $id-$SUF change $k"
    /verif/tools/verify_seeded.sh /tmp/brk-$id-$SUF "$diff" /tmp/brk-$id-$SUF-out/demo_${low}_$k.rs $id
  done
done
