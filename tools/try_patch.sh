#!/bin/bash
# usage: try_patch.sh <worktree> <patch.diff> <PROPERTY-ID> [target-dir]
# Applies a change to a scratch worktree of /repo, runs the quick check of the property
# against it (vcheck part only, RPKI_SRC override), prints the verdict lines, restores the worktree.
WT="$1"; DIFF="$2"; ID="$3"; TGT="${4:-/root/scratch/tgt-seeded2}"
[ -d "$WT" ] || git -C /repo worktree add -q "$WT" HEAD
(cd "$WT" && git checkout -q -- . && git apply "$DIFF") || { echo "APPLY-FAILED $DIFF"; exit 9; }
(cd /verif && VERIF_NO_FUZZ=${VERIF_NO_FUZZ-1} VERIF_TARGET_DIR="$TGT" RPKI_SRC="$WT" ./check "$ID" quick 2>&1 | grep -E "^(VIOLATION|OK|FAIL|INCONCLUSIVE|KNOWN|BUILD)" | cut -c1-300 | head -6)
rc=${PIPESTATUS[0]}
(cd "$WT" && git checkout -q -- .)
