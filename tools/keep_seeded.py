#!/usr/bin/env python3
"""usage: keep_seeded.py <outdir> <k> <seeded-id> <PROP> <caught:yes|no> <caught_by free text>
Copies change<k>.diff, demo, notes into /verif/seeded/<seeded-id>/ with meta.json."""
import json, os, shutil, sys, glob
out, k, sid, prop, caught, by = sys.argv[1:7]
d = '/verif/seeded/%s' % sid
os.makedirs(d, exist_ok=True)
shutil.copy(os.path.join(out, 'change%s.diff' % k), os.path.join(d, 'patch.diff'))
demo = glob.glob(os.path.join(out, 'demo_*_%s.rs' % k))[0]
shutil.copy(demo, os.path.join(d, os.path.basename(demo)))
notes = open(os.path.join(out, 'notes%s.md' % k)).read()
open(os.path.join(d, 'notes.md'), 'w').write(notes)
meta = {
  "property": prop,
  "origin": "independent sub-agent given only the property text and a scratch worktree",
  "needs_to_manifest": notes.strip(),
  "confirmed": {
    "how": "tools/verify_seeded.sh: applies to a clean worktree of /repo HEAD; all-feature build OK; pinned suite 35/35 pass with the change; demo fails with the change and passes without",
    "demo": os.path.basename(demo),
    "demo_cmd": "cargo test --offline --features ca,repository,rrdp,rtr,slurm,softkeys,serde-support --test %s" % os.path.basename(demo)[:-3],
  },
  "detected_by_quick_check": caught == 'yes',
  "detected_by": by,
}
json.dump(meta, open(os.path.join(d, 'meta.json'), 'w'), indent=1)
print("kept", d)
