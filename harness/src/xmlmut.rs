//! XML-aware byte mutations shared by the parser halves of C09 and C11
//! (included with #[path] by both).

use crate::gen::pick_idx;
use proptest::prelude::*;
use serde::{Deserialize, Serialize};

pub struct Tables {
    pub dict: &'static [&'static [u8]],
    pub replace: &'static [(&'static [u8], &'static [u8])],
    pub opens: &'static [&'static [u8]],
}

#[derive(Clone, Debug, Serialize, Deserialize)]
pub enum Mut {
    /// insert a dictionary token (at a syntax position if `syntax`)
    Dict { at: u16, tok: u16, syntax: bool, replace: u8 },
    Splice { at: u16, del: u16, ins: Vec<u8> },
    Dup { at: u16, len: u16, times: u8, syntax: bool },
    Truncate { at: u16, syntax: bool },
    Flip { at: u16, bit: u8 },
    Nest { at: u16, depth: u16, tok: u16 },
    ReplaceAll { which: u8, first_only: bool },
}

pub fn mut_strategy() -> BoxedStrategy<Mut> {
    prop_oneof![
        5 => (any::<u16>(), any::<u16>(), prop::bool::weighted(0.8), 0u8..4).prop_map(|(at, tok, syntax, replace)| Mut::Dict { at, tok, syntax, replace }),
        2 => (any::<u16>(), 0u16..12, prop::collection::vec(any::<u8>(), 0..6)).prop_map(|(at, del, ins)| Mut::Splice { at, del, ins }),
        2 => (any::<u16>(), 1u16..200, 1u8..4, any::<bool>()).prop_map(|(at, len, times, syntax)| Mut::Dup { at, len, times, syntax }),
        1 => (any::<u16>(), any::<bool>()).prop_map(|(at, syntax)| Mut::Truncate { at, syntax }),
        2 => (any::<u16>(), 0u8..8).prop_map(|(at, bit)| Mut::Flip { at, bit }),
        1 => (any::<u16>(), prop_oneof![1u16..8, 1u16..3000], any::<u16>()).prop_map(|(at, depth, tok)| Mut::Nest { at, depth, tok }),
        1 => (any::<u8>(), any::<bool>()).prop_map(|(which, first_only)| Mut::ReplaceAll { which, first_only }),
    ]
    .boxed()
}

fn syntax_positions(doc: &[u8]) -> Vec<usize> {
    let mut v = Vec::new();
    for (i, b) in doc.iter().enumerate() {
        if matches!(b, b'<' | b'>' | b'"' | b'\'' | b'=' | b'&' | b'/' | b' ' | b'\n') {
            v.push(i);
            // also the position just behind the character
            v.push(i + 1);
        }
    }
    if v.is_empty() {
        v.push(0);
    }
    v
}

fn position(doc: &[u8], at: u16, syntax: bool) -> usize {
    if syntax {
        let p = syntax_positions(doc);
        p[pick_idx(at, p.len())].min(doc.len())
    } else {
        pick_idx(at, doc.len() + 1)
    }
}

fn replace_all(doc: &mut Vec<u8>, from: &[u8], to: &[u8], first_only: bool) {
    let mut out = Vec::with_capacity(doc.len());
    let mut i = 0;
    let mut done = false;
    while i < doc.len() {
        if !(first_only && done) && doc[i..].starts_with(from) {
            out.extend_from_slice(to);
            i += from.len();
            done = true;
        } else {
            out.push(doc[i]);
            i += 1;
        }
    }
    *doc = out;
}

pub fn apply(doc: &mut Vec<u8>, m: &Mut, t: &Tables) {
    const MAX: usize = 4 << 20;
    match m {
        Mut::Dict { at, tok, syntax, replace } => {
            let p = position(doc, *at, *syntax);
            let tk = t.dict[pick_idx(*tok, t.dict.len())];
            let d = (*replace as usize).min(doc.len() - p);
            doc.splice(p..p + d, tk.iter().copied());
        }
        Mut::Splice { at, del, ins } => {
            let p = position(doc, *at, false);
            let d = (*del as usize).min(doc.len() - p);
            doc.splice(p..p + d, ins.iter().copied());
        }
        Mut::Dup { at, len, times, syntax } => {
            let p = position(doc, *at, *syntax);
            let l = (*len as usize).min(doc.len() - p);
            let chunk = doc[p..p + l].to_vec();
            for _ in 0..*times {
                if doc.len() + chunk.len() > MAX {
                    break;
                }
                doc.splice(p..p, chunk.iter().copied());
            }
        }
        Mut::Truncate { at, syntax } => {
            let p = position(doc, *at, *syntax);
            doc.truncate(p);
        }
        Mut::Flip { at, bit } => {
            if !doc.is_empty() {
                let p = pick_idx(*at, doc.len());
                doc[p] ^= 1 << (bit % 8);
            }
        }
        Mut::Nest { at, depth, tok } => {
            let p = position(doc, *at, true);
            let o = t.opens[pick_idx(*tok, t.opens.len())];
            let mut ins = Vec::with_capacity(o.len() * *depth as usize);
            for _ in 0..*depth {
                ins.extend_from_slice(o);
            }
            doc.splice(p..p, ins);
        }
        Mut::ReplaceAll { which, first_only } => {
            let (from, to) = t.replace[*which as usize % t.replace.len()];
            if doc.len() < MAX / 4 {
                replace_all(doc, from, to, *first_only);
            }
        }
    }
}

