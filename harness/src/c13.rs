//! C13 — prefixes, max-length prefixes and AS-number sets obey their value laws.

use crate::engine::*;
use crate::gen::{dense_u128, dense_u32, U128};
use proptest::prelude::*;
use rpki::resources::addr::{MaxLenPrefix, Prefix};
use rpki::resources::asn::{Asn, SmallAsnSet};
use rpki::rtr::payload::RouteOrigin;
use serde::{Deserialize, Serialize};
use serde_json::json;
use std::cmp::Ordering;
use std::collections::BTreeSet;
use std::hash::{Hash, Hasher};
use std::net::{IpAddr, Ipv4Addr, Ipv6Addr};
use std::str::FromStr;

pub const RULE: &str = "construct: random (family, 128-bit address from a boundary-dense strategy, length 0..=255, \
max-len 0..=255 or none) into every constructor, Display/FromStr/serde; oracle = integer model (length bound, host \
bits, clamping); non-trivial = length within the family. pairs/triples: complete enumeration of all ordered pairs and \
triples over a boundary-dense domain D of valid prefixes (both families, lengths around every byte/word boundary, \
addresses 0/all-ones/single bits/RFC1918-like patterns, + 16 (quick) / 96 (thorough) seed-derived ones); oracle = address-range model \
on integers (covers), total-order laws (antisymmetry, transitivity, Equal iff ==), hash agreement, 'more specific sorts \
before covering'; all-lengths: complete enumeration of every pair of prefix lengths of a family (33 x 33, 129 x 129) x 5 base \
addresses x 5 relations between the address parts (same, differing in the last bit of the shorter prefix, in the bit behind it, in the \
first bit, in the last bit of the longer one) with the same pair oracle; non-trivial = pair where one covers the other or they share a range boundary (distinct by \
construction, counted). origins: random triples of (prefix, max-len, asn) from D; oracle = key (prefix, resolved \
max-len, asn). asnset: random ASN vectors with forced duplicates; oracle = BTreeSet; non-trivial = a duplicate present. construct also: Deserialize is a strict constructor (host bits set or length overflow => error; from a string, a JSON value, a reader), IpBlock::from(prefix) covers exactly the prefix's address range.";

//------------ model ----------------------------------------------------------

#[derive(Clone, Copy, Debug, PartialEq, Eq, Hash, Serialize, Deserialize)]
pub struct Spec {
    pub v6: bool,
    /// Address bits: the IPv4 address in the low 32 bits, or the full IPv6 address.
    pub addr: U128,
    pub len: u8,
}

impl Spec {
    fn fam_max(self) -> u8 {
        if self.v6 { 128 } else { 32 }
    }
    fn addr_val(self) -> u128 {
        if self.v6 { self.addr.0 } else { self.addr.0 & 0xFFFF_FFFF }
    }
    fn ip(self) -> IpAddr {
        if self.v6 {
            IpAddr::V6(Ipv6Addr::from(self.addr.0))
        } else {
            IpAddr::V4(Ipv4Addr::from(self.addr_val() as u32))
        }
    }
    fn host_mask(self) -> u128 {
        // valid only if len <= fam_max
        let host = (self.fam_max() - self.len) as u32;
        if host == 0 { 0 } else if host == 128 { u128::MAX } else { (1u128 << host) - 1 }
    }
    fn len_ok(self) -> bool {
        self.len <= self.fam_max()
    }
    fn host_zero(self) -> bool {
        self.addr_val() & self.host_mask() == 0
    }
    fn min(self) -> u128 {
        self.addr_val() & !self.host_mask()
    }
    fn max(self) -> u128 {
        self.min() | self.host_mask()
    }
    fn cleared(self) -> Spec {
        Spec { v6: self.v6, addr: U128(self.min()), len: self.len }
    }
    fn strict(self) -> Result<Prefix, rpki::resources::addr::PrefixError> {
        if self.v6 {
            Prefix::new_v6(Ipv6Addr::from(self.addr.0), self.len)
        } else {
            Prefix::new_v4(Ipv4Addr::from(self.addr_val() as u32), self.len)
        }
    }
    fn relaxed(self) -> Result<Prefix, rpki::resources::addr::PrefixError> {
        if self.v6 {
            Prefix::new_v6_relaxed(Ipv6Addr::from(self.addr.0), self.len)
        } else {
            Prefix::new_v4_relaxed(Ipv4Addr::from(self.addr_val() as u32), self.len)
        }
    }
    fn ip_of(self, v: u128) -> IpAddr {
        if self.v6 { IpAddr::V6(Ipv6Addr::from(v)) } else { IpAddr::V4(Ipv4Addr::from(v as u32)) }
    }
}

fn hash_of<T: Hash>(t: &T) -> u64 {
    let mut h = std::collections::hash_map::DefaultHasher::new();
    t.hash(&mut h);
    h.finish()
}

//------------ construct -------------------------------------------------------

#[derive(Clone, Debug, Serialize, Deserialize)]
pub struct Construct {
    pub spec: Spec,
    pub max_len: Option<u8>,
}

fn len_strategy() -> BoxedStrategy<u8> {
    prop_oneof![
        6 => prop::sample::select(vec![0u8, 1, 7, 8, 9, 15, 16, 17, 23, 24, 25, 31, 32, 33, 47, 48, 63, 64, 65, 95, 96, 97, 126, 127, 128]),
        2 => prop::sample::select(vec![129u8, 130, 191, 192, 200, 254, 255]),
        3 => 0u8..=128,
        1 => any::<u8>(),
    ]
    .boxed()
}

fn construct_strategy(_: Tier) -> BoxedStrategy<Construct> {
    (any::<bool>(), dense_u128(), len_strategy(), prop::option::weighted(0.8, len_strategy()), any::<bool>())
        .prop_map(|(v6, addr, len, max_len, align)| {
            // half of the time align the address to the length so that strict
            // construction succeeds
            let mut spec = Spec { v6, addr: U128(addr), len };
            if !v6 {
                // spread the interesting bits into the low 32 bits
                spec.addr = U128((addr >> 96) ^ (addr & 0xFFFF_FFFF));
            }
            if align && spec.len_ok() {
                spec = spec.cleared();
            }
            Construct { spec, max_len }
        })
        .boxed()
}

fn run_construct(c: &Construct, obs: &mut Obs) -> CheckResult {
    let s = c.spec;
    obs.label(if s.v6 { "v6" } else { "v4" });
    let strict = s.strict();
    let relaxed = s.relaxed();
    let generic = Prefix::new(s.ip(), s.len);
    let generic_relaxed = Prefix::new_relaxed(s.ip(), s.len);
    if !s.len_ok() {
        obs.label("len-overflow");
        ensure!(strict.is_err(), "strict constructor accepted length {} for {:?}", s.len, s);
        ensure!(relaxed.is_err(), "relaxed constructor accepted length {} for {:?}", s.len, s);
        ensure!(generic.is_err() && generic_relaxed.is_err(), "Prefix::new accepted length {}", s.len);
        let text = format!("{}/{}", s.ip(), s.len);
        ensure!(Prefix::from_str(&text).is_err(), "from_str accepted {}", text);
        ensure!(Prefix::from_str_relaxed(&text).is_err(), "from_str_relaxed accepted {}", text);
        ensure!(serde_json::from_str::<Prefix>(&format!("\"{}\"", text)).is_err(), "Prefix deserialized from {}", text);
        ensure!(serde_json::from_value::<Prefix>(json!(text)).is_err(), "Prefix deserialized from the JSON value {}", text);
        return Ok(());
    }
    obs.nontrivial();
    let expect_strict = s.host_zero();
    obs.label(if expect_strict { "host-zero" } else { "host-nonzero" });
    ensure!(
        strict.is_ok() == expect_strict,
        "strict construction of {:?}: got ok={}, expected ok={}", s, strict.is_ok(), expect_strict
    );
    ensure!(generic.is_ok() == expect_strict, "Prefix::new of {:?}: ok={}", s, generic.is_ok());
    let r = match relaxed {
        Ok(r) => r,
        Err(e) => return Err(Fail::new(format!("relaxed construction of {:?} failed: {}", s, e))),
    };
    ensure!(generic_relaxed == Ok(r), "new_relaxed differs from new_vX_relaxed for {:?}", s);
    let m = s.cleared();
    // accessors of the relaxed result against the model
    ensure!(r.is_v4() == !s.v6 && r.is_v6() == s.v6, "family of {:?}", s);
    ensure!(r.len() == s.len, "len() of {:?} is {}", s, r.len());
    ensure!(r.addr() == m.ip(), "addr() of relaxed {:?} is {} expected {}", s, r.addr(), m.ip());
    ensure!(r.min_addr() == s.ip_of(m.min()), "min_addr of {:?} is {}", s, r.min_addr());
    ensure!(r.max_addr() == s.ip_of(m.max()), "max_addr of {:?} is {} expected {}", s, r.max_addr(), s.ip_of(m.max()));
    ensure!(r.addr_and_len() == (m.ip(), s.len), "addr_and_len of {:?}", s);
    if let Ok(p) = strict {
        ensure!(p == r, "strict and relaxed results differ for aligned {:?}", s);
        ensure!(generic == Ok(p), "Prefix::new differs");
    }
    // relaxed result must itself pass the strict constructor
    ensure!(m.strict() == Ok(r), "relaxed result {:?} is not strictly constructible", r);
    // text
    let text = r.to_string();
    ensure!(text == format!("{}/{}", m.ip(), s.len), "Display of {:?} is {}", m, text);
    ensure!(Prefix::from_str(&text) == Ok(r), "from_str({}) != original", text);
    ensure!(Prefix::from_str_relaxed(&text) == Ok(r), "from_str_relaxed({}) != original", text);
    let raw_text = format!("{}/{}", s.ip(), s.len);
    ensure!(Prefix::from_str(&raw_text).is_ok() == expect_strict, "from_str({}) ok mismatch", raw_text);
    ensure!(Prefix::from_str_relaxed(&raw_text) == Ok(r), "from_str_relaxed({}) != cleared prefix", raw_text);
    // serde
    let js = serde_json::to_string(&r).map_err(|e| Fail::new(e.to_string()))?;
    ensure!(js == format!("\"{}\"", text), "serde form {} != Display {}", js, text);
    ensure!(serde_json::from_str::<Prefix>(&js).ok() == Some(r), "serde round trip of {}", js);
    ensure!(serde_json::from_value::<Prefix>(json!(text)).ok() == Some(r), "serde round trip of {} through a JSON value", js);
    ensure!(serde_json::from_reader::<_, Prefix>(js.as_bytes()).ok() == Some(r), "serde round trip of {} through a reader", js);
    // deserialisation is a strict constructor too: host bits must be zero
    let raw_js = format!("\"{}\"", raw_text);
    let de = serde_json::from_str::<Prefix>(&raw_js);
    ensure!(de.is_ok() == expect_strict && (de.is_err() || de.as_ref().ok() == Some(&r)),
        "Prefix deserialized from {}: {:?}, strict construction ok={}", raw_js, de.as_ref().ok(), expect_strict);
    // conversion into the repository's block type keeps the address range
    {
        let b = rpki::repository::resources::IpBlock::from(r);
        let shift = if s.v6 { 0 } else { 96 };
        let lo = m.min() << shift;
        let hi = (m.max() << shift) | if s.v6 { 0 } else { (1u128 << 96) - 1 };
        ensure!(b.min().to_bits() == lo && b.max().to_bits() == hi,
            "IpBlock::from({}) covers {:x}-{:x}, expected {:x}-{:x}", r, b.min().to_bits(), b.max().to_bits(), lo, hi);
    }

    // max-len prefix
    let fam = s.fam_max();
    let mlp = MaxLenPrefix::new(r, c.max_len);
    let exp_ok = match c.max_len {
        None => true,
        Some(ml) => s.len <= ml && ml <= fam,
    };
    obs.label(if exp_ok { "maxlen-ok" } else { "maxlen-bad" });
    ensure!(
        mlp.is_ok() == exp_ok,
        "MaxLenPrefix::new({}, {:?}): ok={} expected {}", r, c.max_len, mlp.is_ok(), exp_ok
    );
    let sat = MaxLenPrefix::saturating_new(r, c.max_len);
    let exp_sat = c.max_len.map(|ml| ml.clamp(s.len, fam));
    ensure!(sat.prefix() == r && sat.max_len() == exp_sat,
        "saturating_new({}, {:?}) = {:?}, expected max_len {:?}", r, c.max_len, sat, exp_sat);
    ensure!(sat.resolved_max_len() == exp_sat.unwrap_or(s.len), "resolved_max_len of {:?}", sat);
    ensure!(sat.prefix_len() == s.len && sat.addr() == r.addr(), "accessors of {:?}", sat);
    // the saturated value must be constructible strictly
    ensure!(MaxLenPrefix::new(r, exp_sat) == Ok(sat), "saturating_new result {:?} rejected by new", sat);
    if let Ok(m) = mlp {
        ensure!(m == sat, "new and saturating_new differ on valid input: {:?} vs {:?}", m, sat);
        ensure!(m.max_len() == c.max_len && m.prefix() == r, "MaxLenPrefix accessors");
    }
    let t = sat.to_string();
    let exp_t = match exp_sat { Some(ml) => format!("{}-{}", text, ml), None => text.clone() };
    ensure!(t == exp_t, "Display of {:?} is {}", sat, t);
    ensure!(MaxLenPrefix::from_str(&t) == Ok(sat), "MaxLenPrefix::from_str({}) != original", t);
    if let Some(ml) = c.max_len {
        let raw = format!("{}-{}", text, ml);
        ensure!(MaxLenPrefix::from_str(&raw).is_ok() == exp_ok, "MaxLenPrefix::from_str({}) ok mismatch", raw);
    }
    ensure!(MaxLenPrefix::from(r) == MaxLenPrefix::saturating_new(r, None), "From<Prefix>");
    Ok(())
}

//------------ domain D --------------------------------------------------------

const V4_LENS: &[u8] = &[0, 1, 7, 8, 9, 15, 16, 17, 23, 24, 25, 31, 32];
const V6_LENS: &[u8] = &[0, 1, 7, 8, 9, 31, 32, 33, 63, 64, 65, 95, 96, 97, 127, 128];
const V4_ADDRS: &[u32] = &[
    0, 0xFFFF_FFFF, 0x8000_0000, 0x7FFF_FFFF, 0xC000_0000, 0x0A00_0000, 0x0A80_0000, 1, 0xFFFF_FFFE, 0xC0A8_0000,
    0xC0A8_0100, 0x0100_0000, 0x00FF_FFFF,
];
const V6_ADDRS: &[u128] = &[
    0,
    u128::MAX,
    1 << 127,
    (1 << 127) - 1,
    1,
    u128::MAX - 1,
    0x2001_0db8_0000_0000_0000_0000_0000_0000,
    0x2001_0db8_8000_0000_0000_0000_0000_0000,
    0x2001_0db8_0000_0000_8000_0000_0000_0000,
    0x2001_0db8_ffff_ffff_ffff_ffff_ffff_ffff,
    0x0000_0000_0000_0000_0000_ffff_0000_0000,
    0x0000_0000_0000_0001_0000_0000_0000_0000,
    0xfe80_0000_0000_0000_0000_0000_0000_0001,
];

fn domain(thorough: bool, seed: u64) -> Vec<Spec> {
    let mut v4: Vec<u32> = V4_ADDRS.to_vec();
    let mut v6: Vec<u128> = V6_ADDRS.to_vec();
    {
        for (i, v) in seed_values(seed, "C13", "domain", if thorough { 96 } else { 16 }).into_iter().enumerate() {
            if i % 2 == 0 {
                v4.push(v as u32);
            } else {
                v6.push(((v as u128) << 64) | (v.rotate_left(17) as u128));
            }
        }
    }
    let mut set = BTreeSet::new();
    for &a in &v4 {
        for &l in V4_LENS {
            let s = Spec { v6: false, addr: U128(a as u128), len: l }.cleared();
            set.insert((s.v6, s.len, s.addr.0));
        }
    }
    for &a in &v6 {
        for &l in V6_LENS {
            let s = Spec { v6: true, addr: U128(a), len: l }.cleared();
            set.insert((s.v6, s.len, s.addr.0));
        }
    }
    set.into_iter().map(|(v6, len, addr)| Spec { v6, addr: U128(addr), len }).collect()
}

//------------ pairs & triples -------------------------------------------------

#[derive(Clone, Debug, Serialize, Deserialize)]
pub struct Row {
    pub thorough: bool,
    pub seed: u64,
    pub a: Spec,
    /// None: all of D
    pub b: Option<Spec>,
    pub c: Option<Spec>,
    pub triples: bool,
}

fn model_cmp_key(s: Spec) -> (bool, u128, std::cmp::Reverse<u8>) {
    // A total order with the documented properties exists; we do not demand a
    // specific one beyond the laws, this key is only used for reporting.
    (s.v6, s.min(), std::cmp::Reverse(s.len))
}

fn check_pair(a: Spec, b: Spec, pa: Prefix, pb: Prefix) -> Result<bool, Fail> {
    let exp_covers = a.v6 == b.v6 && a.min() <= b.min() && b.max() <= a.max();
    let got = pa.covers(pb);
    ensure!(got == exp_covers, "{}.covers({}) = {}, address-range model says {}", pa, pb, got, exp_covers);
    let ab = pa.cmp(&pb);
    let ba = pb.cmp(&pa);
    ensure!(ab == ba.reverse(), "cmp not antisymmetric: {} vs {}: {:?} / {:?}", pa, pb, ab, ba);
    ensure!(pa.partial_cmp(&pb) == Some(ab), "partial_cmp != cmp for {} {}", pa, pb);
    let eq = pa == pb;
    ensure!(eq == (a == b), "== of {} and {} is {}, model {}", pa, pb, eq, a == b);
    ensure!((ab == Ordering::Equal) == eq, "cmp Equal ({:?}) disagrees with == ({}) for {} {}", ab, eq, pa, pb);
    if eq {
        ensure!(hash_of(&pa) == hash_of(&pb), "equal prefixes hash differently: {} {}", pa, pb);
    }
    if exp_covers && !eq {
        ensure!(ab == Ordering::Greater, "{} covers {} but does not sort after it ({:?})", pa, pb, ab);
    }
    // MaxLenPrefix with equal prefix: ordering consistent with equality
    let shares = a.v6 == b.v6 && (a.min() == b.min() || a.max() == b.max() || exp_covers
        || (b.min() <= a.min() && a.max() <= b.max()));
    Ok(shares && !eq)
}

fn run_row(r: &Row, obs: &mut Obs) -> CheckResult {
    let d = domain(r.thorough, r.seed);
    let pa = r.a.strict().map_err(|e| Fail::new(format!("domain element {:?} rejected: {}", r.a, e)))?;
    let bs: Vec<Spec> = match r.b { Some(b) => vec![b], None => d.clone() };
    let cs: Vec<Spec> = match r.c { Some(c) => vec![c], None => d.clone() };
    let mut evals = 0u64;
    let mut nt = 0u64;
    for &b in &bs {
        let pb = b.strict().map_err(|e| Fail::new(format!("domain element {:?} rejected: {}", b, e)))?;
        if !r.triples {
            evals += 1;
            match check_pair(r.a, b, pa, pb) {
                Ok(true) => nt += 1,
                Ok(false) => {}
                Err(f) => {
                    return Err(Fail::sig("pair", f.msg).with_case(json!({
                        "thorough": r.thorough, "seed": r.seed, "a": r.a, "b": b, "c": null, "triples": false
                    })))
                }
            }
            continue;
        }
        let ab = pa.cmp(&pb);
        for &c in &cs {
            let pc = c.strict().map_err(|e| Fail::new(format!("domain element {:?} rejected: {}", c, e)))?;
            evals += 1;
            let bc = pb.cmp(&pc);
            let ac = pa.cmp(&pc);
            // transitivity of <= : a<=b and b<=c => a<=c; and of equality
            let ok = if ab != Ordering::Greater && bc != Ordering::Greater {
                if ab == Ordering::Equal && bc == Ordering::Equal { ac == Ordering::Equal }
                else { ac == Ordering::Less }
            } else { true };
            // covers is transitive as well
            let cov_ok = !(pa.covers(pb) && pb.covers(pc)) || pa.covers(pc);
            if !ok || !cov_ok {
                return Err(Fail::sig("triple", format!(
                    "order/covers not transitive: a={} b={} c={} cmp(a,b)={:?} cmp(b,c)={:?} cmp(a,c)={:?} covers-transitive={}",
                    pa, pb, pc, ab, bc, ac, cov_ok
                )).with_case(json!({
                    "thorough": r.thorough, "seed": r.seed, "a": r.a, "b": b, "c": c, "triples": true
                })));
            }
            if ab != Ordering::Greater && bc != Ordering::Greater && (pa != pb || pb != pc) {
                nt += 1;
            }
        }
    }
    let _ = model_cmp_key;
    obs.evals(evals.saturating_sub(1));
    obs.bulk_nontrivial = nt;
    obs.label(if r.a.v6 { "v6" } else { "v4" });
    Ok(())
}

fn count_rows(tier: Tier, seed: u64) -> u64 {
    domain(tier == Tier::Thorough, seed).len() as u64
}
fn make_pair_row(tier: Tier, seed: u64, idx: u64) -> Row {
    let th = tier == Tier::Thorough;
    let d = domain(th, seed);
    Row { thorough: th, seed, a: d[idx as usize], b: None, c: None, triples: false }
}
fn make_triple_row(tier: Tier, seed: u64, idx: u64) -> Row {
    let th = tier == Tier::Thorough;
    let d = domain(th, seed);
    Row { thorough: th, seed, a: d[idx as usize], b: None, c: None, triples: true }
}

//------------ every pair of lengths --------------------------------------------

/// Row of the complete (family, length a, length b) enumeration: for one family and one
/// length of `a`, every length of `b` and every relation between the two address parts
/// (same bits, differing in the last bit of the shorter prefix, in the bit just behind
/// it, in the first bit, in the last bit of the longer prefix) over a few base addresses.
#[derive(Clone, Debug, Serialize, Deserialize)]
pub struct LenRow {
    pub v6: bool,
    pub la: u8,
    /// Some: only this pair
    pub only: Option<(Spec, Spec)>,
}

const LEN_BASES: [u128; 5] = [
    0,
    u128::MAX,
    0xAAAA_AAAA_AAAA_AAAA_AAAA_AAAA_AAAA_AAAA,
    0x2001_0db8_85a3_08d3_1319_8a2e_0370_7344,
    0xC0A8_01FE_0A01_02FD_7F00_0001_E000_00FB,
];

fn count_len_rows(_: Tier, _: u64) -> u64 {
    33 + 129
}
fn make_len_row(_: Tier, _: u64, idx: u64) -> LenRow {
    if idx < 33 { LenRow { v6: false, la: idx as u8, only: None } } else { LenRow { v6: true, la: (idx - 33) as u8, only: None } }
}

fn run_len_row(r: &LenRow, obs: &mut Obs) -> CheckResult {
    let bits: u32 = if r.v6 { 128 } else { 32 };
    ensure!(r.la as u32 <= bits, "malformed case");
    let mk = |raw: u128, len: u8| -> Spec {
        // the family's bits of `raw`, right-aligned
        let v = if r.v6 { raw } else { raw >> 96 };
        Spec { v6: r.v6, addr: U128(v), len }.cleared()
    };
    let flip = |raw: u128, bit_from_top: u32| -> u128 {
        // bit 1 = most significant bit of the family's address
        if bit_from_top == 0 || bit_from_top > bits { raw } else { raw ^ (1u128 << (128 - bit_from_top)) }
    };
    let mut pairs: Vec<(Spec, Spec)> = Vec::new();
    match r.only {
        Some(p) => pairs.push(p),
        None => {
            for lb in 0..=bits as u8 {
                let (short, long) = (r.la.min(lb) as u32, r.la.max(lb) as u32);
                for &base in &LEN_BASES {
                    for other in [base, flip(base, short), flip(base, short + 1), flip(base, 1), flip(base, long)] {
                        pairs.push((mk(base, r.la), mk(other, lb)));
                    }
                }
            }
        }
    }
    let (mut evals, mut nt) = (0u64, 0u64);
    for (a, b) in pairs {
        let pa = a.strict().map_err(|e| Fail::new(format!("{:?} rejected: {}", a, e)))?;
        let pb = b.strict().map_err(|e| Fail::new(format!("{:?} rejected: {}", b, e)))?;
        evals += 1;
        match check_pair(a, b, pa, pb) {
            Ok(true) => nt += 1,
            Ok(false) => {}
            Err(f) => return Err(Fail::sig("pair-all-lengths", f.msg).with_case(json!({"v6": r.v6, "la": r.la, "only": [a, b]}))),
        }
    }
    obs.evals(evals.saturating_sub(1));
    obs.bulk_nontrivial = nt;
    obs.label(if r.v6 { "v6" } else { "v4" });
    Ok(())
}

//------------ origins ---------------------------------------------------------

#[derive(Clone, Debug, Serialize, Deserialize)]
pub struct OriginSpec {
    pub p: Spec,
    pub max_len: Option<u8>,
    pub asn: u32,
}

#[derive(Clone, Debug, Serialize, Deserialize)]
pub struct Origins {
    pub o: Vec<OriginSpec>,
}

fn origin_strategy(_: Tier) -> BoxedStrategy<Origins> {
    let d = domain(false, 0);
    let n = d.len();
    let one = (0..n, prop::option::weighted(0.7, 0u8..=4), prop::sample::select(vec![0u32, 1, 2, 64512, u32::MAX]))
        .prop_map(move |(i, extra, asn)| {
            let p = d[i];
            // max-len: prefix len + extra, clamped into the family
            let max_len = extra.map(|e| (p.len + e).min(p.fam_max()));
            OriginSpec { p, max_len, asn }
        });
    // triples where the 2nd/3rd often reuse the first's prefix
    (one.clone(), one.clone(), one, 0u8..8, 0u8..8)
        .prop_map(|(a, mut b, mut c, sb, sc)| {
            if sb < 5 { b.p = a.p; }
            if sb < 2 { b.asn = a.asn; }
            if sc < 5 { c.p = if sc % 2 == 0 { a.p } else { b.p }; }
            if sc < 2 { c.asn = b.asn; }
            for x in [&mut b, &mut c] {
                if let Some(ml) = x.max_len {
                    x.max_len = Some(ml.clamp(x.p.len, x.p.fam_max()));
                }
            }
            Origins { o: vec![a, b, c] }
        })
        .boxed()
}

fn run_origins(c: &Origins, obs: &mut Obs) -> CheckResult {
    let mut v = Vec::new();
    for o in &c.o {
        let p = o.p.strict().map_err(|e| Fail::new(format!("bad domain prefix: {}", e)))?;
        let m = MaxLenPrefix::new(p, o.max_len)
            .map_err(|e| Fail::new(format!("generator produced invalid max-len {:?}: {}", o, e)))?;
        let ro = RouteOrigin::new(m, Asn::from_u32(o.asn));
        let resolved = o.max_len.unwrap_or(o.p.len);
        v.push((ro, m, (p, resolved, o.asn)));
    }
    let mut any_same_prefix = false;
    for i in 0..v.len() {
        for j in 0..v.len() {
            let (a, ma, ka) = &v[i];
            let (b, mb, kb) = &v[j];
            if i != j && ka.0 == kb.0 { any_same_prefix = true; }
            let exp_eq = ka == kb;
            ensure!((a == b) == exp_eq, "RouteOrigin == of {:?} and {:?}: {} expected {}", a, b, a == b, exp_eq);
            let exp_cmp = ka.0.cmp(&kb.0).then(ka.1.cmp(&kb.1)).then(ka.2.cmp(&kb.2));
            ensure!(a.cmp(b) == exp_cmp, "RouteOrigin cmp of {:?} and {:?}: {:?} expected {:?}", a, b, a.cmp(b), exp_cmp);
            ensure!(a.partial_cmp(b) == Some(exp_cmp), "RouteOrigin partial_cmp");
            if exp_eq {
                ensure!(hash_of(a) == hash_of(b), "equal RouteOrigins hash differently: {:?} {:?}", a, b);
            }
            // MaxLenPrefix: total order consistent with (derived) equality
            let mc = ma.cmp(mb);
            ensure!(mc == mb.cmp(ma).reverse(), "MaxLenPrefix cmp not antisymmetric: {:?} {:?}", ma, mb);
            ensure!((mc == Ordering::Equal) == (ma == mb), "MaxLenPrefix cmp Equal disagrees with ==: {:?} {:?}", ma, mb);
            if ma == mb {
                ensure!(hash_of(ma) == hash_of(mb), "equal MaxLenPrefix hash differently");
            }
            if ma.prefix() != mb.prefix() {
                ensure!(mc == ma.prefix().cmp(&mb.prefix()), "MaxLenPrefix order must follow prefix order: {:?} {:?}", ma, mb);
            }
        }
    }
    // transitivity on the triple (MaxLenPrefix and RouteOrigin)
    if v.len() == 3 {
        let mut idx = [0usize, 1, 2];
        idx.sort_by(|&x, &y| v[x].1.cmp(&v[y].1));
        ensure!(v[idx[0]].1.cmp(&v[idx[2]].1) != Ordering::Greater, "MaxLenPrefix order not transitive on {:?}", c);
        idx.sort_by(|&x, &y| v[x].0.cmp(&v[y].0));
        ensure!(v[idx[0]].0.cmp(&v[idx[2]].0) != Ordering::Greater, "RouteOrigin order not transitive on {:?}", c);
    }
    obs.nontrivial_if(any_same_prefix);
    obs.label_if(any_same_prefix, "same-prefix");
    Ok(())
}

//------------ asn sets ---------------------------------------------------------

#[derive(Clone, Debug, Serialize, Deserialize)]
pub struct AsnSets {
    pub a: Vec<u32>,
    pub b: Vec<u32>,
    pub probe: Vec<u32>,
}

fn asn_val() -> BoxedStrategy<u32> {
    prop_oneof![
        5 => prop::sample::select(vec![0u32, 1, 2, 3, 4, 5, u32::MAX - 1, u32::MAX]),
        1 => dense_u32(),
    ]
    .boxed()
}

fn asnset_strategy(_: Tier) -> BoxedStrategy<AsnSets> {
    (prop::collection::vec(asn_val(), 0..12), prop::collection::vec(asn_val(), 0..12), prop::collection::vec(asn_val(), 1..4))
        .prop_map(|(a, b, probe)| AsnSets { a, b, probe })
        .boxed()
}

fn run_asnset(c: &AsnSets, obs: &mut Obs) -> CheckResult {
    let ma: BTreeSet<u32> = c.a.iter().copied().collect();
    let mb: BTreeSet<u32> = c.b.iter().copied().collect();
    let dup = ma.len() != c.a.len() || mb.len() != c.b.len();
    obs.nontrivial_if(dup);
    obs.label_if(dup, "duplicate");
    let sa: SmallAsnSet = c.a.iter().map(|&x| Asn::from_u32(x)).collect();
    let sb: SmallAsnSet = c.b.iter().map(|&x| Asn::from_u32(x)).collect();
    for (name, s, m) in [("a", &sa, &ma), ("b", &sb, &mb)] {
        let items: Vec<u32> = s.iter().map(|x| x.into_u32()).collect();
        let exp: Vec<u32> = m.iter().copied().collect();
        ensure_sig!(items == exp, "asnset-from-iter",
            "SmallAsnSet::from_iter({:?}) [{}] iterates {:?}, expected sorted duplicate-free {:?}", if name == "a" { &c.a } else { &c.b }, name, items, exp);
        ensure!(s.len() == m.len(), "len() {} != {}", s.len(), m.len());
        ensure!(s.is_empty() == m.is_empty(), "is_empty");
        let via_ref: Vec<u32> = s.into_iter().map(|x| x.into_u32()).collect();
        ensure!(via_ref == exp, "IntoIterator differs");
        for &p in c.probe.iter().chain(exp.iter()) {
            ensure!(s.contains(Asn::from_u32(p)) == m.contains(&p), "contains({}) on {:?}", p, exp);
        }
    }
    // The operations must equal the mathematical ones *as sets*: every item once,
    // nothing else. (The order in which an operation yields its items is not
    // part of the statement; "sorted" is said of a set built from items.)
    let to_set = |what: &str, it: &mut dyn Iterator<Item = Asn>| -> Result<BTreeSet<u32>, Fail> {
        let v: Vec<u32> = it.map(|x| x.into_u32()).collect();
        let set: BTreeSet<u32> = v.iter().copied().collect();
        if set.len() != v.len() {
            return Err(Fail::new(format!("{} of {:?} and {:?} yields an item twice: {:?}", what, ma, mb, v)));
        }
        Ok(set)
    };
    let u = to_set("union", &mut sa.union(&sb))?;
    ensure!(u == ma.union(&mb).copied().collect::<BTreeSet<_>>(), "union of {:?} and {:?} = {:?}", ma, mb, u);
    let i = to_set("intersection", &mut sa.intersection(&sb))?;
    ensure!(i == ma.intersection(&mb).copied().collect::<BTreeSet<_>>(), "intersection of {:?} and {:?} = {:?}", ma, mb, i);
    let d = to_set("difference", &mut sa.difference(&sb))?;
    ensure!(d == ma.difference(&mb).copied().collect::<BTreeSet<_>>(), "difference of {:?} and {:?} = {:?}", ma, mb, d);
    let s = to_set("symmetric difference", &mut sa.symmetric_difference(&sb))?;
    ensure!(s == ma.symmetric_difference(&mb).copied().collect::<BTreeSet<_>>(), "symmetric difference of {:?} and {:?} = {:?}", ma, mb, s);
    // what the operations yield does not depend on how the iterator is driven: nth, skip,
    // step_by, count, last, fold and size_hint agree with repeated next()
    if c.a.len() + c.b.len() <= 40 {
        crate::iterlaws::check("SmallAsnSet::iter()", "c13:iterator-laws", 64, || sa.iter())?;
        crate::iterlaws::check("SmallAsnSet::union()", "c13:iterator-laws", 64, || sa.union(&sb))?;
        crate::iterlaws::check("SmallAsnSet::intersection()", "c13:iterator-laws", 64, || sa.intersection(&sb))?;
        crate::iterlaws::check("SmallAsnSet::difference()", "c13:iterator-laws", 64, || sa.difference(&sb))?;
        crate::iterlaws::check("SmallAsnSet::symmetric_difference()", "c13:iterator-laws", 64, || sa.symmetric_difference(&sb))?;
        crate::iterlaws::check("&SmallAsnSet::into_iter()", "c13:iterator-laws", 64, || (&sa).into_iter())?;
    }
    // equality of sets built from permutations
    let mut rev = c.a.clone();
    rev.reverse();
    let sr: SmallAsnSet = rev.iter().map(|&x| Asn::from_u32(x)).collect();
    ensure!(sr == sa, "set built from reversed input differs");
    // Asn text round trip
    for &p in &c.probe {
        let a = Asn::from_u32(p);
        ensure!(Asn::from_str(&a.to_string()) == Ok(a), "Asn text round trip of {}", a);
        ensure!(Asn::from_str(&p.to_string()) == Ok(a), "Asn from bare number {}", p);
        ensure!(a.to_string() == format!("AS{}", p), "Asn Display");
    }
    Ok(())
}

pub fn property() -> Property {
    Property {
        id: "C13",
        rule: RULE,
        assumptions: vec![
            "std::net address formatting/parsing is correct (used for Display/FromStr expectations)",
            "BTreeSet<u32> is the reference for AS-number set operations",
        ],
        subs: vec![
            PropSub {
                name: "construct",
                strategy: construct_strategy,
                cases: |t| t.pick(3_000_000, 60_000_000),
                run: run_construct,
                floors: &[("host-zero", 0.2), ("host-nonzero", 0.1), ("len-overflow", 0.05), ("maxlen-ok", 0.1), ("maxlen-bad", 0.1)],
            }
            .boxed(),
            EnumSub { name: "pairs", count: count_rows, make: make_pair_row, run: run_row, exhaustive: true }.boxed(),
            EnumSub { name: "triples", count: count_rows, make: make_triple_row, run: run_row, exhaustive: true }.boxed(),
            EnumSub { name: "all-lengths", count: count_len_rows, make: make_len_row, run: run_len_row, exhaustive: true }.boxed(),
            PropSub {
                name: "origins",
                strategy: origin_strategy,
                cases: |t| t.pick(2_000_000, 40_000_000),
                run: run_origins,
                floors: &[("same-prefix", 0.3)],
            }
            .boxed(),
            PropSub {
                name: "asnset",
                strategy: asnset_strategy,
                cases: |t| t.pick(2_000_000, 40_000_000),
                run: run_asnset,
                floors: &[("duplicate", 0.3)],
            }
            .boxed(),
        ],
    }
}
