//! vcheck — property-based checks for NLnetLabs/rpki-rs (see /verif/DESIGN.md).
//!
//! usage: vcheck <property-id> quick|thorough
//!        vcheck <property-id> --replay <file>
//!        vcheck list

#[macro_use]
pub mod engine;
pub mod gen;
pub mod c13;
pub mod c16;

use engine::{Property, Tier};

fn properties() -> Vec<fn() -> Property> {
    vec![
        c13::property,
        c16::property,
    ]
}

fn main() {
    engine::install_panic_hook();
    let args: Vec<String> = std::env::args().skip(1).collect();
    if args.first().map(|s| s.as_str()) == Some("list") {
        for p in properties() {
            let p = p();
            println!("{} {}", p.id, p.subs.iter().map(|s| s.name()).collect::<Vec<_>>().join(","));
        }
        return;
    }
    if args.len() < 2 {
        eprintln!("usage: vcheck <id> quick|thorough | vcheck <id> --replay <file>");
        std::process::exit(2);
    }
    let Some(prop) = properties().into_iter().map(|p| p()).find(|p| p.id == args[0]) else {
        eprintln!("unknown property {}", args[0]);
        std::process::exit(2);
    };
    let out = match args[1].as_str() {
        "quick" => engine::run_property(prop, Tier::Quick),
        "thorough" => engine::run_property(prop, Tier::Thorough),
        "--replay" => {
            let Some(path) = args.get(2) else {
                eprintln!("--replay needs a file");
                std::process::exit(2);
            };
            engine::run_replay(prop, path)
        }
        other => {
            eprintln!("unknown tier {}", other);
            std::process::exit(2);
        }
    };
    std::process::exit(out.exit);
}
