//! vcheck — property-based checks for NLnetLabs/rpki-rs (see /verif/DESIGN.md).
//!
//! usage: vcheck <property-id> quick|thorough
//!        vcheck <property-id> --replay <file>
//!        vcheck list

#[macro_use]
pub mod engine;
pub mod gen;
pub mod keys;
pub mod der;
pub mod iset;
pub mod iterlaws;
pub mod rtrsim;
pub mod xmlrespell;
pub mod c01;
pub mod c02;
pub mod c03;
pub mod c04;
pub mod c05;
pub mod c06;
pub mod c07;
pub mod c08;
pub mod c09;
pub mod c10;
pub mod c11;
pub mod c12;
pub mod c13;
pub mod c14;
pub mod c15;
pub mod c16;
pub mod c17;

use engine::{Property, Tier};

/// Counting allocator (thread-local counters, active only inside
/// `c04::walk::measure`): the deterministic proxy for the memory bound of C04.
#[global_allocator]
static ALLOC: c04::walk::CountingAlloc = c04::walk::CountingAlloc;

/// Hidden property exercising the watchdog (`VERIF_SELFTEST=hang`, expect exit
/// 2) and the crash isolation of the driver (`VERIF_SELFTEST=abort`, expect a
/// VIOLATION naming the case 1234).
fn selftest_property() -> Property {
    use proptest::prelude::*;
    fn strat(_: Tier) -> BoxedStrategy<u32> {
        (0u32..2000).boxed()
    }
    fn run(c: &u32, _: &mut engine::Obs) -> engine::CheckResult {
        if *c == 1234 {
            match std::env::var("VERIF_SELFTEST").as_deref() {
                Ok("hang") => loop {
                    std::thread::sleep(std::time::Duration::from_millis(50));
                },
                Ok("abort") => std::process::abort(),
                _ => {}
            }
        }
        Ok(())
    }
    Property {
        id: "SELFTEST",
        rule: "",
        assumptions: vec![],
        subs: vec![engine::PropSub { name: "t", strategy: strat, cases: |_| 200_000, run, floors: &[] }.boxed()],
    }
}

fn properties() -> Vec<fn() -> Property> {
    if std::env::var("VERIF_SELFTEST").is_ok() {
        return vec![selftest_property];
    }
    vec![
        c01::property,
        c02::property,
        c03::property,
        c04::property,
        c05::property,
        c06::property,
        c07::property,
        c08::property,
        c09::property,
        c10::property,
        c11::property,
        c12::property,
        c13::property,
        c14::property,
        c15::property,
        c16::property,
        c17::property,
    ]
}

fn main() {
    engine::install_panic_hook();
    let args: Vec<String> = std::env::args().skip(1).collect();
    if args.first().map(|s| s.as_str()) == Some("list") {
        for p in properties() {
            let p = p();
            println!("{} {}", p.id, p.subs.iter().map(|s| s.name()).collect::<Vec<_>>().join(","));
        }
        return;
    }
    if args.first().map(|s| s.as_str()) == Some("selftest") {
        selftest();
        return;
    }
    if args.len() < 2 {
        eprintln!("usage: vcheck <id> quick|thorough | vcheck <id> --replay <file>");
        std::process::exit(2);
    }
    let Some(prop) = properties().into_iter().map(|p| p()).find(|p| p.id == args[0]) else {
        eprintln!("unknown property {}", args[0]);
        std::process::exit(2);
    };
    let out = match args[1].as_str() {
        "quick" => engine::run_property(prop, Tier::Quick),
        "thorough" => engine::run_property(prop, Tier::Thorough),
        "--replay" => {
            let Some(path) = args.get(2) else {
                eprintln!("--replay needs a file");
                std::process::exit(2);
            };
            engine::run_replay(prop, path)
        }
        other => {
            eprintln!("unknown tier {}", other);
            std::process::exit(2);
        }
    };
    std::process::exit(out.exit);
}

/// Sanity checks of the harness' own trusted parts (key pool, raw verifier).
fn selftest() {
    use rpki::crypto::{RpkiSignatureAlgorithm, Signer};
    let signer = keys::PoolSigner::new();
    for i in 0..keys::POOL_SIZE {
        let k = signer.key(i);
        let info = signer.get_key_info(&k).unwrap();
        let sig = signer.sign(&k, RpkiSignatureAlgorithm::default(), b"selftest").unwrap();
        info.verify(b"selftest", &sig).expect("library verifies pool signature");
        assert!(keys::raw_verify(i, b"selftest", sig.value()));
        assert!(!keys::raw_verify(i, b"selftesu", sig.value()));
        assert!(!keys::raw_verify((i + 1) % keys::POOL_SIZE, b"selftest", sig.value()));
        assert_eq!(keys::key_id_of_spki(&keys::pool().spki[i]).unwrap().as_slice(), info.key_identifier().as_slice());
    }
    assert!(keys::ec_key(0).allow_router_cert());
    println!("selftest ok");
}
