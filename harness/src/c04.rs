//! C04 — decoders never panic or run away; accessors of decoded values are
//! panic-free.
//!
//! The oracle (decode through one entry point, then walk every accessor) lives
//! in `c04_walk.rs`, the lenient TLV scanner / mutation operators in
//! `c04_tlv.rs`; both are shared with the `der_decoders` fuzz target.

#[path = "c04_tlv.rs"]
pub mod tlv;
#[path = "c04_walk.rs"]
pub mod walk;

use crate::engine::*;
use crate::gen::pick_idx;
use crate::keys::{self, PoolSigner};
use proptest::prelude::*;
use serde::{Deserialize, Serialize};
use serde_json::json;
use std::net::{Ipv4Addr, Ipv6Addr};
use std::str::FromStr;
use std::sync::OnceLock;

use bytes::Bytes;
use rpki::ca::csr::Csr;
use rpki::ca::idcert::IdCert;
use rpki::ca::idexchange::{RecipientHandle, SenderHandle};
use rpki::ca::provisioning::{self, ProvisioningCms};
use rpki::ca::publication::{self, PublicationCms};
use rpki::crypto::{DigestAlgorithm, RpkiSignatureAlgorithm};
use rpki::dep::bcder::encode::Values as _;
use rpki::dep::bcder::{Mode, Oid};
use rpki::repository::aspa::AspaBuilder;
use rpki::repository::cert::{Cert, ExtendedKeyUsage, KeyUsage, Overclaim, TbsCert};
use rpki::repository::crl::{CrlEntry, TbsCertList};
use rpki::repository::manifest::{FileAndHash, ManifestContent};
use rpki::repository::resources::{AddressRange, Addr, AsBlock, Prefix};
use rpki::repository::roa::RoaBuilder;
use rpki::repository::rta::AttestationBuilder;
use rpki::repository::sigobj::SignedObjectBuilder;
use rpki::repository::x509::{Serial, Time, Validity};
use rpki::resources::Asn;
use rpki::uri;

pub const RULE: &str = "seeds: every seed object (files of /repo/test-data + objects built at start-up with the library \
builders and the key pool) unmutated through its entry point in every mode, then the accessor walk; complete. prefixes: \
every proper prefix of every seed through its entry point (complete enumeration of truncation points; seeds > 16 KiB: every \
61st). mutate: (entry point, strict flag, seed, 1-6 TLV mutation operators with numeric parameters: value byte, tag, length \
form incl. long / indefinite / overflowing / lying, raw and structured truncation, delete, duplicate (up to 17000x), splice \
of a subtree of any other seed, nest up to 20000 levels, INTEGER / BIT STRING edge values, swap of range ends and siblings, \
raw byte edits, INTEGER -> AS range incl. AS0-AS4294967295 and min > max, BIT STRING -> address range, time / URI / OID \
strings, segment = primitive string (OCTET / BIT / character / time string, implicitly tagged value) rewritten in BER constructed \
form with 1-33 segments incl. empty ones, total length changed by -1 / 0 / +1 / +3 / +43 / +300, definite / indefinite / nested / \
long-form segments, bit-unused = unused-bits octet of a BIT STRING set to 1-7 with those bits cleared (or left set, 0, 8, 255), \
pad-to = a constructed value (SETs and context-tagged values preferred) padded by a junk attribute, a junk OCTET STRING or empty \
segments of a string inside it so that its content length becomes exactly 0x7F / 0x80 / 0xFF / 0x100 / 0xFFFF / 0x10000 / 0x10001); \
the mutated bytes are recomputed from the case. resign: a library-created RFC 6492 / RFC 8181 message whose embedded CRL gets 0-5 entries and 0-3 TLV mutations inside the TBSCertList (length forms, value bytes, edge values, ...) and is signed again with the issuing pool key, decoded and validated under that key (non-trivial = validation succeeded, i.e. ran through the revocation lookup). random: pure random bytes (0..600 octets), optionally behind the \
first k octets of a seed. Oracle for all: decode returns Ok or Err without panicking; on Ok the accessor walk (every getter, \
inspect_*, validation (validate / validate_at / process, reached also when the signature cannot verify) against a fixed \
issuer / key / TAL, Crl::contains + iterator + cache_serials + CrlStore lookups, manifest \
iter / iter_uris / len, ROA iter / iter_origins, ASPA provider iterator / to_set, the certificates, revocation lists and signer \
infos carried by an RTA (through RtaBuilder::from_rta), resource-block iterators bounded by \
take(4096), set operations against fixed issuer resources, asn_count, Display / Debug, re-encoding and re-decoding) does not \
panic; when the counting allocator is installed: peak live bytes <= 64*len + 1 MiB and allocation calls <= 64*len + 4096 \
per decode + walk. non-trivial = the decoder returned Ok (walk ran), or its first stage succeeded (outer SignedData / \
SignedObject / SignedMessage / key-info text accepted, failure in the typed content), or the reported error position lies \
behind the headers of the first three nested TLVs of the input. Entry points without a strict flag of their own (certificate, CRL, identity certificate, public key) are reached through X::decode (DER) and through the public X::take_from under a BER-mode decoder; the manifest content is also decoded on its own through ManifestContent::take_from in DER and BER mode (the ROA and ASPA content decoders are private); the walk drives the file-list, prefix and provider iterators through count / last / nth / size_hint as well. The string operator writes, besides the table of edge strings, calendar-shaped time values generated from a number (any century, month 0..13, day 0 / 28..32, hour to 24, minute / second to 60, in the form that goes with the tag).";

//------------ seeds -------------------------------------------------------------

pub struct Seed {
    pub name: String,
    pub entry: u8,
    /// DER bytes (TAL: the SubjectPublicKeyInfo)
    pub der: Vec<u8>,
    /// TAL only: comment / URI lines in front of the base64 block
    pub tal_head: Option<Vec<u8>>,
    /// expected to decode (in relaxed mode where there is a switch)
    pub valid: bool,
    /// also valid in strict mode
    pub strict_ok: bool,
}

pub struct Seeds {
    /// when the library-created protocol messages were made
    pub created: Time,
    pub all: Vec<Seed>,
    /// indices into `all` per entry point
    pub per_entry: Vec<Vec<usize>>,
}

macro_rules! td {
    ($p:literal) => {
        (&include_bytes!(concat!("/repo/test-data/", $p))[..], $p)
    };
}

use tlv::{b64, unb64};

fn t0() -> Time {
    Time::utc(2020, 1, 1, 0, 0, 0)
}
fn t1() -> Time {
    Time::utc(2040, 1, 1, 0, 0, 0)
}
fn tsig() -> Time {
    Time::utc(2024, 3, 1, 12, 0, 0)
}
fn rsync(s: &str) -> uri::Rsync {
    uri::Rsync::from_str(s).expect("rsync uri")
}

fn sob(serial: u64) -> SignedObjectBuilder {
    let mut b = SignedObjectBuilder::new(
        Serial::from(serial),
        Validity::new(t0(), t1()),
        rsync("rsync://example.com/repo/ca.crl"),
        rsync("rsync://example.com/repo/ca.cer"),
        rsync("rsync://example.com/repo/obj.bin"),
    );
    b.set_signing_time(tsig());
    b
}

fn ta_cert(signer: &PoolSigner, key: usize, trim: bool) -> Cert {
    let k = signer.key(key);
    let pk = signer.info(key);
    let mut c = TbsCert::new(
        Serial::from(12u64),
        pk.to_subject_name(),
        Validity::new(t0(), t1()),
        None,
        pk,
        KeyUsage::Ca,
        if trim { Overclaim::Trim } else { Overclaim::Refuse },
    );
    c.set_basic_ca(Some(true));
    c.set_ca_repository(Some(rsync("rsync://example.com/repo/")));
    c.set_rpki_manifest(Some(rsync("rsync://example.com/repo/ca.mft")));
    c.set_rpki_notify(Some(uri::Https::from_str("https://example.com/rrdp/notification.xml").expect("https")));
    c.build_v4_resource_blocks(|b| b.push(Prefix::new(0, 0)));
    c.build_v6_resource_blocks(|b| b.push(Prefix::new(0, 0)));
    c.build_as_resource_blocks(|b| b.push((Asn::MIN, Asn::MAX)));
    c.into_cert(signer, &k).expect("sign ta")
}

/// Pool key all protocol messages of the harness are issued under.
const MSG_KEY: usize = 7;

fn build_seeds() -> Seeds {
    let created = Time::now();
    walk::trust(vec![(keys::pool().infos[MSG_KEY].clone(), created)]);
    let signer = PoolSigner::with_first(1, 0xC04);
    let k0 = signer.key(0);
    let mut all: Vec<Seed> = Vec::new();
    let mut add = |entry: u8, name: &str, der: Vec<u8>, valid: bool, strict_ok: bool| {
        all.push(Seed { name: name.to_string(), entry, der, tal_head: None, valid, strict_ok });
    };
    let file = |x: (&[u8], &str)| -> (Vec<u8>, String) { (x.0.to_vec(), x.1.to_string()) };

    // --- Cert
    for f in [td!("repository/ta.cer"), td!("repository/ca1.cer"), td!("repository/router.cer")] {
        let (d, n) = file(f);
        add(walk::CERT, &n, d, true, true);
    }
    add(walk::CERT, "built-ta", ta_cert(&signer, 0, false).to_captured().into_bytes().to_vec(), true, true);
    add(walk::CERT, "built-ta-trim", ta_cert(&signer, 2, true).to_captured().into_bytes().to_vec(), true, true);
    {
        // CA certificate with ranges, several blocks and inherited IPv6
        let pk = signer.info(3);
        let mut c = TbsCert::new(
            Serial::from(0x1234_5678_9abc_def0u64),
            signer.info(0).to_subject_name(),
            Validity::new(t0(), t1()),
            None,
            pk,
            KeyUsage::Ca,
            Overclaim::Refuse,
        );
        c.set_basic_ca(Some(true));
        c.set_authority_key_identifier(Some(signer.info(0).key_identifier()));
        c.set_crl_uri(Some(rsync("rsync://example.com/repo/ca.crl")));
        c.set_ca_issuer(Some(rsync("rsync://example.com/repo/ca.cer")));
        c.set_ca_repository(Some(rsync("rsync://example.com/repo/sub/")));
        c.set_rpki_manifest(Some(rsync("rsync://example.com/repo/sub/sub.mft")));
        c.build_v4_resource_blocks(|b| {
            b.push(Prefix::new(Ipv4Addr::new(10, 0, 0, 0), 8));
            b.push(AddressRange::new(Addr::from(Ipv4Addr::new(192, 0, 2, 1)), Addr::from(Ipv4Addr::new(192, 0, 2, 77)).to_max(32)));
            b.push(Prefix::new(Ipv4Addr::new(198, 51, 100, 0), 24));
        });
        c.set_v6_resources_inherit();
        c.build_as_resource_blocks(|b| {
            b.push(Asn::from_u32(64496));
            b.push((Asn::from_u32(64500), Asn::from_u32(64510)));
            b.push((Asn::from_u32(4200000000), Asn::from_u32(4294967294)));
        });
        add(walk::CERT, "built-ca-ranges", c.into_cert(&signer, &k0).expect("sign").to_captured().into_bytes().to_vec(), true, true);
    }
    {
        // router certificate on a P-256 key
        let mut c = TbsCert::new(
            Serial::from(42u64),
            signer.info(0).to_subject_name(),
            Validity::new(t0(), t1()),
            None,
            keys::ec_key(0),
            KeyUsage::Ee,
            Overclaim::Refuse,
        );
        c.set_authority_key_identifier(Some(signer.info(0).key_identifier()));
        c.set_ca_issuer(Some(rsync("rsync://example.com/repo/ca.cer")));
        c.set_crl_uri(Some(rsync("rsync://example.com/repo/ca.crl")));
        c.set_extended_key_usage(Some(ExtendedKeyUsage::create_router()));
        c.build_as_resource_blocks(|b| {
            b.push(Asn::from_u32(12));
            b.push(Asn::from_u32(4294967295));
        });
        add(walk::CERT, "built-router", c.into_cert(&signer, &k0).expect("sign").to_captured().into_bytes().to_vec(), true, true);
    }
    add(walk::CERT, "compat/res_incorrect.cer", td!("compat/res_incorrect.cer").0.to_vec(), false, false);

    // --- Crl
    for f in [td!("repository/ta.crl"), td!("repository/ca1.crl")] {
        let (d, n) = file(f);
        add(walk::CRL, &n, d, true, true);
    }
    for (name, n) in [("built-crl-empty", 0u64), ("built-crl-3", 3), ("built-crl-40", 40)] {
        let pk = signer.info(0);
        let entries: Vec<CrlEntry> = (0..n)
            .map(|i| CrlEntry::new(Serial::from(1 + i * i * 7919 + (i << 40)), Time::utc(2023, 1 + (i % 12) as u32, 1, 0, 0, 0)))
            .collect();
        let crl = TbsCertList::new(
            RpkiSignatureAlgorithm::default(),
            pk.to_subject_name(),
            t0(),
            t1(),
            entries,
            pk.key_identifier(),
            Serial::from(7u64 + n),
        )
        .into_crl(&signer, &k0)
        .expect("sign crl");
        add(walk::CRL, name, crl.to_captured().into_bytes().to_vec(), true, true);
    }

    // --- Manifest
    for f in [td!("repository/ta.mft"), td!("repository/ca1.mft")] {
        let (d, n) = file(f);
        add(walk::MANIFEST, &n, d, true, true);
    }
    for (name, n) in [("built-mft-0", 0usize), ("built-mft-2", 2), ("built-mft-30", 30)] {
        let files: Vec<FileAndHash<Vec<u8>, Vec<u8>>> = (0..n)
            .map(|i| {
                let ext = ["cer", "roa", "crl", "asa", "mft", "gbr"][i % 6];
                FileAndHash::new(format!("obj-{}_{}.{}", i, i * 31, ext).into_bytes(), keys::sha256(&[i as u8]).to_vec())
            })
            .collect();
        let m = ManifestContent::new(Serial::from(99u64 + n as u64), t0(), t1(), DigestAlgorithm::default(), files.iter())
            .into_manifest(sob(100 + n as u64), &signer, &k0)
            .expect("sign mft");
        add(walk::MANIFEST, name, m.to_captured().into_bytes().to_vec(), true, true);
        add(walk::MFT_CONTENT, &format!("content-of-{}", name), m.content().encode_ref().to_captured(Mode::Der).into_bytes().to_vec(), true, true);
    }
    add(walk::MANIFEST, "signature-alg-mismatch.mft", td!("repository/signature-alg-mismatch.mft").0.to_vec(), false, false);
    add(walk::MANIFEST, "ta.mft.bad-filename", td!("repository/ta.mft.bad-filename").0.to_vec(), false, false);

    // --- Roa
    add(walk::ROA, "repository/example-ripe.roa", td!("repository/example-ripe.roa").0.to_vec(), true, false);
    let ee_cert;
    {
        let mut r = RoaBuilder::new(Asn::from_u32(64496));
        r.push_v4_addr(Ipv4Addr::new(192, 0, 2, 0), 24, None);
        let roa = r.finalize(sob(201), &signer, &k0).expect("sign roa");
        ee_cert = roa.cert().to_captured().into_bytes().to_vec();
        add(walk::ROA, "built-roa-v4", roa.to_captured().into_bytes().to_vec(), true, true);
        let mut r = RoaBuilder::new(Asn::from_u32(4294967295));
        r.push_v4_addr(Ipv4Addr::new(10, 0, 0, 0), 8, Some(24));
        r.push_v4_addr(Ipv4Addr::new(0, 0, 0, 0), 0, Some(32));
        r.push_v4_addr(Ipv4Addr::new(203, 0, 113, 255), 32, Some(32));
        r.push_v6_addr(Ipv6Addr::from_str("2001:db8::").unwrap(), 32, Some(48));
        r.push_v6_addr(Ipv6Addr::from_str("::").unwrap(), 0, None);
        r.push_v6_addr(Ipv6Addr::from_str("2001:db8::1").unwrap(), 128, Some(128));
        let roa = r.finalize(sob(202), &signer, &k0).expect("sign roa");
        add(walk::ROA, "built-roa-v4v6", roa.to_captured().into_bytes().to_vec(), true, true);
        let mut r = RoaBuilder::new(Asn::from_u32(0));
        for i in 0..40u8 {
            r.push_v6_addr(Ipv6Addr::new(0x2001, 0xdb8, i as u16, 0, 0, 0, 0, 0), 48, Some(48 + i % 17));
        }
        let roa = r.finalize(sob(203), &signer, &k0).expect("sign roa");
        add(walk::ROA, "built-roa-v6-40", roa.to_captured().into_bytes().to_vec(), true, true);
    }
    add(walk::CERT, "ee-of-built-roa", ee_cert, true, true);
    for f in [td!("repository/maxlen-overflow.roa"), td!("repository/maxlen-underflow.roa"), td!("repository/prefix-len-overflow.roa")] {
        let (d, n) = file(f);
        add(walk::ROA, &n, d, false, false);
    }

    // --- Aspa
    add(walk::ASPA, "repository/aspa-bm.asa", td!("repository/aspa-bm.asa").0.to_vec(), false, false); // older profile draft
    for (name, cust, provs) in [
        ("built-aspa-1", 64496u32, vec![64497u32]),
        ("built-aspa-5", 4294967295, vec![0, 1, 65536, 4200000000, 4294967294]),
        ("built-aspa-60", 65000, (0..60).map(|i| 100 + i * 1000).collect()),
    ] {
        let a = AspaBuilder::new(Asn::from_u32(cust), provs.into_iter().map(Asn::from_u32).collect::<Vec<_>>())
            .expect("aspa builder")
            .finalize(sob(300 + cust as u64 % 7), &signer, &k0)
            .expect("sign aspa");
        add(walk::ASPA, name, a.to_captured().into_bytes().to_vec(), true, true);
    }

    // --- Rta
    for (name, nkeys) in [("built-rta-1", 1usize), ("built-rta-2", 2), ("built-rta-as-only", 1), ("built-rta-crl", 1)] {
        let digest = DigestAlgorithm::default().digest(name.as_bytes());
        let mut ab = AttestationBuilder::new(DigestAlgorithm::default(), digest.into());
        for i in 0..nkeys {
            ab.push_key(signer.info(4 + i).key_identifier());
        }
        ab.push_as(AsBlock::from(Asn::from_u32(64496)));
        ab.push_as(AsBlock::from((Asn::from_u32(65000), Asn::from_u32(65010))));
        if name != "built-rta-as-only" {
            ab.push_v4(Prefix::new(Ipv4Addr::new(192, 0, 2, 0), 24));
            ab.push_v4(AddressRange::new(Addr::from(Ipv4Addr::new(10, 0, 0, 3)), Addr::from(Ipv4Addr::new(10, 0, 9, 0)).to_max(32)));
            ab.push_v6(Prefix::new(Ipv6Addr::from_str("2001:db8::").unwrap(), 32));
        }
        let mut rb = ab.into_rta_builder();
        for i in 0..nkeys {
            let mut c = TbsCert::new(
                Serial::from(500u64 + i as u64),
                signer.info(0).to_subject_name(),
                Validity::new(t0(), t1()),
                None,
                signer.info(4 + i),
                KeyUsage::Ee,
                Overclaim::Refuse,
            );
            c.set_authority_key_identifier(Some(signer.info(0).key_identifier()));
            c.set_crl_uri(Some(rsync("rsync://example.com/repo/ca.crl")));
            c.set_ca_issuer(Some(rsync("rsync://example.com/repo/ca.cer")));
            c.build_as_resource_blocks(|b| b.push((Asn::from_u32(64000), Asn::from_u32(66000))));
            c.build_v4_resource_blocks(|b| b.push(Prefix::new(0, 0)));
            c.build_v6_resource_blocks(|b| b.push(Prefix::new(0, 0)));
            rb.push_cert(c.into_cert(&signer, &k0).expect("sign ee"));
            rb.sign(&signer, &signer.key(4 + i), tsig()).expect("sign rta");
        }
        if name == "built-rta-crl" {
            // carries a revocation list (walked through RtaBuilder::from_rta)
            let pk = signer.info(0);
            let entries: Vec<CrlEntry> =
                (0..5u64).map(|i| CrlEntry::new(Serial::from(500 + i * 3), Time::utc(2023, 2, 1 + i as u32, 0, 0, 0))).collect();
            let crl = TbsCertList::new(
                RpkiSignatureAlgorithm::default(),
                pk.to_subject_name(),
                t0(),
                t1(),
                entries,
                pk.key_identifier(),
                Serial::from(3u64),
            )
            .into_crl(&signer, &k0)
            .expect("sign crl");
            rb.push_crl(crl);
        }
        let rta = rb.finalize();
        add(walk::RTA, name, rta.to_captured().into_bytes().to_vec(), true, true);
    }

    // --- SignedObject
    add(walk::SIGOBJ, "repository/ta.mft", td!("repository/ta.mft").0.to_vec(), true, true);
    add(walk::SIGOBJ, "repository/example-ripe.roa", td!("repository/example-ripe.roa").0.to_vec(), true, false);
    add(walk::SIGOBJ, "repository/ca1.mft", td!("repository/ca1.mft").0.to_vec(), true, false);
    add(walk::SIGOBJ, "repository/aspa-bm.asa", td!("repository/aspa-bm.asa").0.to_vec(), false, false);
    {
        let mut b = sob(600);
        b.set_v4_resources_inherit();
        b.set_as_resources_inherit();
        let so = b
            .finalize(Oid(Bytes::from_static(&[0x2a, 0x86, 0x48, 0x86, 0xf7, 0x0d, 0x01, 0x09, 0x10, 0x01, 0x23])), Bytes::from_static(b"\x30\x03\x02\x01\x05"), &signer, &k0)
            .expect("sign sigobj");
        let der = so.encode_ref().to_captured(Mode::Der).into_bytes().to_vec();
        add(walk::SIGOBJ, "built-sigobj-gbr-like", der, true, true);
    }

    // --- PublicKey
    add(walk::PUBKEY, "crypto/rsa-key.public.der", td!("crypto/rsa-key.public.der").0.to_vec(), true, true);
    add(walk::PUBKEY, "pool-rsa0", keys::pool().spki[0].clone(), true, true);
    add(walk::PUBKEY, "pool-ec0", keys::EC_SPKI[0].to_vec(), true, true);
    add(walk::PUBKEY, "pool-ec1", keys::EC_SPKI[1].to_vec(), true, true);

    // --- CSRs
    add(walk::CA_CSR, "ca/drl-csr.der", td!("ca/drl-csr.der").0.to_vec(), true, true);
    {
        let c = Csr::construct_rpki_ca(
            &signer,
            &signer.key(5),
            &rsync("rsync://example.com/repo/child/"),
            &rsync("rsync://example.com/repo/child/child.mft"),
            Some(&uri::Https::from_str("https://example.com/rrdp/notification.xml").unwrap()),
        )
        .expect("csr");
        add(walk::CA_CSR, "built-csr-notify", c.into_bytes().to_vec(), true, true);
        let c = Csr::construct_rpki_ca(
            &signer,
            &signer.key(6),
            &rsync("rsync://example.com/repo/child2/"),
            &rsync("rsync://example.com/repo/child2/c.mft"),
            None,
        )
        .expect("csr");
        add(walk::CA_CSR, "built-csr-plain", c.into_bytes().to_vec(), true, true);
    }
    {
        let base = td!("ca/router-csr.der").0.to_vec();
        add(walk::BGPSEC_CSR, "ca/router-csr.der", base.clone(), true, true);
        // same request around the two pool P-256 keys (signatures are not
        // checked by the decoder)
        for (i, name) in ["router-csr-ec0", "router-csr-ec1"].iter().enumerate() {
            let mut d = base.clone();
            let nodes = tlv::scan(&d);
            // SubjectPublicKeyInfo: the SEQUENCE at depth 2 that starts with a SEQUENCE holding an OID
            if let Some((idx, n)) = nodes.iter().enumerate().find(|(i, n)| {
                n.depth == 2 && n.tag == 0x30 && nodes.get(i + 1).map(|c| c.tag == 0x30).unwrap_or(false) && nodes.get(i + 2).map(|c| c.tag == 0x06).unwrap_or(false)
            }) {
                let n = *n;
                let _ = idx;
                tlv::splice(&mut d, &nodes, n.parent, n.start, n.total(), keys::EC_SPKI[i], true);
            }
            add(walk::BGPSEC_CSR, name, d, true, true);
        }
    }

    // --- IdCert
    for f in [td!("ca/id_ta.cer"), td!("ca/id_afrinic.cer"), td!("ca/sigmsg/cms_ta.cer")] {
        let (d, n) = file(f);
        add(walk::IDCERT, &n, d, true, true);
    }
    {
        let c = IdCert::new_ta(Validity::new(t0(), t1()), &signer.key(MSG_KEY), &signer).expect("idcert");
        add(walk::IDCERT, "built-id-ta", c.to_captured().into_bytes().to_vec(), true, true);
    }

    // --- SignedMessage / protocol CMS
    for f in [
        td!("ca/sigmsg/pdu_200.der"),
        td!("ca/rfc6492/list.der"),
        td!("ca/rfc6492/issue.der"),
        td!("ca/rfc6492/issue-response.der"),
        td!("ca/rfc6492/apnic-testbed-response.der"),
    ] {
        let (d, n) = file(f);
        add(walk::SIGMSG, &n, d, true, false);
    }
    for f in [
        td!("ca/rfc6492/list.der"),
        td!("ca/rfc6492/issue.der"),
        td!("ca/rfc6492/issue-response.der"),
        td!("ca/rfc6492/afrinic-response.der"),
        td!("ca/rfc6492/apnic-response.der"),
        td!("ca/rfc6492/apnic-testbed-response.der"),
    ] {
        let (d, n) = file(f);
        add(walk::PROV_CMS, &n, d, true, true);
    }
    {
        // library-created messages: signing time and CRL number come from the
        // wall clock (fixed-width fields, see DESIGN "Determinism")
        let msg = provisioning::Message::list(SenderHandle::new("child".into()), RecipientHandle::new("parent".into()));
        let cms = ProvisioningCms::create(msg, &signer.key(MSG_KEY), &signer).expect("prov cms");
        add(walk::PROV_CMS, "built-prov-list", cms.to_bytes().to_vec(), true, true);
        add(walk::SIGMSG, "built-prov-list", cms.to_bytes().to_vec(), true, true);
    }
    add(walk::PUB_CMS, "ca/sigmsg/pdu_200.der", td!("ca/sigmsg/pdu_200.der").0.to_vec(), false, false); // CMS is fine, payload is not RFC 8181
    {
        let cms = PublicationCms::create(publication::Message::list_query(), &signer.key(MSG_KEY), &signer).expect("pub cms");
        add(walk::PUB_CMS, "built-pub-list", cms.to_bytes().to_vec(), true, true);
        let mut delta = publication::PublishDelta::empty();
        delta.add_publish(publication::Publish::new(
            Some("tag1".into()),
            rsync("rsync://example.com/repo/a.cer"),
            publication::Base64::from_content(td!("repository/ta.cer").0),
        ));
        delta.add_withdraw(publication::Withdraw::new(
            None,
            rsync("rsync://example.com/repo/b.roa"),
            publication::Base64::from_content(b"old").to_hash(),
        ));
        let cms = PublicationCms::create(publication::Message::delta(delta), &signer.key(MSG_KEY), &signer).expect("pub cms");
        add(walk::PUB_CMS, "built-pub-delta", cms.to_bytes().to_vec(), true, true);
        let cms = PublicationCms::create(publication::Message::success(), &signer.key(MSG_KEY), &signer).expect("pub cms");
        add(walk::PUB_CMS, "built-pub-success", cms.to_bytes().to_vec(), true, true);
        add(walk::SIGMSG, "built-pub-success", cms.to_bytes().to_vec(), true, true);
    }
    // large BER sample: replayed unmutated (and in `prefixes`), not mutated
    add(walk::SIGMSG, "ca/rfc6492/list-response.ber", td!("ca/rfc6492/list-response.ber").0.to_vec(), true, false);

    // --- Tal
    {
        let text = td!("repository/ripe.tal").0;
        let split = text.windows(2).position(|w| w == b"\n\n").map(|p| p + 2).expect("ripe.tal has a blank line");
        all.push(Seed {
            name: "repository/ripe.tal".into(),
            entry: walk::TAL,
            der: unb64(&text[split..]),
            tal_head: Some(text[..split].to_vec()),
            valid: true,
            strict_ok: true,
        });
        all.push(Seed {
            name: "built-tal-https".into(),
            entry: walk::TAL,
            der: keys::pool().spki[1].clone(),
            tal_head: Some(b"# comment line\n# another\nhttps://example.com/ta/ta.cer\nrsync://example.com/ta/ta.cer\n\n".to_vec()),
            valid: true,
            strict_ok: true,
        });
        all.push(Seed {
            name: "built-tal-crlf".into(),
            entry: walk::TAL,
            der: keys::pool().spki[2].clone(),
            tal_head: Some(b"rsync://example.com/ta/ta.cer\r\n\r\n".to_vec()),
            valid: true,
            strict_ok: true,
        });
    }

    let mut per_entry = vec![Vec::new(); walk::N_ENTRIES as usize];
    for (i, s) in all.iter().enumerate() {
        per_entry[s.entry as usize].push(i);
    }
    if let Ok(dir) = std::env::var("VERIF_C04_DUMP_SEEDS") {
        // corpus export for the fuzz target (selector octet + input)
        let _ = std::fs::create_dir_all(&dir);
        for s in all.iter().filter(|s| s.valid && s.der.len() <= 16 * 1024) {
            let mut f = vec![walk::selector(s.entry, false)];
            f.extend(assemble(s, s.der.clone(), &[]));
            let name: String = s.name.chars().map(|c| if c.is_ascii_alphanumeric() || c == '.' || c == '-' { c } else { '_' }).collect();
            let _ = std::fs::write(format!("{}/{}-{}", dir, walk::ENTRIES[s.entry as usize].0, name), f);
        }
    }
    Seeds { created, all, per_entry }
}

pub fn seeds() -> &'static Seeds {
    static S: OnceLock<Seeds> = OnceLock::new();
    S.get_or_init(build_seeds)
}

/// Seeds above this size are replayed but not mutated.
const MUTATE_MAX_SEED: usize = 16 * 1024;
/// Cap on mutated inputs.
const MAX_INPUT: usize = 192 * 1024;

/// Final input bytes of a (possibly mutated) seed; `text_ops` are raw edits of
/// the TAL text.
fn assemble(seed: &Seed, der: Vec<u8>, text_ops: &[tlv::Op]) -> Vec<u8> {
    match &seed.tal_head {
        None => der,
        Some(head) => {
            let mut out = head.clone();
            out.extend(b64(&der));
            for op in text_ops {
                tlv::raw(&mut out, *op);
            }
            out
        }
    }
}

//------------ cases ----------------------------------------------------------------

#[derive(Clone, Copy, Debug, Serialize, Deserialize, PartialEq)]
pub struct MOp {
    pub kind: u8,
    pub sel: u16,
    pub a: u32,
    pub b: u32,
}

impl MOp {
    fn op(self) -> tlv::Op {
        tlv::Op { kind: self.kind, sel: self.sel, a: self.a, b: self.b }
    }
}

#[derive(Clone, Debug, Serialize, Deserialize)]
pub struct Case {
    pub entry: u8,
    pub strict: bool,
    /// raw seed selector, mapped monotonically onto the entry point's seeds
    pub seed: u16,
    pub ops: Vec<MOp>,
    /// regress files name the seed instead, so that they survive additions
    /// to the seed list
    #[serde(default, skip_serializing_if = "Option::is_none")]
    pub seed_name: Option<String>,
}

fn mutable_seeds(entry: u8) -> Vec<usize> {
    let s = seeds();
    s.per_entry[entry as usize].iter().copied().filter(|&i| s.all[i].der.len() <= MUTATE_MAX_SEED).collect()
}

fn mutated_bytes(c: &Case) -> (Vec<u8>, usize) {
    let s = seeds();
    let entry = c.entry % walk::N_ENTRIES;
    let list = mutable_seeds(entry);
    let idx = c
        .seed_name
        .as_ref()
        .and_then(|n| list.iter().copied().find(|&i| &s.all[i].name == n))
        .unwrap_or_else(|| list[pick_idx(c.seed, list.len())]);
    let seed = &s.all[idx];
    let mut der = seed.der.clone();
    let donors: Vec<usize> = (0..s.all.len()).filter(|&i| s.all[i].der.len() <= MUTATE_MAX_SEED).collect();
    let donor = |a: u32| -> Vec<u8> { s.all[donors[a as usize % donors.len()]].der.clone() };
    let mut text_ops = Vec::new();
    for m in &c.ops {
        if seed.tal_head.is_some() && m.kind % tlv::N_KINDS == 10 {
            text_ops.push(m.op());
        } else {
            tlv::apply(&mut der, m.op(), &donor, MAX_INPUT);
        }
    }
    (assemble(seed, der, &text_ops), idx)
}

fn op_strategy() -> BoxedStrategy<MOp> {
    let kind = prop_oneof![
        8 => Just(0u8),  // value byte
        6 => Just(1u8),  // tag
        8 => Just(2u8),  // length
        6 => Just(3u8),  // truncate
        5 => Just(4u8),  // delete
        5 => Just(5u8),  // duplicate
        6 => Just(6u8),  // splice
        4 => Just(7u8),  // nest
        8 => Just(8u8),  // edge value
        5 => Just(9u8),  // swap
        3 => Just(10u8), // raw
        6 => Just(11u8), // make range
        5 => Just(12u8), // strings
        5 => Just(13u8), // AS edge
        3 => Just(tlv::BIT_UNUSED),
        5 => Just(tlv::PAD_TO),
    ];
    let small = || prop_oneof![3 => 0u32..64, 1 => any::<u32>()];
    // `segment` spends 12 bits per parameter (segment count + first split point; length delta + form)
    let wide = || prop_oneof![7 => 0u32..4096, 1 => any::<u32>()];
    prop_oneof![
        88 => (kind, any::<u16>(), small(), small()).prop_map(|(kind, sel, a, b)| MOp { kind, sel, a, b }),
        7 => (any::<u16>(), wide(), wide()).prop_map(|(sel, a, b)| MOp { kind: tlv::SEGMENT, sel, a, b }),
    ]
    .boxed()
}

fn mutate_strategy(_: Tier) -> BoxedStrategy<Case> {
    // 1-6 operators, fewer more often (keeps a useful share of inputs decodable)
    let count = prop_oneof![7 => Just(1usize), 5 => Just(2usize), 3 => Just(3usize), 2 => Just(4usize), 2 => Just(5usize), 1 => Just(6usize)];
    (0..walk::N_ENTRIES, any::<bool>(), any::<u16>(), count, prop::collection::vec(op_strategy(), 6))
        .prop_map(|(entry, strict, seed, n, mut ops)| {
            ops.truncate(n);
            Case { entry, strict: strict && walk::ENTRIES[entry as usize].1, seed, ops, seed_name: None }
        })
        .boxed()
}

//------------ oracle ----------------------------------------------------------------

/// Signature that does not depend on line numbers or the checkout directory:
/// `panic:<file name>:<first words of the message>`.
fn stable_sig(f: Fail) -> Fail {
    // engine message: "<what>: panic at <crate>/src/<path>:<line>: <msg>"
    let Some(rest) = f.msg.split(": panic at ").nth(1) else { return f };
    let (loc, msg) = rest.split_once(": ").unwrap_or((rest, ""));
    let file = loc.rsplit('/').next().unwrap_or(loc);
    let file = file.split(':').next().unwrap_or(file);
    let mut m: String = msg.chars().take_while(|c| *c != '\n').take(60).collect();
    // drop embedded values ("index 5 out of range for slice of length 3")
    m = m.chars().map(|c| if c.is_ascii_digit() { '#' } else { c }).collect();
    Fail::sig(format!("panic:{}:{}", file, m.trim()), f.msg)
}

static ENTRY_LABELS: [&str; walk::N_ENTRIES as usize] = [
    "ep:cert", "ep:crl", "ep:manifest", "ep:roa", "ep:aspa", "ep:rta", "ep:sigobj", "ep:tal", "ep:pubkey", "ep:ca-csr",
    "ep:bgpsec-csr", "ep:idcert", "ep:sigmsg", "ep:prov-cms", "ep:pub-cms", "ep:manifest-content",
];

fn hex(b: &[u8]) -> String {
    let mut s = String::with_capacity(b.len() * 2);
    for x in b.iter().take(400) {
        s.push_str(&format!("{:02x}", x));
    }
    if b.len() > 400 {
        s.push_str("...");
    }
    s
}

/// Calibration knob: `VERIF_C04_ALLOC_DIV=8` divides the allocation bounds by 8.
fn alloc_div() -> u64 {
    static D: OnceLock<u64> = OnceLock::new();
    *D.get_or_init(|| std::env::var("VERIF_C04_ALLOC_DIV").ok().and_then(|s| s.parse().ok()).unwrap_or(1))
}

/// `VERIF_C04_DUMP_INPUT=<dir>`: every decided input is also written there in
/// the fuzz target's format (selector octet + input). Meant for `--replay`, to
/// turn a regress case into a file for /verif/regress/fuzz-der_decoders/.
fn dump_dir() -> &'static Option<String> {
    static D: OnceLock<Option<String>> = OnceLock::new();
    D.get_or_init(|| std::env::var("VERIF_C04_DUMP_INPUT").ok())
}

/// Decides one input. Returns the walk outcome.
fn decide(entry: u8, strict: bool, data: &[u8], obs: &mut Obs) -> Result<walk::Outcome, Fail> {
    let _ = walk::fixed();
    if let Some(dir) = dump_dir() {
        let mut f = vec![walk::selector(entry, strict)];
        f.extend_from_slice(data);
        let h = keys::sha256(&f);
        let _ = std::fs::create_dir_all(dir);
        let _ = std::fs::write(format!("{}/{}-{:02x}{:02x}{:02x}{:02x}", dir, walk::ENTRIES[entry as usize % walk::ENTRIES.len()].0, h[0], h[1], h[2], h[3]), f);
    }
    let (res, stats) = walk::measure(|| no_panic("decode+walk", || walk::decode_and_walk(entry, strict, data)));
    let out = match res {
        Ok(o) => o,
        Err(f) => {
            let mut f = stable_sig(f);
            f.msg = format!(
                "entry point {} (strict={}) on {} octets [{}]: {}",
                walk::ENTRIES[entry as usize % walk::ENTRIES.len()].0, strict, data.len(), hex(data), f.msg
            );
            return Err(f);
        }
    };
    if stats.active {
        obs.label("alloc-measured");
        if let Err(which) = walk::within_bounds(data.len(), &stats, alloc_div()) {
            return Err(Fail::sig(
                which,
                format!(
                    "entry point {} on {} octets: {} allocation calls, peak {} live bytes exceed the bound (64*len + 4096 calls, 64*len + 1 MiB) [{}]",
                    walk::ENTRIES[entry as usize].0, data.len(), stats.calls, stats.peak, hex(data)
                ),
            ));
        }
    }
    obs.label(ENTRY_LABELS[entry as usize % ENTRY_LABELS.len()]);
    let deep = out.err_pos.zip(tlv::third_header_end(data)).map(|(p, t)| p >= t).unwrap_or(false);
    let typed = out.ok || out.stage1 || deep;
    obs.label_if(out.ok, "ok");
    obs.label_if(typed, "typed");
    obs.label_if(!typed, "wrapper-reject");
    obs.nontrivial_if(typed);
    Ok(out)
}

fn run_mutate(c: &Case, obs: &mut Obs) -> CheckResult {
    let entry = c.entry % walk::N_ENTRIES;
    let (data, idx) = mutated_bytes(c);
    if let Some(m) = c.ops.first() {
        obs.label(tlv::KIND_NAMES[(m.kind % tlv::N_KINDS) as usize]);
    }
    obs.label_if(c.strict, "strict");
    // BER-only encodings matter where the decoder runs in BER mode: the
    // relaxed mode of the switchable entry points and the two protocol
    // message types (always relaxed)
    let relaxed = (walk::ENTRIES[entry as usize].1 && !c.strict) || matches!(entry, walk::PROV_CMS | walk::PUB_CMS);
    if relaxed && seeds().all[idx].tal_head.is_none() {
        let has = |k: u8| c.ops.iter().any(|m| m.kind % tlv::N_KINDS == k);
        obs.label_if(has(tlv::SEGMENT), "relaxed+segment");
        obs.label_if(has(tlv::PAD_TO), "relaxed+pad-to");
    }
    decide(entry, c.strict, &data, obs).map(|_| ()).map_err(|mut f| {
        f.msg = format!("seed '{}' + {} mutation(s): {}", seeds().all[idx].name, c.ops.len(), f.msg);
        f
    })
}

//------------ seeds sub-check -------------------------------------------------------

#[derive(Clone, Debug, Serialize, Deserialize)]
pub struct SeedCase {
    pub idx: usize,
    pub strict: bool,
}

fn seed_count(_: Tier, _: u64) -> u64 {
    seeds().all.len() as u64 * 2
}
fn seed_make(_: Tier, _: u64, i: u64) -> SeedCase {
    SeedCase { idx: (i / 2) as usize, strict: i % 2 == 1 }
}

fn run_seed(c: &SeedCase, obs: &mut Obs) -> CheckResult {
    let s = seeds();
    let Some(seed) = s.all.get(c.idx) else { return Err(Fail::new("seed index out of range")) };
    let has_switch = walk::ENTRIES[seed.entry as usize].1;
    if c.strict && !has_switch {
        return Ok(());
    }
    let data = assemble(seed, seed.der.clone(), &[]);
    let out = decide(seed.entry, c.strict, &data, obs)?;
    // strict mode: several test-data objects are BER, so only the relaxed /
    // only mode is asserted; strict acceptance is merely recorded
    if seed.valid && !c.strict {
        obs.label("valid-seed");
        ensure_sig!(out.ok, "seed-rejected", "harness seed '{}' (entry point {}) does not decode",
            seed.name, walk::ENTRIES[seed.entry as usize].0);
        ensure!(out.steps > 5, "walk of seed '{}' touched only {} accessors", seed.name, out.steps);
        let n_valid = s.per_entry[seed.entry as usize].iter().filter(|&&i| s.all[i].valid).count();
        ensure!(n_valid >= 3, "entry point {} has only {} valid seeds", walk::ENTRIES[seed.entry as usize].0, n_valid);
    }
    obs.label_if(c.strict && out.ok, "strict-accepted");
    Ok(())
}

//------------ prefixes sub-check ----------------------------------------------------

#[derive(Clone, Debug, Serialize, Deserialize)]
pub struct PrefixCase {
    pub idx: usize,
    pub strict: bool,
    pub start: usize,
    pub len: usize,
    pub step: usize,
}

const PREFIX_CHUNK: usize = 128;

fn prefix_rows() -> &'static Vec<PrefixCase> {
    static R: OnceLock<Vec<PrefixCase>> = OnceLock::new();
    R.get_or_init(|| {
        let s = seeds();
        let mut rows = Vec::new();
        for (idx, seed) in s.all.iter().enumerate() {
            if !seed.valid {
                continue;
            }
            let n = assemble(seed, seed.der.clone(), &[]).len();
            let step = if n > MUTATE_MAX_SEED { 61 } else { 1 };
            let modes: &[bool] = if walk::ENTRIES[seed.entry as usize].1 { &[false, true] } else { &[false] };
            for &strict in modes {
                let mut start = 0;
                while start < n {
                    let len = (PREFIX_CHUNK * step).min(n - start);
                    rows.push(PrefixCase { idx, strict, start, len, step });
                    start += len;
                }
            }
        }
        rows
    })
}

fn prefix_count(_: Tier, _: u64) -> u64 {
    prefix_rows().len() as u64
}
fn prefix_make(_: Tier, _: u64, i: u64) -> PrefixCase {
    prefix_rows()[i as usize].clone()
}

fn run_prefix(c: &PrefixCase, obs: &mut Obs) -> CheckResult {
    let s = seeds();
    let Some(seed) = s.all.get(c.idx) else { return Err(Fail::new("seed index out of range")) };
    let data = assemble(seed, seed.der.clone(), &[]);
    let mut evals = 0u64;
    let mut nt = 0u64;
    let mut cut = c.start;
    while cut < (c.start + c.len).min(data.len()) {
        let mut o = Obs::default();
        match decide(seed.entry, c.strict, &data[..cut], &mut o) {
            Ok(_) => {}
            Err(f) => {
                return Err(f.with_case(json!({"idx": c.idx, "strict": c.strict, "start": cut, "len": 1, "step": 1})));
            }
        }
        evals += 1;
        if o.nontrivial {
            nt += 1;
        }
        cut += c.step.max(1);
    }
    obs.evals(evals.saturating_sub(1));
    obs.bulk_nontrivial = nt;
    obs.label(ENTRY_LABELS[seed.entry as usize]);
    Ok(())
}

//------------ random bytes ----------------------------------------------------------

#[derive(Clone, Debug, Serialize, Deserialize)]
pub struct RandCase {
    pub entry: u8,
    pub strict: bool,
    pub seed: u16,
    /// number of leading seed octets kept in front of the random bytes
    pub keep: u16,
    pub bytes: Vec<u8>,
}

fn random_strategy(_: Tier) -> BoxedStrategy<RandCase> {
    let bytes = prop_oneof![
        4 => prop::collection::vec(any::<u8>(), 0..64),
        2 => prop::collection::vec(any::<u8>(), 0..600),
        1 => prop::collection::vec(prop::sample::select(vec![0x30u8, 0x31, 0x02, 0x03, 0x04, 0x06, 0x80, 0x81, 0x82, 0x84, 0xa0, 0x00, 0x01, 0xff]), 0..200),
    ];
    let keep = prop_oneof![2 => Just(0u16), 1 => 0u16..48, 1 => 0u16..2000];
    (0..walk::N_ENTRIES, any::<bool>(), any::<u16>(), keep, bytes)
        .prop_map(|(entry, strict, seed, keep, bytes)| RandCase {
            entry,
            strict: strict && walk::ENTRIES[entry as usize].1,
            seed: if keep == 0 { 0 } else { seed },
            keep,
            bytes,
        })
        .boxed()
}

fn run_random(c: &RandCase, obs: &mut Obs) -> CheckResult {
    let entry = c.entry % walk::N_ENTRIES;
    let mut data = Vec::new();
    if c.keep > 0 {
        let s = seeds();
        let list = mutable_seeds(entry);
        let seed = &s.all[list[pick_idx(c.seed, list.len())]];
        let full = assemble(seed, seed.der.clone(), &[]);
        data.extend_from_slice(&full[..(c.keep as usize).min(full.len())]);
        obs.label("seed-prefix");
    } else {
        obs.label("pure-random");
    }
    data.extend_from_slice(&c.bytes);
    decide(entry, c.strict, &data, obs).map(|_| ())
}

//------------ re-signed protocol CRLs ------------------------------------------------

/// A library-created protocol message whose embedded CRL is edited (entries
/// added, then TLV mutations inside the TBSCertList) and signed again with
/// the issuing pool key, so that validation gets as far as the revocation
/// lookup.
#[derive(Clone, Debug, Serialize, Deserialize)]
pub struct ResignCase {
    /// false: provisioning message, true: publication message
    pub publication: bool,
    /// number of entries put on the revocation list
    pub entries: u8,
    /// mutations applied to the TBSCertList alone
    pub ops: Vec<MOp>,
}

fn resign_strategy(_: Tier) -> BoxedStrategy<ResignCase> {
    let op = (
        prop_oneof![6 => Just(2u8), 2 => Just(0u8), 2 => Just(8u8), 1 => Just(5u8), 1 => Just(12u8), 1 => Just(7u8), 1 => Just(9u8), 1 => Just(4u8)],
        any::<u16>(),
        prop_oneof![3 => 0u32..16, 1 => any::<u32>()],
        prop_oneof![3 => 0u32..64, 1 => any::<u32>()],
    )
        .prop_map(|(kind, sel, a, b)| MOp { kind, sel, a, b });
    (any::<bool>(), 0u8..6, prop::collection::vec(op, 0..=3))
        .prop_map(|(publication, entries, ops)| ResignCase { publication, entries, ops })
        .boxed()
}

fn resigned_bytes(c: &ResignCase) -> Result<Vec<u8>, Fail> {
    let s = seeds();
    let name = if c.publication { "built-pub-list" } else { "built-prov-list" };
    let entry = if c.publication { walk::PUB_CMS } else { walk::PROV_CMS };
    let seed = s.all.iter().find(|x| x.name == name && x.entry == entry).ok_or_else(|| Fail::new("message seed missing"))?;
    let mut msg = seed.der.clone();
    let nodes = tlv::scan(&msg);
    let bad = || Fail::new("unexpected layout of a library-created message");
    let crls = nodes.iter().position(|n| n.tag == 0xa1 && n.depth == 3).ok_or_else(bad)?;
    let list = *nodes.get(crls + 1).filter(|n| n.tag == 0x30 && n.depth == 4).ok_or_else(bad)?;
    let tbs_n = *nodes.get(crls + 2).filter(|n| n.tag == 0x30 && n.depth == 5).ok_or_else(bad)?;
    let alg_n = *nodes.iter().skip(crls + 3).find(|n| n.depth == 5 && n.parent == crls + 1).ok_or_else(bad)?;
    let mut tbs = msg[tbs_n.start..tbs_n.end()].to_vec();
    let alg = msg[alg_n.start..alg_n.end()].to_vec();
    // the revocation list: first SEQUENCE behind the two times
    {
        let tn = tlv::scan(&tbs);
        let times: Vec<usize> = tn.iter().enumerate().filter(|(_, n)| n.depth == 1 && matches!(n.tag, 0x17 | 0x18)).map(|(i, _)| i).collect();
        let last = *times.last().ok_or_else(bad)?;
        let rev = tn.iter().enumerate().skip(last + 1).find(|(_, n)| n.depth == 1).ok_or_else(bad)?;
        ensure!(rev.1.tag == 0x30, "no revocation list in the library-created CRL");
        let mut entries = Vec::new();
        for i in 0..c.entries as u64 {
            let e = CrlEntry::new(Serial::from(1000 + i * 77), Time::utc(2024, 1, 1 + i as u32, 0, 0, 0));
            entries.extend_from_slice(e.encode().to_captured(Mode::Der).as_slice());
        }
        let (idx, n) = (rev.0, *rev.1);
        tlv::splice(&mut tbs, &tn, idx, n.content(), 0, &entries, true);
    }
    let donor = |a: u32| -> Vec<u8> { s.all[a as usize % s.all.len()].der.clone() };
    for m in &c.ops {
        tlv::apply(&mut tbs, m.op(), &donor, 8192);
    }
    let sig = keys::raw_sign(MSG_KEY, &tbs);
    let mut body = tbs;
    body.extend_from_slice(&alg);
    let mut bits = vec![0u8];
    bits.extend_from_slice(&sig);
    body.extend(tlv::tlv(0x03, &bits));
    let new_list = tlv::tlv(0x30, &body);
    tlv::splice(&mut msg, &nodes, list.parent, list.start, list.total(), &new_list, true);
    Ok(msg)
}

fn run_resign(c: &ResignCase, obs: &mut Obs) -> CheckResult {
    let data = resigned_bytes(c)?;
    let entry = if c.publication { walk::PUB_CMS } else { walk::PROV_CMS };
    let out = decide(entry, false, &data, obs)?;
    obs.label_if(out.validated, "validated");
    obs.label_if(out.validated && c.entries > 0, "validated-nonempty");
    obs.label_if(c.ops.is_empty(), "unmutated");
    if c.ops.is_empty() {
        ensure_sig!(out.validated, "resign-self-check",
            "re-signed but otherwise unmutated message with {} CRL entries does not validate under the pool key", c.entries);
    }
    // non-trivial here: validation ran through the revocation lookup
    obs.nontrivial = out.validated;
    Ok(())
}

//------------ property --------------------------------------------------------------

pub fn property() -> Property {
    Property {
        id: "C04",
        rule: RULE,
        assumptions: vec![
            "panics are observed through unwinding inside the vcheck process (16 threads with 64 MiB stacks); an abort or a stack overflow would end the process and be reported by ./check as inconclusive, not as a violation",
            "the memory / time clause is decided through the deterministic proxy of a counting allocator (calls and peak live bytes per decode + walk) and only when it is installed as the global allocator of the binary (class 'alloc-measured'); a CPU-only super-linear loop would not be seen",
            "objects created by SignedMessage::create carry the wall-clock signing time and CRL number (fixed-width fields); all other seeds are byte-identical between runs",
            "re-decoding of re-encoded values is exercised for panics only; equality of the round trip belongs to C05",
        ],
        subs: vec![
            EnumSub { name: "seeds", count: seed_count, make: seed_make, run: run_seed, exhaustive: true }.boxed(),
            EnumSub { name: "prefixes", count: prefix_count, make: prefix_make, run: run_prefix, exhaustive: true }.boxed(),
            PropSub {
                name: "mutate",
                strategy: mutate_strategy,
                cases: |t| t.pick(2_400_000, 16_000_000),
                run: run_mutate,
                floors: MUTATE_FLOORS,
            }
            .boxed(),
            PropSub {
                name: "resign",
                strategy: resign_strategy,
                cases: |t| t.pick(120_000, 800_000),
                run: run_resign,
                floors: &[("validated", 0.15), ("validated-nonempty", 0.10)],
            }
            .boxed(),
            PropSub {
                name: "random",
                strategy: random_strategy,
                cases: |t| t.pick(1_200_000, 20_000_000),
                run: run_random,
                floors: &[("pure-random", 0.2), ("seed-prefix", 0.2)],
            }
            .boxed(),
        ],
    }
}

const MUTATE_FLOORS: &[(&str, f64)] = &[
    ("ok", 0.05),
    ("typed", 0.15),
    // first operator of the case
    ("segment", 0.03),
    ("bit-unused", 0.012),
    ("pad-to", 0.02),
    // any operator of the case, decoder in BER mode
    ("relaxed+segment", 0.02),
    ("relaxed+pad-to", 0.015),
    ("ep:cert", 0.02),
    ("ep:crl", 0.02),
    ("ep:manifest", 0.02),
    ("ep:roa", 0.02),
    ("ep:aspa", 0.02),
    ("ep:rta", 0.02),
    ("ep:sigobj", 0.02),
    ("ep:tal", 0.02),
    ("ep:pubkey", 0.02),
    ("ep:ca-csr", 0.02),
    ("ep:bgpsec-csr", 0.02),
    ("ep:idcert", 0.02),
    ("ep:sigmsg", 0.02),
    ("ep:prov-cms", 0.02),
    ("ep:pub-cms", 0.02),
    ("ep:manifest-content", 0.02),
];
