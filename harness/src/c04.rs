//! C04 — stub (not built yet).

use crate::engine::*;

pub fn property() -> Property {
    Property { id: "C04", rule: "", assumptions: vec![], subs: vec![] }
}
