//! Deterministic signer over a fixed pool of committed RSA-2048 keys.
//!
//! Implements the crate's public `Signer` trait directly on aws-lc-rs so that
//! no key generation happens per case (RSA PKCS#1 v1.5 signatures are
//! deterministic, so every run is a function of the tree and the seed). Also
//! provides raw sign / verify helpers used by the independent CMS writer and
//! verifier.

use std::sync::atomic::{AtomicU64, AtomicUsize, Ordering};
use std::sync::OnceLock;

use aws_lc_rs::signature::{self, KeyPair as _};
use aws_lc_rs::{encoding, rand, rsa};
use rpki::crypto::signer::{KeyError, SigningAlgorithm, SigningError};
use rpki::crypto::{PublicKey, PublicKeyFormat, Signature, SignatureAlgorithm, Signer};

pub const POOL_SIZE: usize = 8;

static RSA_DER: [&[u8]; POOL_SIZE] = [
    include_bytes!("../../keys/rsa0.der"),
    include_bytes!("../../keys/rsa1.der"),
    include_bytes!("../../keys/rsa2.der"),
    include_bytes!("../../keys/rsa3.der"),
    include_bytes!("../../keys/rsa4.der"),
    include_bytes!("../../keys/rsa5.der"),
    include_bytes!("../../keys/rsa6.der"),
    include_bytes!("../../keys/rsa7.der"),
];

/// SubjectPublicKeyInfo of two P-256 keys (router keys).
pub static EC_SPKI: [&[u8]; 2] = [
    include_bytes!("../../keys/ec0.spki.der"),
    include_bytes!("../../keys/ec1.spki.der"),
];

pub struct Pool {
    pairs: Vec<rsa::KeyPair>,
    /// SubjectPublicKeyInfo DER of each key.
    pub spki: Vec<Vec<u8>>,
    pub infos: Vec<PublicKey>,
}

pub fn pool() -> &'static Pool {
    static POOL: OnceLock<Pool> = OnceLock::new();
    POOL.get_or_init(|| {
        let mut pairs = Vec::new();
        let mut spki = Vec::new();
        let mut infos = Vec::new();
        for der in RSA_DER.iter() {
            let kp = rsa::KeyPair::from_der(der).expect("pool key");
            let pk = encoding::AsDer::<encoding::PublicKeyX509Der>::as_der(kp.public_key())
                .expect("spki")
                .as_ref()
                .to_vec();
            infos.push(PublicKey::decode(pk.as_slice()).expect("pool public key decodes"));
            spki.push(pk);
            pairs.push(kp);
        }
        Pool { pairs, spki, infos }
    })
}

/// The public key of a P-256 router key.
pub fn ec_key(i: usize) -> PublicKey {
    PublicKey::decode(EC_SPKI[i % 2]).expect("ec spki decodes")
}

/// RSASSA-PKCS1-v1_5 with SHA-256 by pool key `idx` (aws-lc-rs directly).
pub fn raw_sign(idx: usize, data: &[u8]) -> Vec<u8> {
    let kp = &pool().pairs[idx % POOL_SIZE];
    let mut sig = vec![0u8; kp.public_modulus_len()];
    kp.sign(&signature::RSA_PKCS1_SHA256, &rand::SystemRandom::new(), data, &mut sig)
        .expect("rsa sign");
    sig
}

/// Verifies an RSA-SHA256 PKCS#1 v1.5 signature against pool key `idx`
/// without going through the library under test.
pub fn raw_verify(idx: usize, data: &[u8], sig: &[u8]) -> bool {
    raw_verify_spki(&pool().spki[idx % POOL_SIZE], data, sig)
}

/// Same, for an arbitrary RSA SubjectPublicKeyInfo.
pub fn raw_verify_spki(spki: &[u8], data: &[u8], sig: &[u8]) -> bool {
    // SPKI = SEQ { SEQ{alg}, BIT STRING { 00, RSAPublicKey } }: the
    // UnparsedPublicKey for RSA wants the inner RSAPublicKey.
    let Some(inner) = spki_rsa_key(spki) else { return false };
    signature::UnparsedPublicKey::new(&signature::RSA_PKCS1_2048_8192_SHA256, inner)
        .verify(data, sig)
        .is_ok()
}

fn der_tlv(buf: &[u8]) -> Option<(u8, &[u8], &[u8])> {
    let tag = *buf.first()?;
    let l0 = *buf.get(1)? as usize;
    let (len, hdr) = if l0 < 0x80 {
        (l0, 2)
    } else {
        let n = l0 & 0x7f;
        if n == 0 || n > 4 {
            return None;
        }
        let mut l = 0usize;
        for i in 0..n {
            l = (l << 8) | *buf.get(2 + i)? as usize;
        }
        (l, 2 + n)
    };
    let end = hdr.checked_add(len)?;
    if end > buf.len() {
        return None;
    }
    Some((tag, &buf[hdr..end], &buf[end..]))
}

fn spki_rsa_key(spki: &[u8]) -> Option<&[u8]> {
    let (t, body, _) = der_tlv(spki)?;
    if t != 0x30 {
        return None;
    }
    let (_, _, rest) = der_tlv(body)?;
    let (t, bits, _) = der_tlv(rest)?;
    if t != 0x03 || bits.first() != Some(&0) {
        return None;
    }
    Some(&bits[1..])
}

/// SHA-1 of the subjectPublicKey BIT STRING content (the RFC 5280 method 1
/// key identifier), computed without the library.
pub fn key_id_of_spki(spki: &[u8]) -> Option<[u8; 20]> {
    let inner = spki_rsa_key(spki).or_else(|| {
        let (_, body, _) = der_tlv(spki)?;
        let (_, _, rest) = der_tlv(body)?;
        let (t, bits, _) = der_tlv(rest)?;
        if t != 0x03 { return None; }
        Some(&bits[1..])
    })?;
    let d = aws_lc_rs::digest::digest(&aws_lc_rs::digest::SHA1_FOR_LEGACY_USE_ONLY, inner);
    let mut out = [0u8; 20];
    out.copy_from_slice(d.as_ref());
    Some(out)
}

pub fn sha256(data: &[u8]) -> [u8; 32] {
    let d = aws_lc_rs::digest::digest(&aws_lc_rs::digest::SHA256, data);
    let mut out = [0u8; 32];
    out.copy_from_slice(d.as_ref());
    out
}

//------------ PoolSigner ------------------------------------------------------

/// `Signer` whose keys are indices into the pool. `create_key` and
/// `sign_one_off` hand out pool keys round-robin starting at `first`.
pub struct PoolSigner {
    next: AtomicUsize,
    rng: AtomicU64,
}

#[derive(Clone, Copy, Debug, PartialEq, Eq, Hash)]
pub struct PoolKey(pub usize);

#[derive(Debug)]
pub struct PoolError(pub &'static str);

impl std::fmt::Display for PoolError {
    fn fmt(&self, f: &mut std::fmt::Formatter) -> std::fmt::Result {
        f.write_str(self.0)
    }
}

impl PoolSigner {
    pub fn new() -> Self {
        Self::with_first(0, 0)
    }
    pub fn with_first(first: usize, rng_seed: u64) -> Self {
        PoolSigner { next: AtomicUsize::new(first), rng: AtomicU64::new(rng_seed) }
    }
    pub fn key(&self, idx: usize) -> PoolKey {
        PoolKey(idx % POOL_SIZE)
    }
    pub fn info(&self, idx: usize) -> PublicKey {
        pool().infos[idx % POOL_SIZE].clone()
    }
}

impl Default for PoolSigner {
    fn default() -> Self {
        Self::new()
    }
}

impl Signer for PoolSigner {
    type KeyId = PoolKey;
    type Error = PoolError;

    fn create_key(&self, algorithm: PublicKeyFormat) -> Result<PoolKey, PoolError> {
        if algorithm != PublicKeyFormat::Rsa {
            return Err(PoolError("pool has RSA keys only"));
        }
        Ok(PoolKey(self.next.fetch_add(1, Ordering::Relaxed) % POOL_SIZE))
    }

    fn get_key_info(&self, key: &PoolKey) -> Result<PublicKey, KeyError<PoolError>> {
        pool().infos.get(key.0).cloned().ok_or(KeyError::KeyNotFound)
    }

    fn destroy_key(&self, key: &PoolKey) -> Result<(), KeyError<PoolError>> {
        if key.0 < POOL_SIZE { Ok(()) } else { Err(KeyError::KeyNotFound) }
    }

    fn sign<Alg: SignatureAlgorithm, D: AsRef<[u8]> + ?Sized>(
        &self,
        key: &PoolKey,
        algorithm: Alg,
        data: &D,
    ) -> Result<Signature<Alg>, SigningError<PoolError>> {
        if key.0 >= POOL_SIZE {
            return Err(SigningError::KeyNotFound);
        }
        if !matches!(algorithm.signing_algorithm(), SigningAlgorithm::RsaSha256) {
            return Err(SigningError::IncompatibleKey);
        }
        Ok(Signature::new(algorithm, raw_sign(key.0, data.as_ref()).into()))
    }

    fn sign_one_off<Alg: SignatureAlgorithm, D: AsRef<[u8]> + ?Sized>(
        &self,
        algorithm: Alg,
        data: &D,
    ) -> Result<(Signature<Alg>, PublicKey), PoolError> {
        if !matches!(algorithm.signing_algorithm(), SigningAlgorithm::RsaSha256) {
            return Err(PoolError("pool has RSA keys only"));
        }
        let idx = self.next.fetch_add(1, Ordering::Relaxed) % POOL_SIZE;
        Ok((
            Signature::new(algorithm, raw_sign(idx, data.as_ref()).into()),
            pool().infos[idx].clone(),
        ))
    }

    fn rand(&self, target: &mut [u8]) -> Result<(), PoolError> {
        for b in target.iter_mut() {
            let mut x = self.rng.fetch_add(0x9E37_79B9_7F4A_7C15, Ordering::Relaxed);
            x = (x ^ (x >> 30)).wrapping_mul(0xBF58_476D_1CE4_E5B9);
            x = (x ^ (x >> 27)).wrapping_mul(0x94D0_49BB_1331_11EB);
            *b = (x ^ (x >> 31)) as u8;
        }
        Ok(())
    }
}
