//! C15 — SLURM: a payload is dropped exactly when some filter of its kind
//! matches; files survive JSON; assertions yield their payload.

use crate::engine::*;
use crate::gen::{dense_u128, dense_u32, pick_idx, U128};
use proptest::prelude::*;
use rpki::crypto::keys::KeyIdentifier;
use rpki::resources::addr::{MaxLenPrefix, Prefix};
use rpki::resources::asn::Asn;
use rpki::rtr::payload as rtr;
use rpki::rtr::pdu::{ProviderAsns, RouterKeyInfo};
use rpki::slurm::{
    AspaAssertion, AspaFilter, Base64KeyInfo, BgpsecAssertion, BgpsecFilter, LocallyAddedAssertions, PrefixAssertion,
    PrefixFilter, SlurmFile, ValidationOutputFilters,
};
use serde::{Deserialize, Serialize};
use std::net::{Ipv4Addr, Ipv6Addr};
use std::str::FromStr;

pub const RULE: &str = "drop-enum: complete enumeration of files holding 0, 1 or 2 prefix filters (prefix in {absent, \
covering by one bit, /0 of the family, equal, more specific, /0 of the other family, same bits in the other family, \
disjoint sibling} x asn in {absent, equal, different}), 0 or 1 BGPsec filter (ski x asn, each absent/equal/different), \
ASPA filters in {field absent, empty list, customer absent/equal/different}, against each of 9 payloads (IPv4 /16, /0, \
/32; IPv6 /32, /0, /128 origins, 2 router keys, 1 ASPA; all sharing one AS number so that filters of the wrong kind \
would match if consulted); oracle: dropped <=> a filter of the payload's kind has >=1 criterion and all its criteria \
match (covers = address-range inclusion on integers); also each filter's own drop_* methods. drop-random: random filter \
lists (0..6 per kind, aspa None/Some) over pools of related prefixes / AS numbers / key identifiers x 1..6 payloads, \
same oracle. json: random whole files (all optional fields, comments with JSON-special and arbitrary Unicode \
characters, key infos of every length mod 3, provider lists) -> to_string / to_string_pretty / to_writer / \
to_writer_pretty -> from_str / from_reader == original; iter_payload() yields, per kind and in order, exactly the \
payloads with the assertions' fields. non-trivial = >=2 filter kinds populated and a payload of a non-prefix kind \
(drop-*), file with >=2 assertion kinds and a comment (json). Every prefix of a filter, assertion or payload is also built through new_relaxed and from_str_relaxed (from an address with host bits set), from_str, Deserialize and the generic constructor; all must equal the strictly constructed one. drop-random aims origins at prefix filters at every pair of lengths (same bits, more specific by any number of bits, less specific, one of the filter's bits flipped) and lets filters carry a comment (not a criterion); router keys reach 1300 octets (dense at 250..262), provider sets the maximum of 16380; json also parses the file's JSON in a foreign spelling (members in another order, white space, \\uXXXX escapes; from_str and from_reader over a reader that hands the text out in pieces of 1..10000 octets): the same file and payload.";

//------------ plain data ------------------------------------------------------

#[derive(Clone, Copy, Debug, PartialEq, Eq, Serialize, Deserialize)]
pub struct Pfx {
    pub v6: bool,
    /// host bits zero; IPv4 in the low 32 bits
    pub addr: U128,
    pub len: u8,
}

impl Pfx {
    fn fam(self) -> u8 {
        if self.v6 { 128 } else { 32 }
    }
    fn host_mask(self) -> u128 {
        let h = (self.fam() - self.len) as u32;
        if h == 0 { 0 } else if h >= 128 { u128::MAX } else { (1u128 << h) - 1 }
    }
    fn new(v6: bool, addr: u128, len: u8) -> Pfx {
        let fam = if v6 { 128 } else { 32 };
        let len = len.min(fam);
        let addr = if v6 { addr } else { addr & 0xFFFF_FFFF };
        let mut p = Pfx { v6, addr: U128(addr), len };
        p.addr = U128(addr & !p.host_mask());
        p
    }
    fn min(self) -> u128 {
        self.addr.0
    }
    fn max(self) -> u128 {
        self.addr.0 | self.host_mask()
    }
    /// address-range inclusion
    fn covers(self, o: Pfx) -> bool {
        self.v6 == o.v6 && self.min() <= o.min() && o.max() <= self.max()
    }
    /// The library value. A filter or assertion means the same whichever way
    /// its prefix was made, so every public constructor is asked and must
    /// agree with the strict one: relaxed from an address with host bits
    /// set, parsed (strict / relaxed), deserialised, generic.
    fn lib(self) -> Result<Prefix, Fail> {
        let strict = if self.v6 {
            Prefix::new_v6(Ipv6Addr::from(self.addr.0), self.len)
        } else {
            Prefix::new_v4(Ipv4Addr::from(self.addr.0 as u32), self.len)
        }
        .map_err(|e| Fail::new(format!("case outside the domain: prefix {:?}: {}", self, e)))?;
        // an address inside the prefix with some host bits set
        let dirty = self.addr.0 | (self.host_mask() & 0x5555_5555_5555_5555_5555_5555_5555_5555u128.rotate_left(self.len as u32 % 2));
        let (clean_ip, dirty_ip): (std::net::IpAddr, std::net::IpAddr) = if self.v6 {
            (Ipv6Addr::from(self.addr.0).into(), Ipv6Addr::from(dirty).into())
        } else {
            (Ipv4Addr::from(self.addr.0 as u32).into(), Ipv4Addr::from(dirty as u32).into())
        };
        let routes: [(&str, Result<Prefix, String>); 5] = [
            ("new_relaxed (host bits set)", Prefix::new_relaxed(dirty_ip, self.len).map_err(|e| e.to_string())),
            ("from_str", Prefix::from_str(&format!("{}/{}", clean_ip, self.len)).map_err(|e| e.to_string())),
            ("from_str_relaxed (host bits set)", Prefix::from_str_relaxed(&format!("{}/{}", dirty_ip, self.len)).map_err(|e| e.to_string())),
            ("Deserialize", serde_json::from_str::<Prefix>(&format!("\"{}/{}\"", clean_ip, self.len)).map_err(|e| e.to_string())),
            ("new (generic)", Prefix::new(clean_ip, self.len).map_err(|e| e.to_string())),
        ];
        for (how, alt) in routes {
            match alt {
                Ok(p) if p == strict && p.addr() == clean_ip && p.len() == self.len => {}
                other => {
                    return Err(Fail::sig(
                        "c15:prefix-constructors-disagree",
                        format!("prefix {}/{} through {}: {:?}, the strict constructor gives {:?}", clean_ip, self.len, how, other, strict),
                    ))
                }
            }
        }
        Ok(strict)
    }
}

#[derive(Clone, Debug, PartialEq, Eq, Serialize, Deserialize)]
pub struct PrefixFilterSpec {
    pub prefix: Option<Pfx>,
    pub asn: Option<u32>,
    pub comment: Option<String>,
}

#[derive(Clone, Debug, PartialEq, Eq, Serialize, Deserialize)]
pub struct BgpsecFilterSpec {
    pub ski: Option<[u8; 20]>,
    pub asn: Option<u32>,
    pub comment: Option<String>,
}

#[derive(Clone, Debug, PartialEq, Eq, Serialize, Deserialize)]
pub struct AspaFilterSpec {
    pub customer: Option<u32>,
    pub comment: Option<String>,
}

#[derive(Clone, Debug, PartialEq, Eq, Serialize, Deserialize)]
pub enum PayloadSpec {
    /// max_len: None or within [len, family]
    Origin { prefix: Pfx, max_len: Option<u8>, asn: u32 },
    RouterKey { ski: [u8; 20], asn: u32, info: Vec<u8> },
    Aspa { customer: u32, providers: Vec<u32> },
}

#[derive(Clone, Debug, Default, PartialEq, Eq, Serialize, Deserialize)]
pub struct FiltersSpec {
    pub prefix: Vec<PrefixFilterSpec>,
    pub bgpsec: Vec<BgpsecFilterSpec>,
    pub aspa: Option<Vec<AspaFilterSpec>>,
}

#[derive(Clone, Debug, Default, PartialEq, Eq, Serialize, Deserialize)]
pub struct AssertionsSpec {
    /// (origin payload, comment)
    pub prefix: Vec<(PayloadSpec, Option<String>)>,
    pub bgpsec: Vec<(PayloadSpec, Option<String>)>,
    pub aspa: Option<Vec<(PayloadSpec, Option<String>)>>,
}

//------------ reference predicate ---------------------------------------------

fn opt_all(criteria: &[Option<bool>]) -> bool {
    criteria.iter().any(|c| c.is_some()) && criteria.iter().all(|c| c.unwrap_or(true))
}

fn pf_matches(f: &PrefixFilterSpec, p: &PayloadSpec) -> bool {
    match p {
        PayloadSpec::Origin { prefix, asn, .. } => opt_all(&[f.prefix.map(|fp| fp.covers(*prefix)), f.asn.map(|a| a == *asn)]),
        _ => false,
    }
}

fn bf_matches(f: &BgpsecFilterSpec, p: &PayloadSpec) -> bool {
    match p {
        PayloadSpec::RouterKey { ski, asn, .. } => opt_all(&[f.ski.map(|s| s == *ski), f.asn.map(|a| a == *asn)]),
        _ => false,
    }
}

fn af_matches(f: &AspaFilterSpec, p: &PayloadSpec) -> bool {
    match p {
        PayloadSpec::Aspa { customer, .. } => opt_all(&[f.customer.map(|c| c == *customer)]),
        _ => false,
    }
}

fn model_drop(f: &FiltersSpec, p: &PayloadSpec) -> bool {
    f.prefix.iter().any(|x| pf_matches(x, p))
        || f.bgpsec.iter().any(|x| bf_matches(x, p))
        || f.aspa.iter().flatten().any(|x| af_matches(x, p))
}

//------------ building library values ------------------------------------------

fn providers(v: &[u32]) -> Result<ProviderAsns, Fail> {
    ProviderAsns::try_from_iter(v.iter().map(|&a| Asn::from_u32(a)))
        .map_err(|e| Fail::new(format!("case outside the domain: {} providers: {}", v.len(), e)))
}

fn key_info(b: &[u8]) -> Result<RouterKeyInfo, Fail> {
    RouterKeyInfo::new(bytes::Bytes::copy_from_slice(b)).map_err(|e| Fail::new(format!("key info: {}", e)))
}

fn max_len_prefix(prefix: Pfx, max_len: Option<u8>) -> Result<MaxLenPrefix, Fail> {
    MaxLenPrefix::new(prefix.lib()?, max_len)
        .map_err(|e| Fail::new(format!("case outside the domain: max-len {:?} of {:?}: {}", max_len, prefix, e)))
}

fn build_payload(p: &PayloadSpec) -> Result<rtr::Payload, Fail> {
    Ok(match p {
        PayloadSpec::Origin { prefix, max_len, asn } => rtr::Payload::origin(max_len_prefix(*prefix, *max_len)?, Asn::from_u32(*asn)),
        PayloadSpec::RouterKey { ski, asn, info } => rtr::Payload::router_key(KeyIdentifier::from(*ski), Asn::from_u32(*asn), key_info(info)?),
        PayloadSpec::Aspa { customer, providers: pr } => rtr::Payload::aspa(Asn::from_u32(*customer), providers(pr)?),
    })
}

fn build_filters(f: &FiltersSpec) -> Result<ValidationOutputFilters, Fail> {
    let mut prefix = Vec::new();
    for x in &f.prefix {
        prefix.push(PrefixFilter::new(x.prefix.map(|p| p.lib()).transpose()?, x.asn.map(Asn::from_u32), x.comment.clone()));
    }
    let bgpsec: Vec<BgpsecFilter> =
        f.bgpsec.iter().map(|x| BgpsecFilter::new(x.ski.map(KeyIdentifier::from), x.asn.map(Asn::from_u32), x.comment.clone())).collect();
    let mut res = ValidationOutputFilters::new(prefix, bgpsec);
    res.aspa = f.aspa.as_ref().map(|v| v.iter().map(|x| AspaFilter::new(x.customer.map(Asn::from_u32), x.comment.clone())).collect());
    Ok(res)
}

fn build_assertions(a: &AssertionsSpec) -> Result<LocallyAddedAssertions, Fail> {
    let mut prefix = Vec::new();
    for (p, c) in &a.prefix {
        let PayloadSpec::Origin { prefix: px, max_len, asn } = p else { return Err(Fail::new("case outside the domain: prefix assertion of another kind")) };
        prefix.push(PrefixAssertion::new(max_len_prefix(*px, *max_len)?, Asn::from_u32(*asn), c.clone()));
    }
    let mut bgpsec = Vec::new();
    for (p, c) in &a.bgpsec {
        let PayloadSpec::RouterKey { ski, asn, info } = p else { return Err(Fail::new("case outside the domain: bgpsec assertion of another kind")) };
        let info = Base64KeyInfo::try_from(info.clone()).map_err(|e| Fail::new(format!("key info: {}", e)))?;
        bgpsec.push(BgpsecAssertion::new(Asn::from_u32(*asn), KeyIdentifier::from(*ski), info, c.clone()));
    }
    let mut res = LocallyAddedAssertions::new(prefix, bgpsec);
    if let Some(list) = &a.aspa {
        let mut aspa = Vec::new();
        for (p, c) in list {
            let PayloadSpec::Aspa { customer, providers: pr } = p else { return Err(Fail::new("case outside the domain: aspa assertion of another kind")) };
            aspa.push(AspaAssertion::new(Asn::from_u32(*customer), providers(pr)?, c.clone()));
        }
        res.aspa = Some(aspa);
    }
    Ok(res)
}

//------------ drop decision ----------------------------------------------------

#[derive(Clone, Debug, Serialize, Deserialize)]
pub struct DropCase {
    pub filters: FiltersSpec,
    pub payloads: Vec<PayloadSpec>,
}

fn kind_name(p: &PayloadSpec) -> &'static str {
    match p {
        PayloadSpec::Origin { .. } => "origin",
        PayloadSpec::RouterKey { .. } => "router-key",
        PayloadSpec::Aspa { .. } => "aspa",
    }
}

fn run_drop(c: &DropCase, obs: &mut Obs) -> CheckResult {
    let filters = build_filters(&c.filters)?;
    let file = SlurmFile::new(filters.clone(), LocallyAddedAssertions::default());
    // The same filters reached through the other public ways of obtaining a
    // file: filters assigned to the public field of a file created without
    // them (so that whatever `new` derived from its arguments is stale), and
    // files parsed from JSON declaring either SLURM version. The drop decision
    // is a function of the filters only.
    let mut variants: Vec<(&'static str, SlurmFile)> = Vec::new();
    {
        let mut f = SlurmFile::new(ValidationOutputFilters::new(Vec::new(), Vec::new()), LocallyAddedAssertions::default());
        f.filters = filters.clone();
        variants.push(("field-assigned", f));
        let mut f = SlurmFile::default();
        f.filters = filters.clone();
        variants.push(("default+field-assigned", f));
        if let Ok(mut v) = serde_json::to_value(&file) {
            for ver in [1u64, 2] {
                v["slurmVersion"] = serde_json::json!(ver);
                if let Ok(parsed) = serde_json::from_value::<SlurmFile>(v.clone()) {
                    if parsed.filters == filters {
                        variants.push((if ver == 1 { "parsed-as-v1" } else { "parsed-as-v2" }, parsed));
                    }
                }
            }
        }
    }
    obs.label_if(variants.len() >= 3, "parsed-variant");
    let kinds = (!c.filters.prefix.is_empty()) as u8 + (!c.filters.bgpsec.is_empty()) as u8
        + c.filters.aspa.as_ref().is_some_and(|a| !a.is_empty()) as u8;
    obs.label_if(c.filters.aspa.is_none(), "aspa-none");
    let mut nt = false;
    for p in &c.payloads {
        let payload = build_payload(p)?;
        let exp = model_drop(&c.filters, p);
        let got = file.drop_payload(&payload);
        let sig = match (p, exp, got) {
            (PayloadSpec::RouterKey { .. }, true, false) => "drop-ignores-bgpsec-filters",
            (PayloadSpec::Aspa { .. }, true, false) => "drop-ignores-aspa-filters",
            _ => "drop-mismatch",
        };
        ensure_sig!(
            got == exp, sig,
            "SlurmFile::drop_payload({:?}) = {}, reference says {} for filters {:?}", p, got, exp, c.filters
        );
        ensure!(filters.drop_payload(&payload) == exp, "ValidationOutputFilters::drop_payload({:?}) differs from the file's", p);
        for (how, f) in &variants {
            ensure!(
                f.drop_payload(&payload) == exp,
                "SlurmFile ({}) drop_payload({:?}) = {}, reference says {} for filters {:?}", how, p, !exp, exp, c.filters
            );
        }
        // each filter on its own
        for (fs, f) in c.filters.prefix.iter().zip(&filters.prefix) {
            let e = pf_matches(fs, p);
            ensure!(f.drop_payload(&payload) == e, "PrefixFilter {:?}.drop_payload({:?}) = {}, reference {}", fs, p, !e, e);
            if let rtr::Payload::Origin(o) = &payload {
                ensure!(f.drop_origin(*o) == e, "PrefixFilter {:?}.drop_origin({:?}) = {}, reference {}", fs, p, !e, e);
            }
        }
        for (fs, f) in c.filters.bgpsec.iter().zip(&filters.bgpsec) {
            let e = bf_matches(fs, p);
            ensure!(f.drop_payload(&payload) == e, "BgpsecFilter {:?}.drop_payload({:?}) = {}, reference {}", fs, p, !e, e);
            if let rtr::Payload::RouterKey(k) = &payload {
                ensure!(f.drop_router_key(k) == e, "BgpsecFilter {:?}.drop_router_key({:?}) = {}, reference {}", fs, p, !e, e);
            }
        }
        for (fs, f) in c.filters.aspa.iter().flatten().zip(filters.aspa.iter().flatten()) {
            let e = af_matches(fs, p);
            ensure!(f.drop_payload(&payload) == e, "AspaFilter {:?}.drop_payload({:?}) = {}, reference {}", fs, p, !e, e);
            if let rtr::Payload::Aspa(a) = &payload {
                ensure!(f.drop_aspa(a) == e, "AspaFilter {:?}.drop_aspa({:?}) = {}, reference {}", fs, p, !e, e);
            }
        }
        for l in [Some(kind_name(p)), Some(if exp { "dropped" } else { "kept" }), (exp && !matches!(p, PayloadSpec::Origin { .. })).then_some("dropped-non-prefix")] {
            // class labels count cases, not payloads
            if let Some(l) = l {
                if !obs.labels.contains(&l) {
                    obs.label(l);
                }
            }
        }
        nt |= kinds >= 2 && !matches!(p, PayloadSpec::Origin { .. });
    }
    obs.evals(c.payloads.len().saturating_sub(1) as u64);
    obs.nontrivial_if(nt);
    Ok(())
}

//------------ drop-enum --------------------------------------------------------

const ASN_EQ: u32 = 64500;
const ASN_NE: u32 = 64501;
const SKI_EQ: [u8; 20] = [0x11; 20];
const SKI_NE: [u8; 20] = [0x11, 0x11, 0x11, 0x11, 0x11, 0x11, 0x11, 0x11, 0x11, 0x11, 0x11, 0x11, 0x11, 0x11, 0x11, 0x11, 0x11, 0x11, 0x11, 0x10];

fn enum_payloads() -> Vec<PayloadSpec> {
    let o = |v6, addr, len, max_len| PayloadSpec::Origin { prefix: Pfx::new(v6, addr, len), max_len, asn: ASN_EQ };
    vec![
        o(false, 0x0A01_0000, 16, Some(24)),
        o(false, 0, 0, None),
        o(false, 0xC000_0201, 32, Some(32)),
        o(true, 0x2001_0db8 << 96, 32, Some(48)),
        o(true, 0, 0, Some(128)),
        o(true, (0x2001_0db8 << 96) | 1, 128, None),
        PayloadSpec::RouterKey { ski: SKI_EQ, asn: ASN_EQ, info: vec![1, 2, 3, 4] },
        PayloadSpec::RouterKey { ski: SKI_EQ, asn: ASN_EQ, info: vec![] },
        PayloadSpec::Aspa { customer: ASN_EQ, providers: vec![64496, 64497] },
    ]
}

/// Prefix criteria relative to `r` (None = criterion absent). Duplicates removed.
fn prefix_relatives(r: Pfx) -> Vec<Option<Pfx>> {
    let fam = r.fam();
    let mut v: Vec<Option<Pfx>> = vec![None, Some(r), Some(Pfx::new(r.v6, 0, 0)), Some(Pfx::new(!r.v6, 0, 0))];
    if r.len > 0 {
        v.push(Some(Pfx::new(r.v6, r.addr.0, r.len - 1))); // covering by one bit
        v.push(Some(Pfx::new(r.v6, r.addr.0 ^ (1u128 << (fam - r.len)), r.len))); // sibling
    }
    if r.len < fam {
        v.push(Some(Pfx::new(r.v6, r.addr.0, r.len + 1))); // more specific
        v.push(Some(Pfx::new(r.v6, r.addr.0 | (1u128 << (fam - r.len - 1)), r.len + 1)));
    }
    // the same leading bits in the other family
    let ofam: u8 = if r.v6 { 32 } else { 128 };
    let olen = r.len.min(ofam);
    let top = if r.len == 0 { 0 } else { r.addr.0 >> (fam - r.len.min(fam)) as u32 }; // the r.len leading bits
    let top = if r.len > olen { top >> (r.len - olen) } else { top };
    let oaddr = if olen == 0 { 0 } else { top << (ofam - olen) as u32 };
    v.push(Some(Pfx::new(!r.v6, oaddr, olen)));
    let mut out: Vec<Option<Pfx>> = Vec::new();
    for x in v {
        if !out.contains(&x) {
            out.push(x);
        }
    }
    out
}

fn enum_filters_for(p: &PayloadSpec) -> (Vec<PrefixFilterSpec>, Vec<BgpsecFilterSpec>, Vec<Option<Vec<AspaFilterSpec>>>) {
    let reference = match p {
        PayloadSpec::Origin { prefix, .. } => *prefix,
        _ => Pfx::new(false, 0x0A01_0000, 16),
    };
    let asns = [None, Some(ASN_EQ), Some(ASN_NE)];
    let mut pf = Vec::new();
    for px in prefix_relatives(reference) {
        for a in asns {
            pf.push(PrefixFilterSpec { prefix: px, asn: a, comment: None });
        }
    }
    let mut bf = Vec::new();
    for s in [None, Some(SKI_EQ), Some(SKI_NE)] {
        for a in asns {
            bf.push(BgpsecFilterSpec { ski: s, asn: a, comment: None });
        }
    }
    let mut af = vec![None, Some(vec![])];
    for a in asns {
        af.push(Some(vec![AspaFilterSpec { customer: a, comment: None }]));
    }
    af.push(Some(vec![AspaFilterSpec { customer: Some(ASN_NE), comment: None }, AspaFilterSpec { customer: Some(ASN_EQ), comment: None }]));
    (pf, bf, af)
}

/// (number of prefix-filter lists, bgpsec lists, aspa lists) for payload `pi`.
fn enum_dims(p: &PayloadSpec) -> (u64, u64, u64) {
    let (pf, bf, af) = enum_filters_for(p);
    let n = pf.len() as u64;
    (1 + n + n * n, 1 + bf.len() as u64, af.len() as u64)
}

fn count_drop_enum(_: Tier, _: u64) -> u64 {
    enum_payloads().iter().map(|p| { let (a, b, c) = enum_dims(p); a * b * c }).sum()
}

fn make_drop_enum(_: Tier, _: u64, mut idx: u64) -> DropCase {
    for p in enum_payloads() {
        let (a, b, c) = enum_dims(&p);
        if idx >= a * b * c {
            idx -= a * b * c;
            continue;
        }
        let (pf, bf, af) = enum_filters_for(&p);
        let (pi, rest) = (idx % a, idx / a);
        let (bi, ai) = (rest % b, rest / b);
        let n = pf.len() as u64;
        let prefix = if pi == 0 {
            vec![]
        } else if pi <= n {
            vec![pf[(pi - 1) as usize].clone()]
        } else {
            let q = pi - 1 - n;
            vec![pf[(q / n) as usize].clone(), pf[(q % n) as usize].clone()]
        };
        let bgpsec = if bi == 0 { vec![] } else { vec![bf[(bi - 1) as usize].clone()] };
        return DropCase { filters: FiltersSpec { prefix, bgpsec, aspa: af[ai as usize].clone() }, payloads: vec![p] };
    }
    unreachable!("index beyond the enumeration")
}

//------------ random generators -------------------------------------------------

fn pool_prefixes() -> Vec<Pfx> {
    vec![
        Pfx::new(false, 0, 0),
        Pfx::new(false, 0x0A00_0000, 8),
        Pfx::new(false, 0x0A80_0000, 9),
        Pfx::new(false, 0x0A01_0000, 16),
        Pfx::new(false, 0x0A01_0200, 24),
        Pfx::new(false, 0x0A01_0203, 32),
        Pfx::new(false, 0xC000_0200, 24),
        Pfx::new(true, 0, 0),
        Pfx::new(true, 0x0A << 120, 8),
        Pfx::new(true, 0x0A01 << 112, 16),
        Pfx::new(true, 0x2001_0db8 << 96, 32),
        Pfx::new(true, 0x2001_0db8_0001 << 80, 48),
        Pfx::new(true, (0x2001_0db8_0001 << 80) | 1, 128),
    ]
}

fn pfx_s() -> BoxedStrategy<Pfx> {
    prop_oneof![
        3 => prop::sample::select(pool_prefixes()),
        2 => (any::<bool>(), dense_u128(), any::<u8>()).prop_map(|(v6, a, l)| {
            let a = if v6 { a } else { (a >> 96) ^ (a & 0xFFFF_FFFF) };
            Pfx::new(v6, a, l % if v6 { 129 } else { 33 })
        }),
    ]
    .boxed()
}

fn asn_s() -> BoxedStrategy<u32> {
    prop_oneof![5 => prop::sample::select(vec![0u32, 1, ASN_EQ, ASN_NE, u32::MAX]), 1 => dense_u32()].boxed()
}

fn ski_s() -> BoxedStrategy<[u8; 20]> {
    prop_oneof![
        4 => prop::sample::select(vec![SKI_EQ, SKI_NE, [0u8; 20], [0xFF; 20]]),
        1 => prop::array::uniform20(any::<u8>()),
    ]
    .boxed()
}

fn comment_s() -> BoxedStrategy<Option<String>> {
    let ch = prop_oneof![
        4 => prop::sample::select(vec!['"', '\\', '/', '\n', '\r', '\t', '\u{0}', '\u{1f}', '\u{7f}', '{', '}', '[', ']', ':', ',', ' ', 'a', 'é', '\u{2028}', '\u{fffd}', '\u{feff}', '\u{1F600}', '\u{10FFFF}']),
        2 => any::<char>(),
        2 => prop::char::range(' ', '~'),
    ];
    prop::option::weighted(0.6, prop::collection::vec(ch, 0..12).prop_map(|v| v.into_iter().collect::<String>())).boxed()
}

/// A comment is not a criterion: filters in the drop checks carry one now and then.
fn short_comment() -> BoxedStrategy<Option<String>> {
    prop_oneof![3 => Just(None), 1 => Just(Some(String::new())), 1 => Just(Some("local policy".to_string()))].boxed()
}

fn origin_s() -> BoxedStrategy<PayloadSpec> {
    (pfx_s(), prop::option::weighted(0.6, any::<u8>()), asn_s())
        .prop_map(|(prefix, ml, asn)| {
            let max_len = ml.map(|m| prefix.len + m % (prefix.fam() - prefix.len + 1));
            PayloadSpec::Origin { prefix, max_len, asn }
        })
        .boxed()
}

fn router_key_s() -> BoxedStrategy<PayloadSpec> {
    (
        ski_s(),
        asn_s(),
        prop_oneof![
            30 => prop::collection::vec(any::<u8>(), 0..8),
            10 => prop::collection::vec(any::<u8>(), 0..120),
            // beyond one Base64 line / 256 octets / 1 KiB
            3 => prop::collection::vec(any::<u8>(), 250..262),
            2 => prop::collection::vec(any::<u8>(), 120..1300),
        ],
    )
        .prop_map(|(ski, asn, info)| PayloadSpec::RouterKey { ski, asn, info })
        .boxed()
}

fn aspa_s() -> BoxedStrategy<PayloadSpec> {
    (
        asn_s(),
        prop_oneof![
            4000 => prop::collection::vec(asn_s(), 0..6),
            1000 => prop::collection::vec(dense_u32(), 0..40),
            // up to the largest provider set an ASPA item can carry (16380)
            1 => (16_370u32..=16_380, any::<u32>()).prop_map(|(n, b)| (0..n).map(|i| b.wrapping_add(i)).collect::<Vec<u32>>()),
        ],
    )
        .prop_map(|(customer, providers)| PayloadSpec::Aspa { customer, providers })
        .boxed()
}

fn payload_s() -> BoxedStrategy<PayloadSpec> {
    prop_oneof![origin_s(), router_key_s(), aspa_s()].boxed()
}

fn filters_s(comment: fn() -> BoxedStrategy<Option<String>>) -> BoxedStrategy<FiltersSpec> {
    let pf = (prop::option::weighted(0.65, pfx_s()), prop::option::weighted(0.55, asn_s()), comment())
        .prop_map(|(prefix, asn, comment)| PrefixFilterSpec { prefix, asn, comment });
    let bf = (prop::option::weighted(0.55, ski_s()), prop::option::weighted(0.55, asn_s()), comment())
        .prop_map(|(ski, asn, comment)| BgpsecFilterSpec { ski, asn, comment });
    let af = (prop::option::weighted(0.8, asn_s()), comment()).prop_map(|(customer, comment)| AspaFilterSpec { customer, comment });
    (prop::collection::vec(pf, 0..=6), prop::collection::vec(bf, 0..=6), prop::option::weighted(0.7, prop::collection::vec(af, 0..=6)))
        .prop_map(|(prefix, bgpsec, aspa)| FiltersSpec { prefix, bgpsec, aspa })
        .boxed()
}

fn drop_strategy(_: Tier) -> BoxedStrategy<DropCase> {
    (filters_s(short_comment), prop::collection::vec(payload_s(), 1..=6), any::<u16>(), any::<u16>(), any::<u128>())
        .prop_map(|(filters, mut payloads, i, j, r)| {
            // aim one payload at an existing filter so that matches are frequent
            let k = pick_idx(j, payloads.len());
            match &payloads[k] {
                // an origin whose prefix is related to a filter's prefix at any pair of lengths:
                // the same, more specific by 1..n bits (any bits), less specific, or differing in
                // one of the filter prefix's own bits
                PayloadSpec::Origin { asn, .. } if filters.prefix.iter().any(|f| f.prefix.is_some()) && r & 3 != 0 => {
                    let with: Vec<&PrefixFilterSpec> = filters.prefix.iter().filter(|f| f.prefix.is_some()).collect();
                    let f = with[pick_idx(i, with.len())];
                    let fp = f.prefix.unwrap();
                    let fam = fp.fam();
                    let shift = |len: u8| (fam - len) as u32;
                    let low = |addr: u128| if fp.v6 { addr } else { addr & 0xFFFF_FFFF };
                    let prefix = match (r >> 2) & 3 {
                        0 => fp,
                        1 => {
                            // more specific: keep the filter's bits, random bits behind them
                            let extra = 1 + ((r >> 8) as u8) % (fam - fp.len).max(1);
                            let len = (fp.len + extra).min(fam);
                            let tail = if shift(fp.len) == 0 { 0 } else { low(r >> 16) & fp.host_mask() };
                            Pfx::new(fp.v6, fp.addr.0 | tail, len)
                        }
                        2 => Pfx::new(fp.v6, fp.addr.0, fp.len - ((r >> 8) as u8) % (fp.len + 1)),
                        _ => {
                            // one of the filter's own bits flipped, same or greater length
                            if fp.len == 0 {
                                fp
                            } else {
                                let bit = ((r >> 8) as u8) % fp.len;
                                let extra = ((r >> 16) as u8) % (fam - fp.len + 1);
                                Pfx::new(fp.v6, fp.addr.0 ^ (1u128 << (fam - 1 - bit)), fp.len + extra)
                            }
                        }
                    };
                    let asn = if (r >> 4) & 1 == 0 { f.asn.unwrap_or(*asn) } else { *asn };
                    let ml = (r >> 40) as u8;
                    let max_len = if ml & 1 == 0 { None } else { Some(prefix.len + (ml >> 1) % (fam - prefix.len + 1)) };
                    payloads[k] = PayloadSpec::Origin { prefix, max_len, asn };
                }
                PayloadSpec::RouterKey { info, .. } if !filters.bgpsec.is_empty() => {
                    let f = &filters.bgpsec[pick_idx(i, filters.bgpsec.len())];
                    payloads[k] = PayloadSpec::RouterKey { ski: f.ski.unwrap_or(SKI_EQ), asn: f.asn.unwrap_or(ASN_EQ), info: info.clone() };
                }
                PayloadSpec::Aspa { providers, .. } if filters.aspa.as_ref().is_some_and(|a| !a.is_empty()) => {
                    let a = filters.aspa.as_ref().unwrap();
                    let f = &a[pick_idx(i, a.len())];
                    payloads[k] = PayloadSpec::Aspa { customer: f.customer.unwrap_or(ASN_EQ), providers: providers.clone() };
                }
                _ => {}
            }
            DropCase { filters, payloads }
        })
        .boxed()
}

//------------ json --------------------------------------------------------------

#[derive(Clone, Debug, Serialize, Deserialize)]
pub struct FileCase {
    pub filters: FiltersSpec,
    pub assertions: AssertionsSpec,
    /// seed of the foreign spelling of the file's JSON (member order, white space,
    /// escaped characters, read sizes)
    #[serde(default)]
    pub respell: u64,
}

fn mix(st: &mut u64) -> u64 {
    *st = st.wrapping_add(0x9E37_79B9_7F4A_7C15);
    let mut z = *st;
    z = (z ^ (z >> 30)).wrapping_mul(0xBF58_476D_1CE4_E5B9);
    z = (z ^ (z >> 27)).wrapping_mul(0x94D0_49BB_1331_11EB);
    z ^ (z >> 31)
}

fn ws(st: &mut u64, out: &mut String) {
    match mix(st) % 8 {
        0 => out.push(' '),
        1 => out.push('\n'),
        2 => out.push_str("\r\n\t "),
        _ => {}
    }
}

fn respell_string(s: &str, st: &mut u64, out: &mut String) {
    out.push('"');
    let escape_some = mix(st) % 3 == 0;
    for ch in s.chars() {
        let force = matches!(ch, '"' | '\\') || (ch as u32) < 0x20;
        if force || (escape_some && mix(st) % 4 == 0) {
            let mut buf = [0u16; 2];
            for u in ch.encode_utf16(&mut buf) {
                out.push_str(&format!("\\u{:04x}", u));
            }
        } else if ch == '/' && mix(st) % 5 == 0 {
            out.push_str("\\/");
        } else {
            out.push(ch);
        }
    }
    out.push('"');
}

/// The same JSON value in another, equally valid spelling: object members in another
/// order, insignificant white space, characters of strings written as escapes.
fn respell_json(v: &serde_json::Value, st: &mut u64, out: &mut String) {
    use serde_json::Value;
    ws(st, out);
    match v {
        Value::Object(m) => {
            let mut members: Vec<(&String, &Value)> = m.iter().collect();
            for i in (1..members.len()).rev() {
                let j = (mix(st) % (i as u64 + 1)) as usize;
                members.swap(i, j);
            }
            out.push('{');
            for (i, (k, val)) in members.iter().enumerate() {
                if i > 0 {
                    out.push(',');
                }
                ws(st, out);
                respell_string(k, st, out);
                ws(st, out);
                out.push(':');
                respell_json(val, st, out);
            }
            ws(st, out);
            out.push('}');
        }
        Value::Array(a) => {
            out.push('[');
            for (i, val) in a.iter().enumerate() {
                if i > 0 {
                    out.push(',');
                }
                respell_json(val, st, out);
            }
            ws(st, out);
            out.push(']');
        }
        Value::String(s) => respell_string(s, st, out),
        other => out.push_str(&other.to_string()),
    }
    ws(st, out);
}

/// A reader handing out the text in pieces of 1..=n octets.
struct PieceReader<'a> {
    data: &'a [u8],
    st: u64,
    max: usize,
}

impl std::io::Read for PieceReader<'_> {
    fn read(&mut self, buf: &mut [u8]) -> std::io::Result<usize> {
        let n = (1 + (mix(&mut self.st) as usize) % self.max).min(buf.len()).min(self.data.len());
        buf[..n].copy_from_slice(&self.data[..n]);
        self.data = &self.data[n..];
        Ok(n)
    }
}

fn file_strategy(_: Tier) -> BoxedStrategy<FileCase> {
    let with_c = |s: BoxedStrategy<PayloadSpec>| prop::collection::vec((s, comment_s()), 0..=5);
    (filters_s(comment_s), with_c(origin_s()), with_c(router_key_s()), prop::option::weighted(0.7, with_c(aspa_s())), any::<u64>())
        .prop_map(|(filters, prefix, bgpsec, aspa, respell)| FileCase { filters, assertions: AssertionsSpec { prefix, bgpsec, aspa }, respell })
        .boxed()
}

fn run_json(c: &FileCase, obs: &mut Obs) -> CheckResult {
    let filters = build_filters(&c.filters)?;
    let assertions = build_assertions(&c.assertions)?;
    let file = SlurmFile::new(filters, assertions);

    let check_back = |form: &str, text: &str, back: Result<SlurmFile, serde_json::Error>| -> CheckResult {
        match back {
            Ok(b) => {
                ensure!(b == file, "{}: parsed file differs.\n json: {}\n parsed:   {:?}\n original: {:?}", form, text, b, file);
                Ok(())
            }
            Err(e) => Err(Fail::new(format!("{}: the file's own JSON does not parse: {}\n json: {}\n original: {:?}", form, e, text, file))),
        }
    };
    let compact = no_panic("to_string", || file.to_string())?;
    check_back("to_string/from_str", &compact, SlurmFile::from_str(&compact))?;
    check_back("to_string/from_reader", &compact, SlurmFile::from_reader(compact.as_bytes()))?;
    let pretty = no_panic("to_string_pretty", || file.to_string_pretty())?;
    check_back("to_string_pretty/from_str", &pretty, SlurmFile::from_str(&pretty))?;
    let mut w = Vec::new();
    file.to_writer(&mut w).map_err(|e| Fail::new(format!("to_writer: {}", e)))?;
    let wt = String::from_utf8(w).map_err(|e| Fail::new(format!("to_writer wrote invalid UTF-8: {}", e)))?;
    check_back("to_writer/from_reader", &wt, SlurmFile::from_reader(wt.as_bytes()))?;
    let mut w = Vec::new();
    file.to_writer_pretty(&mut w).map_err(|e| Fail::new(format!("to_writer_pretty: {}", e)))?;
    let wt = String::from_utf8(w).map_err(|e| Fail::new(format!("to_writer_pretty wrote invalid UTF-8: {}", e)))?;
    check_back("to_writer_pretty/from_str", &wt, SlurmFile::from_str(&wt))?;

    // The same document as a foreign writer might spell it (RFC 8259: members of an object
    // are unordered, white space between tokens is insignificant, any character may be
    // written as an escape), handed over whole and in pieces: the same file.
    {
        let value: serde_json::Value = serde_json::from_str(&compact).map_err(|e| Fail::new(format!("to_string is not JSON: {}", e)))?;
        let mut st = c.respell;
        let mut text = String::new();
        respell_json(&value, &mut st, &mut text);
        let again: serde_json::Value = serde_json::from_str(&text).map_err(|e| Fail::new(format!("harness: respelled JSON invalid: {}", e)))?;
        ensure!(again == value, "harness: respelling changed the JSON value");
        let judge = |form: &str, back: Result<SlurmFile, serde_json::Error>| -> CheckResult {
            match back {
                Ok(b) => {
                    ensure_sig!(b == file, "json-foreign-spelling", "{}: the same JSON document in another spelling parses to a different file.\n json: {}\n parsed:   {:?}\n original: {:?}", form, text, b, file);
                    let (x, y): (Vec<rtr::Payload>, Vec<rtr::Payload>) = (b.assertions.iter_payload().collect(), file.assertions.iter_payload().collect());
                    ensure_sig!(x == y, "json-foreign-spelling", "{}: payload of the re-spelled file {:?}, of the original {:?}", form, x, y);
                    Ok(())
                }
                Err(e) => Err(Fail::sig("json-foreign-spelling", format!("{}: the same JSON document in another spelling is refused: {}\n json: {}", form, e, text))),
            }
        };
        judge("from_str (members reordered, white space, escapes)", SlurmFile::from_str(&text))?;
        let max = [1usize, 2, 7, 64, 1000, 8192, 10_000][(mix(&mut st) % 7) as usize];
        judge("from_reader (in pieces)", SlurmFile::from_reader(PieceReader { data: text.as_bytes(), st, max }))?;
        judge("from_reader (own text in pieces)", SlurmFile::from_reader(PieceReader { data: compact.as_bytes(), st, max }))?;
    }

    // The same content in a file that was created empty and then filled through
    // its public fields (whatever `new` derived from its arguments is stale):
    // it, too, must come back from its own JSON as an equal file with the same
    // filters and assertions.
    {
        let mut late = SlurmFile::new(ValidationOutputFilters::new(Vec::new(), Vec::new()), LocallyAddedAssertions::default());
        late.filters = file.filters.clone();
        late.assertions = file.assertions.clone();
        let text = no_panic("to_string (fields assigned after construction)", || late.to_string())?;
        match SlurmFile::from_str(&text) {
            Ok(b) => ensure_sig!(
                b == late && b.filters == file.filters && b.assertions == file.assertions,
                "json-field-assigned-file",
                "a file filled through its public fields does not come back from its own JSON.\n json: {}\n parsed:   {:?}\n original: {:?}", text, b, late
            ),
            Err(e) => return Err(Fail::sig("json-field-assigned-file", format!("a file filled through its public fields writes JSON that does not parse: {}\n json: {}", e, text))),
        }
    }

    // assertions -> payload items
    let got: Vec<rtr::Payload> = file.assertions.iter_payload().collect();
    let a = &c.assertions;
    let n = a.prefix.len() + a.bgpsec.len() + a.aspa.as_ref().map(|v| v.len()).unwrap_or(0);
    ensure!(got.len() == n, "iter_payload yields {} items for {} assertions", got.len(), n);
    let mut exp_o = Vec::new();
    for (p, _) in &a.prefix {
        exp_o.push(build_payload(p)?);
    }
    let mut exp_k = Vec::new();
    for (p, _) in &a.bgpsec {
        exp_k.push(build_payload(p)?);
    }
    let mut exp_a = Vec::new();
    for (p, _) in a.aspa.iter().flatten() {
        exp_a.push(build_payload(p)?);
    }
    let by = |f: fn(&rtr::Payload) -> bool| got.iter().filter(|p| f(p)).cloned().collect::<Vec<_>>();
    let got_o = by(|p| matches!(p, rtr::Payload::Origin(_)));
    ensure!(got_o == exp_o, "origins from iter_payload {:?}, assertions say {:?}", got_o, exp_o);
    for (g, e) in got_o.iter().zip(&exp_o) {
        if let (rtr::Payload::Origin(g), rtr::Payload::Origin(e)) = (g, e) {
            // RouteOrigin's == resolves the max length; the fields themselves must agree too
            ensure!(g.prefix == e.prefix && g.asn == e.asn, "origin fields {:?}, assertion {:?}", g, e);
        }
    }
    let got_k = by(|p| matches!(p, rtr::Payload::RouterKey(_)));
    ensure!(got_k == exp_k, "router keys from iter_payload {:?}, assertions say {:?}", got_k, exp_k);
    let got_a = by(|p| matches!(p, rtr::Payload::Aspa(_)));
    ensure!(got_a == exp_a, "ASPAs from iter_payload {:?}, assertions say {:?}", got_a, exp_a);

    let kinds = (!a.prefix.is_empty()) as u8 + (!a.bgpsec.is_empty()) as u8 + a.aspa.as_ref().is_some_and(|v| !v.is_empty()) as u8;
    let has_comment = a.prefix.iter().chain(&a.bgpsec).chain(a.aspa.iter().flatten()).any(|(_, c)| c.is_some())
        || c.filters.prefix.iter().any(|f| f.comment.is_some())
        || c.filters.bgpsec.iter().any(|f| f.comment.is_some())
        || c.filters.aspa.iter().flatten().any(|f| f.comment.is_some());
    obs.nontrivial_if(kinds >= 2 && has_comment);
    obs.label_if(has_comment, "comment");
    obs.label_if(a.aspa.is_none() && c.filters.aspa.is_none(), "version-1");
    obs.label_if(a.aspa.is_some() || c.filters.aspa.is_some(), "version-2");
    obs.label_if(kinds == 3, "all-assertion-kinds");
    Ok(())
}

pub fn property() -> Property {
    Property {
        id: "C15",
        rule: RULE,
        assumptions: vec![
            "prefix coverage reference: same family and address-range inclusion on integers (the C13 model)",
            "iter_payload is compared per payload kind in assertion order; the interleaving of kinds is not part of the statement",
            "generated files stay inside the documented domain: valid prefixes (host bits zero), max length within [len, family], at most 16380 providers, key info below 2^32 bytes",
        ],
        subs: vec![
            EnumSub { name: "drop-enum", count: count_drop_enum, make: make_drop_enum, run: run_drop, exhaustive: true }.boxed(),
            PropSub {
                name: "drop-random",
                strategy: drop_strategy,
                cases: |t| t.pick(1_600_000, 8_000_000),
                run: run_drop,
                floors: &[("origin", 0.3), ("router-key", 0.3), ("aspa", 0.3), ("dropped", 0.3), ("kept", 0.3), ("dropped-non-prefix", 0.1), ("aspa-none", 0.1)],
            }
            .boxed(),
            PropSub {
                name: "json",
                strategy: file_strategy,
                cases: |t| t.pick(400_000, 1_200_000),
                run: run_json,
                floors: &[("comment", 0.4), ("version-1", 0.03), ("version-2", 0.4), ("all-assertion-kinds", 0.15)],
            }
            .boxed(),
        ],
    }
}
