//! C15 — stub (not built yet).

use crate::engine::*;

pub fn property() -> Property {
    Property { id: "C15", rule: "", assumptions: vec![], subs: vec![] }
}
