//! C03 sub-checks `rset`, `text`, `der`, `prefixes`.

use super::sgen;
use super::util::*;
use super::{bad, dec_as_blocks, dec_as_resources, dec_ip_ber, dec_ip_blocks, dec_ip_families, dec_ip_resources, probe_blocks, roa_probes, typed_from_json, typed_from_str};
use crate::engine::*;
use crate::gen::U128;
use crate::iset::{self, ISet};
use proptest::prelude::*;
use rpki::ca::provisioning::RequestResourceLimit;
use rpki::repository::resources::{
    AddressRange, AsBlocks, AsResources, IpBlock, IpBlocks, Ipv4Blocks, Ipv6Blocks, Prefix, ResourceDiff, ResourceSet,
};
use rpki::repository::roa::RoaIpAddress;
use serde::{Deserialize, Serialize};
use std::str::FromStr;

//------------ rset -------------------------------------------------------------------------------

#[derive(Clone, Debug, Serialize, Deserialize)]
pub struct Tri {
    pub asn: Vec<Blk>,
    pub v4: Vec<Blk>,
    pub v6: Vec<Blk>,
}

#[derive(Clone, Debug, Serialize, Deserialize)]
pub struct RsetCase {
    pub a: Tri,
    pub b: Tri,
    pub limit_asn: Option<Vec<Blk>>,
    pub limit_v4: Option<Vec<Blk>>,
    pub limit_v6: Option<Vec<Blk>>,
    pub style: u8,
}

struct TriModel {
    asn: ISet<u32>,
    v4: ISet<u128>,
    v6: ISet<u128>,
}

impl TriModel {
    fn of(t: &Tri) -> Self {
        TriModel { asn: as_model(&t.asn), v4: ip_model(Fam::V4, &t.v4), v6: ip_model(Fam::V6, &t.v6) }
    }
    fn zip(&self, o: &Self, f32: impl Fn(&ISet<u32>, &ISet<u32>) -> ISet<u32>, f128: impl Fn(&ISet<u128>, &ISet<u128>) -> ISet<u128>) -> Self {
        TriModel { asn: f32(&self.asn, &o.asn), v4: f128(&self.v4, &o.v4), v6: f128(&self.v6, &o.v6) }
    }
    fn is_empty(&self) -> bool {
        self.asn.is_empty() && self.v4.is_empty() && self.v6.is_empty()
    }
    fn subset_of(&self, o: &Self) -> bool {
        self.asn.is_subset(&o.asn) && self.v4.is_subset(&o.v4) && self.v6.is_subset(&o.v6)
    }
    fn eq(&self, o: &Self) -> bool {
        self.asn == o.asn && self.v4 == o.v4 && self.v6 == o.v6
    }
}

fn lib_set(t: &Tri) -> ResourceSet {
    ResourceSet::new(lib_as(&t.asn), lib_ip(Fam::V4, &t.v4).into(), lib_ip(Fam::V6, &t.v6).into())
}

fn check_set(what: &str, s: &ResourceSet, m: &TriModel) -> CheckResult {
    check_as(&format!("{} (asn)", what), s.asn(), &m.asn)?;
    check_ip(&format!("{} (ipv4)", what), Fam::V4, s.ipv4(), &m.v4)?;
    check_ip(&format!("{} (ipv6)", what), Fam::V6, s.ipv6(), &m.v6)?;
    ensure!(s.is_empty() == m.is_empty(), "{}: is_empty()", what);
    ensure!(s.asn_opt().is_some() == !m.asn.is_empty(), "{}: asn_opt()", what);
    ensure!(s.ipv4_opt().is_some() == !m.v4.is_empty(), "{}: ipv4_opt()", what);
    ensure!(s.ipv6_opt().is_some() == !m.v6.is_empty(), "{}: ipv6_opt()", what);
    Ok(())
}

fn rset_strategy(_: Tier) -> BoxedStrategy<RsetCase> {
    (sgen::related(Fam::As), sgen::related(Fam::V4), sgen::related(Fam::V6), prop_oneof![Just(0u8), 1u8..8, 1u8..8], any::<u8>())
        .prop_map(|(ra, r4, r6, mask, style)| {
            // a quarter of the limited cases asks for "none of this type" explicitly
            let empty = if (style >> 4) & 3 == 3 { 1 + (style >> 6) % 3 } else { 0 };
            let pick = |present: bool, which: u8, v: Vec<Blk>| present.then_some(if empty == which { Vec::new() } else { v });
            RsetCase {
                a: Tri { asn: ra.a, v4: r4.a, v6: r6.a },
                b: Tri { asn: ra.b, v4: r4.b, v6: r6.b },
                limit_asn: pick(mask & 1 != 0, 1, ra.c),
                limit_v4: pick(mask & 2 != 0, 2, r4.c),
                limit_v6: pick(mask & 4 != 0, 3, r6.c),
                style,
            }
        })
        .boxed()
}

fn serde_sig(js: &str) -> &'static str {
    // a dotted quad next to a colon can only come from an IPv6 address
    let v6_dotted = js.split('"').any(|f| f.contains(':') && f.contains('.') && f.len() > 1);
    if v6_dotted { "roundtrip:v6-dotted-quad" } else { "roundtrip:serde" }
}

fn run_rset_inner(c: &RsetCase, obs: &mut Obs) -> CheckResult {
    let all = [(&c.a.asn, Fam::As), (&c.a.v4, Fam::V4), (&c.a.v6, Fam::V6), (&c.b.asn, Fam::As), (&c.b.v4, Fam::V4), (&c.b.v6, Fam::V6)];
    let mut nt = false;
    for (b, fam) in all {
        for x in b.iter() {
            ensure!(x.lo.0 <= x.hi.0 && x.hi.0 <= fam.max(), "case outside the domain: {:?}", x);
        }
        let cl = classify(fam, &vals(b));
        nt |= cl.nontrivial;
        obs.label_if(cl.bridging, "bridging");
        obs.label_if(cl.touch_bound, "touching-bound");
    }
    obs.nontrivial_if(nt);
    let (ma, mb) = (TriModel::of(&c.a), TriModel::of(&c.b));
    let (a, b) = (lib_set(&c.a), lib_set(&c.b));
    check_set("ResourceSet::new(A)", &a, &ma)?;
    check_set("ResourceSet::new(B)", &b, &mb)?;

    // text and serde entry points
    let (ta, t4, t6) = (list_text(Fam::As, &c.a.asn, c.style), list_text(Fam::V4, &c.a.v4, c.style), list_text(Fam::V6, &c.a.v6, c.style));
    obs.label_if(t6.contains('.'), "v6-dotted-quad");
    let s = ResourceSet::from_strs(&ta, &t4, &t6).map_err(|e| {
        let sig = if t6.contains('.') && matches!(e.to_string().as_str(), x if x.contains("IPv6")) { "text:v6-dotted-quad" } else { "text:rejected" };
        Fail::sig(sig, format!("ResourceSet::from_strs({:?}, {:?}, {:?}) rejected valid text: {}", ta, t4, t6, e))
    })?;
    check_set("ResourceSet::from_strs", &s, &ma)?;
    ensure!(s == a && !(s != a), "from_strs result != ResourceSet::new result");
    let js = serde_json::to_string(&a).map_err(bad("serialize ResourceSet"))?;
    let s: ResourceSet = serde_json::from_str(&js).map_err(|e| Fail::sig(serde_sig(&js), format!("ResourceSet JSON {} does not parse back: {}", js, e)))?;
    check_set("ResourceSet serde round trip", &s, &ma)?;
    ensure!(s == a, "serde round trip gives an unequal ResourceSet");
    check_as("to_as_resources", &a.to_as_resources().to_blocks().map_err(bad("to_blocks"))?, &ma.asn)?;
    check_ip("to_ip_resources_v4", Fam::V4, &a.to_ip_resources_v4().to_blocks().map_err(bad("to_blocks"))?, &ma.v4)?;
    check_ip("to_ip_resources_v6", Fam::V6, &a.to_ip_resources_v6().to_blocks().map_err(bad("to_blocks"))?, &ma.v6)?;

    // operations
    let eq = ma.eq(&mb);
    obs.label_if(eq, "equal");
    ensure!((a == b) == eq && (a != b) == !eq, "A == B is {}", a == b);
    ensure!(a.contains(&b) == mb.subset_of(&ma), "A.contains(B) = {}", a.contains(&b));
    ensure!(b.contains(&a) == ma.subset_of(&mb), "B.contains(A) = {}", b.contains(&a));
    obs.label_if(mb.subset_of(&ma), "b-subset");
    check_set("A.union(B)", &a.union(&b), &ma.zip(&mb, |x, y| x.union(y), |x, y| x.union(y)))?;
    check_set("A.intersection(B)", &a.intersection(&b), &ma.zip(&mb, |x, y| x.intersection(y), |x, y| x.intersection(y)))?;
    check_set("B.intersection(A)", &b.intersection(&a), &ma.zip(&mb, |x, y| x.intersection(y), |x, y| x.intersection(y)))?;
    let diff: ResourceDiff = a.difference(&b);
    let added = ma.zip(&mb, |x, y| x.difference(y), |x, y| x.difference(y));
    let removed = mb.zip(&ma, |x, y| x.difference(y), |x, y| x.difference(y));
    ensure!(diff.is_empty() == eq, "ResourceDiff::is_empty() = {} but A == B is {}", diff.is_empty(), eq);
    let _ = diff.to_string();
    let dj = serde_json::to_value(&diff).map_err(bad("serialize ResourceDiff"))?;
    let djs = dj.to_string();
    for (key, m) in [("added", &added), ("removed", &removed)] {
        let part: ResourceSet = serde_json::from_value(dj[key].clone())
            .map_err(|e| Fail::sig(serde_sig(&djs), format!("ResourceDiff.{} {} does not parse back: {}", key, dj[key], e)))?;
        check_set(&format!("A.difference(B).{}", key), &part, m)?;
    }
    let back: ResourceDiff = serde_json::from_value(dj.clone()).map_err(|e| Fail::sig(serde_sig(&djs), format!("ResourceDiff JSON {} does not parse back: {}", dj, e)))?;
    ensure!(back == diff, "ResourceDiff serde round trip gives an unequal value");

    // membership
    for (lo, hi) in probe_blocks(Fam::As, &[], &[&val_model(&c.a.asn), &val_model(&c.b.asn)]) {
        for p in [lo as u32, hi as u32] {
            ensure!(a.contains_asn(asn(p)) == ma.asn.contains(p), "ResourceSet::contains_asn({}) on {:?}", p, ma.asn.ranges());
        }
    }
    for (fam, blocks) in [(Fam::V4, &c.a.v4), (Fam::V6, &c.a.v6)] {
        for (plo, phi) in probe_blocks(fam, &[], &[&val_model(blocks)]) {
            for (pa, len) in roa_probes(fam, plo, phi) {
                let base = to_addr(fam, pa, pa).0;
                let (rl, rh) = iset::prefix_range(base, len);
                let roa = RoaIpAddress::new(Prefix::new(addr(base), len), None);
                // a RoaIpAddress carries no family: covered by either family's blocks
                let exp = ma.v4.contains_range(rl, rh) || ma.v6.contains_range(rl, rh);
                ensure!(a.contains_roa_address(&roa) == exp, "contains_roa_address({:x}/{}) = {}", rl, len, !exp);
            }
        }
    }

    // RequestResourceLimit::apply_to
    let mut lim = RequestResourceLimit::new();
    let mut ok = true;
    let mut exp = TriModel { asn: ma.asn.clone(), v4: ma.v4.clone(), v6: ma.v6.clone() };
    if let Some(l) = &c.limit_asn {
        lim.with_asn(lib_as(l));
        exp.asn = as_model(l);
        ok &= exp.asn.is_subset(&ma.asn);
    }
    if let Some(l) = &c.limit_v4 {
        lim.with_ipv4(Ipv4Blocks::from(lib_ip(Fam::V4, l)));
        exp.v4 = ip_model(Fam::V4, l);
        ok &= exp.v4.is_subset(&ma.v4);
    }
    if let Some(l) = &c.limit_v6 {
        lim.with_ipv6(Ipv6Blocks::from(lib_ip(Fam::V6, l)));
        exp.v6 = ip_model(Fam::V6, l);
        ok &= exp.v6.is_subset(&ma.v6);
    }
    let none = c.limit_asn.is_none() && c.limit_v4.is_none() && c.limit_v6.is_none();
    ensure!(lim.is_empty() == none, "RequestResourceLimit::is_empty()");
    obs.label(if none { "limit-none" } else if ok { "limit-within" } else { "limit-exceeds" });
    // the limit's serde form parses back to an equal limit (an explicitly empty limit for a
    // type - "none of these" - must not turn into "no limit"), which then applies identically
    let js = serde_json::to_string(&lim).map_err(bad("RequestResourceLimit serialize"))?;
    let back: RequestResourceLimit = serde_json::from_str(&js)
        .map_err(|e| Fail::sig("c03:limit-serde", format!("RequestResourceLimit JSON {} does not parse back: {}", js, e)))?;
    ensure_sig!(
        back == lim && back.asn() == lim.asn() && back.ipv4() == lim.ipv4() && back.ipv6() == lim.ipv6() && back.is_empty() == none,
        "c03:limit-serde",
        "RequestResourceLimit {:?} comes back from its JSON form {} as {:?}", lim, js, back
    );
    // The same limit in the other spellings the deserialiser documents: the older member
    // names "v4" / "v6", and "none" for a type without limit. Such a document may be
    // refused, but it must never come back as a different limit.
    {
        let v: serde_json::Value = serde_json::from_str(&js).map_err(bad("limit JSON"))?;
        let obj = v.as_object().cloned().unwrap_or_default();
        for style in 0..3u8 {
            let mut o = serde_json::Map::new();
            for (k, val) in &obj {
                let k2 = match (style, k.as_str()) {
                    (0 | 2, "ipv4") => "v4",
                    (0 | 2, "ipv6") => "v6",
                    _ => k.as_str(),
                };
                o.insert(k2.to_string(), val.clone());
            }
            if style >= 1 {
                for (k, present) in [("asn", obj.contains_key("asn")), (if style == 2 { "v4" } else { "ipv4" }, obj.contains_key("ipv4")), (if style == 2 { "v6" } else { "ipv6" }, obj.contains_key("ipv6"))] {
                    if !present {
                        o.insert(k.to_string(), serde_json::Value::String("none".into()));
                    }
                }
            }
            let text = serde_json::Value::Object(o).to_string();
            match serde_json::from_str::<RequestResourceLimit>(&text) {
                Err(_) => obs.label("limit-legacy-json-refused"),
                Ok(b) => {
                    obs.label("limit-legacy-json-accepted");
                    ensure_sig!(
                        b == lim && b.asn() == lim.asn() && b.ipv4() == lim.ipv4() && b.ipv6() == lim.ipv6(),
                        "c03:limit-serde",
                        "RequestResourceLimit {:?} written as {} (older member names / \"none\") comes back as {:?}", lim, text, b
                    );
                }
            }
        }
    }
    let empty_limit = [c.limit_asn.as_ref(), c.limit_v4.as_ref(), c.limit_v6.as_ref()].iter().any(|l| l.map(|l| val_model(l).is_empty()).unwrap_or(false));
    obs.label_if(empty_limit, "limit-explicitly-empty");
    match (back.apply_to(&a), lim.apply_to(&a)) {
        (Ok(x), Ok(y)) => ensure_sig!(x == y, "c03:limit-serde", "apply_to differs after a serde round trip of the limit: {} vs {}", x, y),
        (Err(_), Err(_)) => {}
        _ => return Err(Fail::sig("c03:limit-serde", format!("apply_to verdict differs after a serde round trip of the limit {}", lim))),
    }
    match lim.apply_to(&a) {
        Ok(s) => {
            ensure!(ok, "apply_to accepted a limit exceeding the set: limit {} set {}", lim, a);
            check_set("apply_to", &s, &exp)?;
        }
        Err(_) => ensure!(!ok, "apply_to refused a limit within the set: limit {} set {}", lim, a),
    }
    Ok(())
}

fn once(obs: &mut Obs) {
    // a label counts once per case
    obs.labels.sort();
    obs.labels.dedup();
}

fn run_rset(c: &RsetCase, obs: &mut Obs) -> CheckResult {
    let r = run_rset_inner(c, obs);
    once(obs);
    r
}

fn run_text(c: &TextCase, obs: &mut Obs) -> CheckResult {
    let r = run_text_inner(c, obs);
    once(obs);
    r
}

fn run_der(c: &DerCase, obs: &mut Obs) -> CheckResult {
    let r = run_der_inner(c, obs);
    once(obs);
    r
}

pub fn rset_sub() -> Box<dyn SubCheck> {
    PropSub {
        name: "rset",
        strategy: rset_strategy,
        cases: |t| t.pick(120000, 500000),
        run: run_rset,
        floors: &[("limit-within", 0.05), ("limit-exceeds", 0.10), ("limit-none", 0.10), ("touching-bound", 0.10), ("limit-explicitly-empty", 0.05)],
    }
    .boxed()
}

//------------ text ---------------------------------------------------------------------------------

#[derive(Clone, Debug, Serialize, Deserialize)]
pub enum TElem {
    Good(Blk),
    /// lo > hi
    Inverted { lo: U128, hi: U128, style: u8 },
    /// a well-formed element of another family
    Foreign { fam: Fam, blk: Blk },
    /// prefix whose address has host bits set
    HostBits { addr: U128, len: u8 },
    /// prefix length beyond the family
    LenOver { addr: U128, len: u8 },
    Junk(String),
}

#[derive(Clone, Debug, Serialize, Deserialize)]
pub struct TextCase {
    pub fam: Fam,
    pub elems: Vec<TElem>,
    pub style: u8,
}

const JUNK: &[&str] = &["AS", "as", "0", "1", "9", "42", "4294967296", "-", "/", ":", "::", ".", " ", "\t", "é", "\u{2003}", "+", "ffff", "0x", "g", "255", "256", "inherit", "none"];

fn hostile(fam: Fam) -> BoxedStrategy<TElem> {
    let others: Vec<Fam> = [Fam::As, Fam::V4, Fam::V6].into_iter().filter(|f| *f != fam).collect();
    let inverted = (sgen::value(fam), sgen::value(fam), any::<u8>()).prop_map(move |(x, y, style)| {
        let (mut lo, mut hi) = (x.max(y), x.min(y));
        if lo == hi {
            if lo < fam.max() { lo += 1 } else { hi -= 1 }
        }
        TElem::Inverted { lo: U128(lo), hi: U128(hi), style }
    });
    let foreign = (0usize..2, any::<u16>(), any::<u8>()).prop_flat_map(move |(i, _, form)| {
        let f = others[i];
        (sgen::value(f), 0u8..4).prop_map(move |(v, w)| TElem::Foreign { fam: f, blk: Blk::new(v, v.saturating_add(w as u128).min(f.max()), form) })
    });
    let junk = prop::collection::vec(prop::sample::select(JUNK.to_vec()), 1..5).prop_map(|v| TElem::Junk(v.concat()));
    if fam == Fam::As {
        return prop_oneof![3 => inverted, 2 => foreign, 2 => junk].boxed();
    }
    let bits = fam.bits() as u8;
    let hostbits = (sgen::value(fam), 0u8..bits).prop_map(move |(v, len)| TElem::HostBits { addr: U128(v | 1), len });
    let lenover = (sgen::value(fam), prop_oneof![Just(bits + 1), (bits + 1)..=255u8]).prop_map(|(v, len)| TElem::LenOver { addr: U128(v), len });
    prop_oneof![3 => inverted, 2 => foreign, 1 => hostbits, 1 => lenover, 2 => junk].boxed()
}

fn text_strategy(_: Tier) -> BoxedStrategy<TextCase> {
    sgen::fam_strategy()
        .prop_flat_map(|fam| {
            (sgen::seq(fam), prop::collection::vec((hostile(fam), any::<u16>()), 0..3), any::<u8>()).prop_map(move |(good, bad, style)| {
                let mut elems: Vec<TElem> = good.into_iter().take(6).map(TElem::Good).collect();
                for (e, pos) in bad {
                    let at = crate::gen::pick_idx(pos, elems.len() + 1);
                    elems.insert(at, e);
                }
                TextCase { fam, elems, style }
            })
        })
        .boxed()
}

#[derive(Default)]
struct Expect {
    must_err: bool,
    unknown: bool,
    lenient: bool,
    vals: Vec<(u128, u128)>,
}

fn render_elems(c: &TextCase) -> (Vec<String>, Expect, Expect) {
    let fam = c.fam;
    let mut typed = Expect::default();
    let mut untyped = Expect::default();
    let own_ip_elem = c.elems.iter().any(|e| matches!(e, TElem::Good(_) | TElem::Inverted { .. } | TElem::HostBits { .. } | TElem::LenOver { .. }));
    let mut out = Vec::new();
    for (i, e) in c.elems.iter().enumerate() {
        let style = c.style.wrapping_add(i as u8);
        match e {
            TElem::Good(b) => {
                out.push(elem_text(fam, b.lo.0, b.hi.0, b.form, style));
                typed.vals.push(b.pair());
                untyped.vals.push(b.pair());
            }
            TElem::Inverted { lo, hi, style } => {
                out.push(elem_text(fam, lo.0, hi.0, 2, *style));
                typed.lenient = true;
                untyped.lenient = true;
            }
            TElem::Foreign { fam: f, blk } => {
                out.push(elem_text(*f, blk.lo.0, blk.hi.0, blk.form, style));
                typed.must_err = true;
                if *f == Fam::As || fam == Fam::As || own_ip_elem {
                    untyped.must_err = true;
                } else {
                    untyped.unknown = true;
                }
            }
            TElem::HostBits { addr, len } => {
                out.push(format!("{}/{}", addr_text(fam, addr.0, style), len));
                let r = match fam {
                    Fam::V4 => {
                        let (a, b) = iset::prefix_range(addr.0 as u32, *len);
                        (a as u128, b as u128)
                    }
                    _ => iset::prefix_range(addr.0, *len),
                };
                for x in [&mut typed, &mut untyped] {
                    x.lenient = true;
                    x.vals.push(r);
                }
            }
            TElem::LenOver { addr, len } => {
                out.push(format!("{}/{}", addr_text(fam, addr.0, style), len));
                typed.must_err = true;
                untyped.must_err = true;
            }
            TElem::Junk(s) => {
                out.push(s.clone());
                typed.unknown = true;
                untyped.unknown = true;
            }
        }
    }
    (out, typed, untyped)
}

fn judge_as(what: &str, text: &str, r: Result<AsBlocks, String>, exp: &Expect, obs: &mut Obs) -> CheckResult {
    match r {
        Err(e) => {
            if !(exp.must_err || exp.unknown || exp.lenient) {
                return Err(super::text_rejected(Fam::As, what, text, e));
            }
            obs.label("rejected");
        }
        Ok(s) => {
            obs.label("accepted");
            canon_as(&format!("{}({:?})", what, text), &s)?;
            ensure_sig!(!exp.must_err, "text:accepted-invalid", "{} accepted {:?} as {}", what, text, s);
            let t = s.to_string();
            let back = AsBlocks::from_str(&t).map_err(|e| Fail::sig("roundtrip:text", format!("Display {:?} does not parse: {}", t, e)))?;
            ensure!(back == s, "Display -> from_str of {:?} gives an unequal set", t);
            if !exp.unknown {
                let m = ISet::from_ranges(exp.vals.iter().map(|&(a, b)| (a as u32, b as u32)));
                check_as(&format!("{}({:?})", what, text), &s, &m)?;
            }
        }
    }
    Ok(())
}

fn judge_ip(what: &str, fam: Fam, text: &str, r: Result<IpBlocks, String>, exp: &Expect, obs: &mut Obs) -> CheckResult {
    match r {
        Err(e) => {
            if !(exp.must_err || exp.unknown || exp.lenient) {
                return Err(super::text_rejected(fam, what, text, e));
            }
            obs.label("rejected");
        }
        Ok(s) => {
            obs.label("accepted");
            ensure_sig!(!exp.must_err, "text:accepted-invalid", "{} accepted {:?}", what, text);
            if exp.unknown {
                // only the canonical form of whatever it was taken for
                if let Err(f) = canon_ip(&format!("{}({:?})", what, text), Fam::V6, &s) {
                    return Err(f);
                }
            } else {
                let m = ISet::from_ranges(exp.vals.iter().map(|&(a, b)| to_addr(fam, a, b)));
                check_ip(&format!("{}({:?})", what, text), fam, &s, &m)?;
                let t = if fam == Fam::V4 { s.as_v4().to_string() } else { s.as_v6().to_string() };
                let back = typed_from_str(fam, &t).map_err(|e| {
                    let sig = if fam == Fam::V6 && t.contains('.') { "roundtrip:v6-dotted-quad" } else { "roundtrip:text" };
                    Fail::sig(sig, format!("Display {:?} does not parse: {}", t, e))
                })?;
                ensure!(back == s, "Display -> from_str of {:?} gives an unequal set", t);
            }
        }
    }
    Ok(())
}

fn run_text_inner(c: &TextCase, obs: &mut Obs) -> CheckResult {
    let fam = c.fam;
    let (elems, typed, untyped) = render_elems(c);
    let text = join_elems(&elems, c.style);
    let good: Vec<(u128, u128)> = c.elems.iter().filter_map(|e| if let TElem::Good(b) = e { Some(b.pair()) } else { None }).collect();
    let cls = classify(fam, &good);
    obs.label(fam.label());
    obs.nontrivial_if(cls.nontrivial || typed.lenient || typed.must_err);
    obs.label(if typed.must_err { "must-reject" } else if typed.unknown { "junk" } else if typed.lenient { "lenient" } else { "all-good" });
    obs.label_if(c.elems.iter().any(|e| matches!(e, TElem::Inverted { .. })), "inverted");
    obs.label_if(c.elems.iter().any(|e| matches!(e, TElem::Foreign { .. })), "mixed-family");
    let js = serde_json::to_string(&text).unwrap();
    let s = |e: &dyn std::fmt::Display| e.to_string();
    if fam == Fam::As {
        judge_as("AsBlocks::from_str", &text, AsBlocks::from_str(&text).map_err(|e| s(&e)), &typed, obs)?;
        judge_as("AsBlocks deserialize", &text, serde_json::from_str::<AsBlocks>(&js).map_err(|e| s(&e)), &typed, obs)?;
        if text != "inherit" {
            let r = AsResources::from_str(&text).map_err(|e| s(&e)).and_then(|r| r.to_blocks().map_err(|e| s(&e)));
            judge_as("AsResources::from_str", &text, r, &typed, obs)?;
        }
        let r = ResourceSet::from_strs(&text, "", "").map(|r| r.asn().clone()).map_err(|e| s(&e));
        judge_as("ResourceSet::from_strs", &text, r, &typed, obs)?;
    } else {
        judge_ip("Ipv4Blocks/Ipv6Blocks::from_str", fam, &text, typed_from_str(fam, &text), &typed, obs)?;
        judge_ip("Ipv4Blocks/Ipv6Blocks deserialize", fam, &text, typed_from_json(fam, &js), &typed, obs)?;
        judge_ip("IpBlocks::from_str", fam, &text, IpBlocks::from_str(&text).map_err(|e| s(&e)), &untyped, obs)?;
        let r = if fam == Fam::V4 {
            ResourceSet::from_strs("", &text, "").map(|r| (**r.ipv4()).clone())
        } else {
            ResourceSet::from_strs("", "", &text).map(|r| (**r.ipv6()).clone())
        };
        judge_ip("ResourceSet::from_strs", fam, &text, r.map_err(|e| s(&e)), &typed, obs)?;
    }
    Ok(())
}

pub fn text_sub() -> Box<dyn SubCheck> {
    PropSub {
        name: "text",
        strategy: text_strategy,
        cases: |t| t.pick(240000, 1500000),
        run: run_text,
        floors: &[("all-good", 0.15), ("inverted", 0.10), ("mixed-family", 0.08), ("accepted", 0.15), ("rejected", 0.20)],
    }
    .boxed()
}

//------------ der --------------------------------------------------------------------------------------

#[derive(Clone, Debug, Serialize, Deserialize)]
pub struct DerCase {
    pub fam: Fam,
    /// lo > hi: written as an inverted range
    pub blocks: Vec<Blk>,
    /// non-zero: the list is also offered to BER-mode decoders with the unused bits of
    /// its BIT STRINGs set from this seed (BER leaves their value open; they are not
    /// part of the address)
    #[serde(default)]
    pub ber_pad: u32,
}

/// Sets unused bits of every BIT STRING below `b` (a concatenation of TLVs with
/// definite lengths); returns how many bit strings had unused bits.
fn set_padding(b: &mut [u8], st: &mut u32) -> usize {
    let mut n = 0;
    let mut pos = 0;
    while pos + 2 <= b.len() {
        let tag = b[pos];
        let (len, hdr) = match b[pos + 1] {
            l if l < 0x80 => (l as usize, 2),
            0x81 if pos + 3 <= b.len() => (b[pos + 2] as usize, 3),
            0x82 if pos + 4 <= b.len() => (((b[pos + 2] as usize) << 8) | b[pos + 3] as usize, 4),
            _ => return n,
        };
        let (cs, ce) = (pos + hdr, pos + hdr + len);
        if ce > b.len() {
            return n;
        }
        if tag == 0x30 {
            n += set_padding(&mut b[cs..ce], st);
        } else if tag == 0x03 && len >= 2 {
            let unused = b[cs];
            if (1..=7).contains(&unused) {
                *st = st.wrapping_mul(1_664_525).wrapping_add(1_013_904_223);
                let mask = (1u8 << unused) - 1;
                let mut bits = (*st >> 16) as u8 & mask;
                if bits == 0 {
                    bits = 1;
                }
                b[ce - 1] |= bits;
                n += 1;
            }
        }
        pos = ce;
    }
    n
}

fn der_strategy(_: Tier) -> BoxedStrategy<DerCase> {
    sgen::fam_strategy()
        .prop_flat_map(|fam| {
            (sgen::seq(fam), 0u8..10, prop::collection::vec(0u8..8, 12), prop_oneof![Just(0u32), any::<u32>()]).prop_map(move |(mut blocks, how, mask, ber_pad)| {
                if how >= 4 {
                    for (b, m) in blocks.iter_mut().zip(mask) {
                        if m == 0 || (how == 9 && m < 4) {
                            if b.lo.0 == b.hi.0 {
                                if b.lo.0 < fam.max() { b.lo.0 += 1 } else { b.hi.0 -= 1 }
                            } else {
                                std::mem::swap(&mut b.lo, &mut b.hi);
                            }
                        }
                    }
                }
                DerCase { fam, blocks, ber_pad }
            })
        })
        .boxed()
}

fn run_der_inner(c: &DerCase, obs: &mut Obs) -> CheckResult {
    let fam = c.fam;
    for b in &c.blocks {
        ensure!(b.lo.0 <= fam.max() && b.hi.0 <= fam.max(), "case outside the domain: {:?}", b);
    }
    let valid: Vec<Blk> = c.blocks.iter().copied().filter(|b| b.lo.0 <= b.hi.0).collect();
    let inverted = valid.len() != c.blocks.len();
    let cls = classify(fam, &vals(&valid));
    label_class(obs, fam, &cls);
    obs.label_if(inverted, "inverted");
    obs.nontrivial_if(inverted);
    let canonical_input = !inverted && iset::check_canonical(&vals(&c.blocks)).is_ok();
    obs.label_if(canonical_input, "canonical-input");
    let mut verdict = |name: &str, accepted: bool, err: String| -> CheckResult {
        if accepted {
            obs.label("der-accepted");
        } else {
            ensure!(!canonical_input, "{} rejected a canonical block list: {}", name, err);
            obs.label("der-rejected");
        }
        Ok(())
    };
    if fam == Fam::As {
        let m = as_model(&valid);
        let raw = der_as_list(&c.blocks);
        for (name, r) in [
            ("AsBlocks::take_from", dec_as_blocks(&raw)),
            ("AsResources::take_from", dec_as_resources(&raw).and_then(|r| r.to_blocks().map_err(|e| e.to_string()))),
        ] {
            match r {
                Ok(s) => {
                    check_as(name, &s, &m)?;
                    verdict(name, true, String::new())?;
                }
                Err(e) => verdict(name, false, e)?,
            }
        }
    } else {
        let m = ip_model(fam, &valid);
        let raw = der_ip_list(fam, &c.blocks);
        let fams = if c.blocks.is_empty() {
            None
        } else {
            Some(dec_ip_families(&raw, fam).and_then(|(v4, v6)| {
                let own = if fam == Fam::V4 { v4 } else { v6 };
                own.ok_or_else(|| "family missing".to_string())?.to_blocks().map_err(|e| e.to_string())
            }))
        };
        let mut entries = vec![
            ("IpBlocks::take_from", dec_ip_blocks(&raw, None)),
            ("IpBlocks::take_from_with_family", dec_ip_blocks(&raw, Some(fam))),
            ("IpResources::take_from", dec_ip_resources(&raw, fam).and_then(|r| r.to_blocks().map_err(|e| e.to_string()))),
        ];
        if let Some(f) = fams {
            entries.push(("IpResources::take_families_from", f));
        }
        for (name, r) in entries {
            match r {
                Ok(s) => {
                    check_ip(name, fam, &s, &m)?;
                    verdict(name, true, String::new())?;
                }
                Err(e) => verdict(name, false, e)?,
            }
        }
        // The same list as a BER writer may put it: unused bits of the BIT STRINGs not
        // zero. A decoder in BER mode may refuse it; what it returns is the same set.
        if c.ber_pad != 0 && !c.blocks.is_empty() {
            let mut padded = raw.clone();
            let mut st = c.ber_pad;
            if set_padding(&mut padded, &mut st) > 0 {
                for (name, r) in dec_ip_ber(&padded, fam) {
                    match r {
                        Ok(s) => {
                            obs.label("ber-padding-accepted");
                            check_ip(name, fam, &s, &m).map_err(|mut f| {
                                f.msg = format!("{} (BIT STRINGs with non-zero unused bits: {:02x?})", f.msg, padded);
                                f
                            })?;
                        }
                        Err(_) => obs.label("ber-padding-refused"),
                    }
                }
            }
        }
    }
    Ok(())
}

pub fn der_sub() -> Box<dyn SubCheck> {
    PropSub {
        name: "der",
        strategy: der_strategy,
        cases: |t| t.pick(160000, 1500000),
        run: run_der,
        floors: &[("inverted", 0.15), ("canonical-input", 0.05), ("bridging", 0.05)],
    }
    .boxed()
}

//------------ prefixes ----------------------------------------------------------------------------------

#[derive(Clone, Debug, Serialize, Deserialize)]
pub struct PfxCase {
    pub v6: bool,
    pub lo: U128,
    pub hi: U128,
}

fn pfx_strategy(_: Tier) -> BoxedStrategy<PfxCase> {
    any::<bool>()
        .prop_flat_map(|v6| {
            let fam = if v6 { Fam::V6 } else { Fam::V4 };
            let bits = fam.bits() as u8;
            prop_oneof![
                3 => (sgen::value(fam), sgen::value(fam)).prop_map(|(x, y)| (x.min(y), x.max(y))),
                2 => (sgen::value(fam), 0u8..=40).prop_map(move |(x, w)| (x, x.saturating_add((1u128 << w) - 1).min(fam.max()))),
                4 => (sgen::value(fam), 0u8..=bits, -1i8..=1, -1i8..=1).prop_map(move |(a, len, dl, dh)| {
                    let (lo, hi) = if v6 { iset::prefix_range(a, len) } else {
                        let (x, y) = iset::prefix_range(a as u32, len);
                        (x as u128, y as u128)
                    };
                    let adj = |v: u128, d: i8| match d { -1 => v.saturating_sub(1), 1 => v.saturating_add(1).min(fam.max()), _ => v };
                    let (l, h) = (adj(lo, dl), adj(hi, dh));
                    (l.min(h), l.max(h))
                }),
            ]
            .prop_map(move |(lo, hi)| PfxCase { v6, lo: U128(lo), hi: U128(hi) })
        })
        .boxed()
}

fn run_pfx(c: &PfxCase, obs: &mut Obs) -> CheckResult {
    let fam = if c.v6 { Fam::V6 } else { Fam::V4 };
    ensure!(c.lo.0 <= c.hi.0 && c.hi.0 <= fam.max(), "case outside the domain");
    let (lo, hi) = to_addr(fam, c.lo.0, c.hi.0);
    obs.label(fam.label());
    obs.label_if(c.lo.0 == 0 || c.hi.0 == fam.max(), "touching-bound");
    let n = check_prefixes(fam, lo, hi)?;
    obs.label(if n == 1 { "single-prefix" } else { "multi-prefix" });
    obs.nontrivial_if(n > 1);
    let minimal = match fam {
        Fam::V4 => iset::range_to_prefixes(c.lo.0 as u32, c.hi.0 as u32).len(),
        _ => iset::range_to_prefixes(lo, hi).len(),
    };
    obs.label_if(n == minimal, "minimal-decomposition");
    // range <-> prefix conversion
    let exp = iset::range_prefix_len(lo, hi);
    match AddressRange::new(addr(lo), addr(hi)).into_prefix() {
        Ok(p) => ensure!(
            exp == Some(p.addr_len()) && p.min().to_bits() == lo && p.max().to_bits() == hi,
            "into_prefix of {:x}-{:x} gives {:x}/{} (model {:?})", lo, hi, p.min().to_bits(), p.addr_len(), exp
        ),
        Err(r) => ensure!(
            exp.is_none() && r.min().to_bits() == lo && r.max().to_bits() == hi,
            "into_prefix of {:x}-{:x} refuses the prefix /{:?}", lo, hi, exp
        ),
    }
    let b = IpBlock::from((addr(lo), addr(hi)));
    ensure!(matches!(b, IpBlock::Prefix(_)) == exp.is_some(), "IpBlock::from(({:x}, {:x})) variant, model prefix {:?}", lo, hi, exp);
    ensure!(b.min().to_bits() == lo && b.max().to_bits() == hi, "IpBlock::from(({:x}, {:x})) bounds", lo, hi);
    if n == 1 {
        ensure!(exp.is_some(), "a single prefix for a range that is no prefix");
    }
    Ok(())
}

pub fn prefixes_sub() -> Box<dyn SubCheck> {
    PropSub {
        name: "prefixes",
        strategy: pfx_strategy,
        cases: |t| t.pick(240000, 3000000),
        run: run_pfx,
        floors: &[("multi-prefix", 0.30), ("single-prefix", 0.05), ("touching-bound", 0.10)],
    }
    .boxed()
}
