//! C03 exhaustive sub-checks: `constants`, `enum-build`, `enum-pairs`.
//!
//! Oracle here is a bitmap over the *atoms* of an 8-point domain (the points
//! and the gaps between non-neighbouring points); `iset` is cross-checked
//! against the same bitmap.

use super::util::*;
use super::{bad, dec_as_blocks, dec_ip_blocks, typed_from_str, typed_text};
use crate::engine::*;
use crate::iset::{self, ISet};
use rpki::repository::cert::Overclaim;
use rpki::repository::resources::{AsBlocks, AsResources, IpBlock, IpBlocks, IpResources, Ipv4Blocks, Ipv6Blocks, ResourceSet};
use serde::{Deserialize, Serialize};
use serde_json::json;
use std::str::FromStr;

const FAMS: [Fam; 3] = [Fam::As, Fam::V4, Fam::V6];
const DOMS: u8 = 4;

fn points(fam: Fam, dom: u8) -> [u128; 8] {
    let max = fam.max();
    let mid = if fam == Fam::V6 { 0xffff_0000_0000u128 } else { 1u128 << 31 };
    let mut p = [0u128; 8];
    for (i, x) in p.iter_mut().enumerate() {
        let i = i as u128;
        *x = match dom {
            0 => i,
            1 => max - 7 + i,
            2 => {
                if i < 4 { i } else { max - 7 + i }
            }
            _ => mid - 4 + i,
        };
    }
    p
}

/// Atoms as closed intervals in value space, ascending and contiguous; the
/// second vector maps point index -> atom index.
fn atoms(fam: Fam, dom: u8) -> (Vec<(u128, u128)>, [usize; 8]) {
    let p = points(fam, dom);
    let mut a = Vec::new();
    let mut idx = [0usize; 8];
    for i in 0..8 {
        if i > 0 && p[i] > p[i - 1] + 1 {
            a.push((p[i - 1] + 1, p[i] - 1));
        }
        idx[i] = a.len();
        a.push((p[i], p[i]));
    }
    (a, idx)
}

fn mask_ranges(atoms: &[(u128, u128)], mask: u16) -> Vec<(u128, u128)> {
    let mut out = Vec::new();
    let mut i = 0;
    while i < atoms.len() {
        if mask & (1 << i) != 0 {
            let s = i;
            while i + 1 < atoms.len() && mask & (1 << (i + 1)) != 0 {
                i += 1;
            }
            out.push((atoms[s].0, atoms[i].1));
        }
        i += 1;
    }
    out
}

/// The 36 blocks (i <= j) over the 8 points as (point i, point j).
fn block_pairs() -> Vec<(usize, usize)> {
    let mut v = Vec::new();
    for i in 0..8 {
        for j in i..8 {
            v.push((i, j));
        }
    }
    v
}

fn block_mask(idx: &[usize; 8], (i, j): (usize, usize)) -> u16 {
    let mut m = 0u16;
    for a in idx[i]..=idx[j] {
        m |= 1 << a;
    }
    m
}

fn as_set(r: &[(u128, u128)]) -> ISet<u32> {
    ISet::from_ranges(r.iter().map(|&(a, b)| (a as u32, b as u32)))
}

fn ip_set(fam: Fam, r: &[(u128, u128)]) -> ISet<u128> {
    ISet::from_ranges(r.iter().map(|&(a, b)| to_addr(fam, a, b)))
}

//------------ constants --------------------------------------------------------------------------

#[derive(Clone, Debug, Serialize, Deserialize)]
pub struct Unit {
    pub n: u8,
}

fn run_constants(_: &Unit, obs: &mut Obs) -> CheckResult {
    obs.nontrivial();
    // the model against a bitmap
    let n = iset::self_test(&[0, 1, 2, 3, 5, 254, 255]).map_err(|e| Fail::new(format!("iset self test: {}", e)))?;
    obs.evals(n);
    // AS
    let all = AsBlocks::all();
    check_as("AsBlocks::all()", &all, &ISet::full())?;
    check_as("AsBlocks::empty()", &AsBlocks::empty(), &ISet::empty())?;
    check_as("AsBlocks::default()", &AsBlocks::default(), &ISet::empty())?;
    let t = all.to_string();
    ensure!(AsBlocks::from_str(&t).map_err(bad("AsBlocks::all() text"))? == all, "AsBlocks::all() text round trip");
    let der = enc(bcder::encode::sequence(all.encode_ref()));
    ensure!(dec_as_blocks(&der).map_err(bad("AsBlocks::all() DER"))? == all, "AsBlocks::all() DER round trip");
    ensure!(all.contains_asn(asn(0)) && all.contains_asn(asn(u32::MAX)), "AsBlocks::all() membership");
    ensure!(all.contains(&AsBlocks::empty()) && all.contains(&all) && !AsBlocks::empty().contains(&all), "AsBlocks::all() containment");
    ensure!(AsBlocks::empty().asn_count() == 0, "asn_count of the empty set");
    let collected: AsBlocks = [rpki::repository::resources::AsBlock::from((asn(0), asn(u32::MAX)))].into_iter().collect();
    ensure!(collected == all, "AS0-AS4294967295 collected != AsBlocks::all()");
    guarded("asn-count:overflow", "AsBlocks::all().asn_count() (2^32 members, not representable)", || all.asn_count())?;
    for b in all.iter() {
        guarded("asn-count:overflow", "AsBlock::asn_count() of AS0-AS4294967295", || b.asn_count())?;
    }
    let near: AsBlocks = AsBlocks::from_str("AS1-AS4294967295").map_err(bad("AS1-AS4294967295"))?;
    ensure!(near.asn_count() == u32::MAX, "asn_count of AS1-AS4294967295 = {}", near.asn_count());
    // IP
    for fam in [Fam::V4, Fam::V6] {
        let all = IpBlocks::all();
        check_ip("IpBlocks::all()", fam, &all, &ISet::full())?;
        check_ip("IpBlocks::empty()", fam, &IpBlocks::empty(), &ISet::empty())?;
        let t = typed_text(fam, &all);
        ensure!(t == if fam == Fam::V4 { "0.0.0.0/0" } else { "::/0" }, "Display of all(): {}", t);
        ensure!(typed_from_str(fam, &t).map_err(bad("all() text"))? == all, "all() text round trip");
        ensure!(dec_ip_blocks(&enc(all.encode_ref()), Some(fam)).map_err(bad("all() DER"))? == all, "all() DER round trip");
        let (lo, hi) = to_addr(fam, 0, fam.max());
        ensure!(all.contains_block(IpBlock::from((addr(lo), addr(hi)))), "all() contains the whole space");
        check_prefixes(fam, lo, hi)?;
    }
    ensure!(*Ipv4Blocks::all() == IpBlocks::all() && *Ipv6Blocks::all() == IpBlocks::all(), "typed all()");
    ensure!(Ipv4Blocks::empty().is_empty() && Ipv6Blocks::empty().is_empty(), "typed empty()");
    // builders that were handed nothing denote the empty set ("missing"), however they were
    // obtained, and never turn into "inherit" by themselves
    use rpki::repository::resources::{AsBlocksBuilder, AsResourcesBuilder, IpBlocksBuilder, IpResourcesBuilder};
    for (what, r) in [
        ("AsResourcesBuilder::new()", AsResourcesBuilder::new().finalize()),
        ("AsResourcesBuilder::default()", AsResourcesBuilder::default().finalize()),
        ("AsResourcesBuilder::default() + blocks(|_| ())", { let mut b = AsResourcesBuilder::default(); b.blocks(|_| ()); b.finalize() }),
        ("AsResources::missing()", AsResources::missing()),
    ] {
        ensure_sig!(!r.is_inherited() && !r.is_present(), "c03:empty-builder", "{} is inherited={} present={}, expected the empty set", what, r.is_inherited(), r.is_present());
        check_as(what, &r.to_blocks().map_err(bad(what))?, &ISet::empty())?;
    }
    for (what, r) in [
        ("IpResourcesBuilder::new()", IpResourcesBuilder::new().finalize()),
        ("IpResourcesBuilder::default()", IpResourcesBuilder::default().finalize()),
        ("IpResourcesBuilder::default() + blocks(|_| ())", { let mut b = IpResourcesBuilder::default(); b.blocks(|_| ()); b.finalize() }),
        ("IpResources::missing()", IpResources::missing()),
    ] {
        ensure_sig!(!r.is_inherited() && !r.is_present(), "c03:empty-builder", "{} is inherited={} present={}, expected the empty set", what, r.is_inherited(), r.is_present());
        check_ip(what, Fam::V4, &r.to_blocks().map_err(bad(what))?, &ISet::empty())?;
    }
    {
        let mut b = AsResourcesBuilder::default();
        b.inherit();
        let mut c = IpResourcesBuilder::default();
        c.inherit();
        ensure!(b.finalize().is_inherited() && c.finalize().is_inherited() && AsResources::inherit().is_inherited() && IpResources::inherit().is_inherited(), "inherit() builders");
        ensure!(AsResources::inherit().to_blocks().is_err() && IpResources::inherit().to_blocks().is_err(), "to_blocks() of inherited resources must fail");
    }
    check_as("AsBlocksBuilder::default()", &AsBlocksBuilder::default().finalize(), &ISet::empty())?;
    check_ip("IpBlocksBuilder::default()", Fam::V6, &IpBlocksBuilder::default().finalize(), &ISet::empty())?;
    check_ip("IpBlocks::default()", Fam::V6, &IpBlocks::default(), &ISet::empty())?;
    // ResourceSet
    let (all, none) = (ResourceSet::all(), ResourceSet::empty());
    ensure!(all.contains(&none) && all.contains(&all) && !none.contains(&all) && none.is_empty() && !all.is_empty(), "ResourceSet::all()/empty()");
    ensure!(all.union(&none) == all && all.intersection(&none) == none && none == ResourceSet::default(), "ResourceSet identities");
    ensure!(all.difference(&all).is_empty() && !all.difference(&none).is_empty(), "ResourceSet::difference identities");
    let js = serde_json::to_string(&all).map_err(bad("serialize"))?;
    ensure!(serde_json::from_str::<ResourceSet>(&js).map_err(bad("ResourceSet::all() JSON"))? == all, "ResourceSet::all() serde round trip");
    Ok(())
}

pub fn constants_sub() -> Box<dyn SubCheck> {
    EnumSub { name: "constants", count: |_, _| 1, make: |_, _, _| Unit { n: 0 }, run: run_constants, exhaustive: true }.boxed()
}

//------------ enum-build -----------------------------------------------------------------------------

#[derive(Clone, Debug, Serialize, Deserialize)]
pub struct EnumBuild {
    pub fam: Fam,
    pub dom: u8,
    /// indices into the 36 blocks of the domain
    pub seq: Vec<u8>,
    /// also every extension of `seq` to at most 3 blocks
    pub expand: bool,
}

fn one_sequence(fam: Fam, dom: u8, seq: &[u8]) -> Result<bool, Fail> {
    let p = points(fam, dom);
    let (at, idx) = atoms(fam, dom);
    let bp = block_pairs();
    let mut mask = 0u16;
    let mut blocks = Vec::new();
    for (pos, &k) in seq.iter().enumerate() {
        let (i, j) = bp[k as usize];
        mask |= block_mask(&idx, (i, j));
        blocks.push(Blk::new(p[i], p[j], k.wrapping_mul(3).wrapping_add(pos as u8)));
    }
    let exp = mask_ranges(&at, mask);
    let vm = val_model(&blocks);
    ensure!(vm.ranges() == exp.as_slice(), "HARNESS: iset {:?} disagrees with the bitmap {:?}", vm.ranges(), exp);
    let cls = classify(fam, &vals(&blocks));
    let style = seq.iter().fold(0u8, |a, &k| a.wrapping_mul(7).wrapping_add(k));
    let text = list_text(fam, &blocks, style);
    let raw_canonical = iset::check_canonical(&vals(&blocks)).is_ok();
    if fam == Fam::As {
        let m = as_set(&exp);
        let s = lib_as(&blocks);
        check_as("AsBlocks::from_iter", &s, &m)?;
        let t = AsBlocks::from_str(&text).map_err(|e| super::text_rejected(fam, "AsBlocks::from_str", &text, e.to_string()))?;
        check_as("AsBlocks::from_str", &t, &m)?;
        ensure!(t == s, "parsed != collected");
        match dec_as_blocks(&der_as_list(&blocks)) {
            Ok(d) => check_as("AsBlocks::take_from(raw DER)", &d, &m)?,
            Err(e) => ensure!(!raw_canonical, "AsBlocks::take_from rejected canonical DER: {}", e),
        }
        let back = AsBlocks::from_str(&s.to_string()).map_err(bad("Display -> from_str"))?;
        ensure!(back == s, "Display round trip");
        if m.count().unwrap() <= u32::MAX as u128 {
            ensure!(s.asn_count() as u128 == m.count().unwrap(), "asn_count() = {} for {:?}", s.asn_count(), m.ranges());
        } else {
            guarded("asn-count:overflow", "asn_count() of a set with 2^32 members", || s.asn_count())?;
        }
        for (q, &x) in p.iter().enumerate() {
            let exp_in = mask & (1 << idx[q]) != 0;
            ensure!(s.contains_asn(asn(x as u32)) == exp_in, "contains_asn({}) on {:?}", x, m.ranges());
            ensure!(m.contains(x as u32) == exp_in, "HARNESS: iset contains");
        }
    } else {
        let m = ip_set(fam, &exp);
        let s = lib_ip(fam, &blocks);
        check_ip("IpBlocks::from_iter", fam, &s, &m)?;
        let t = typed_from_str(fam, &text).map_err(|e| super::text_rejected(fam, "Ipv4Blocks/Ipv6Blocks::from_str", &text, e))?;
        check_ip("Ipv4Blocks/Ipv6Blocks::from_str", fam, &t, &m)?;
        ensure!(t == s, "parsed != collected");
        match dec_ip_blocks(&der_ip_list(fam, &blocks), Some(fam)) {
            Ok(d) => check_ip("IpBlocks::take_from_with_family(raw DER)", fam, &d, &m)?,
            Err(e) => ensure!(!raw_canonical, "IpBlocks::take_from_with_family rejected canonical DER: {}", e),
        }
        let shown = typed_text(fam, &s);
        let back = typed_from_str(fam, &shown).map_err(|e| {
            let sig = if fam == Fam::V6 && shown.contains('.') { "roundtrip:v6-dotted-quad" } else { "roundtrip:text" };
            Fail::sig(sig, format!("Display form {:?} does not parse back: {}", shown, e))
        })?;
        ensure!(back == s, "Display round trip");
        for &(i, j) in &bp {
            let bm = block_mask(&idx, (i, j));
            let (lo, hi) = to_addr(fam, p[i], p[j]);
            let blk = IpBlock::from((addr(lo), addr(hi)));
            ensure!(s.contains_block(blk) == (mask & bm == bm), "contains_block({:x}-{:x}) on {}", lo, hi, fmt_ip(m.ranges()));
            ensure!(s.intersects_block(blk) == (mask & bm != 0), "intersects_block({:x}-{:x}) on {}", lo, hi, fmt_ip(m.ranges()));
            ensure!(m.contains_range(lo, hi) == (mask & bm == bm) && m.intersects_range(lo, hi) == (mask & bm != 0), "HARNESS: iset range predicates");
        }
        for &(lo, hi) in m.ranges() {
            check_prefixes(fam, lo, hi)?;
        }
    }
    Ok(cls.nontrivial)
}

fn run_enum_build(c: &EnumBuild, obs: &mut Obs) -> CheckResult {
    ensure!(c.dom < DOMS && c.seq.len() <= 3 && c.seq.iter().all(|&k| k < 36), "bad enumeration case");
    let mut seqs: Vec<Vec<u8>> = vec![c.seq.clone()];
    if c.expand {
        let mut level = vec![c.seq.clone()];
        while level[0].len() < 3 {
            let mut next = Vec::new();
            for s in &level {
                for k in 0..36u8 {
                    let mut t = s.clone();
                    t.push(k);
                    next.push(t);
                }
            }
            seqs.extend(next.iter().cloned());
            level = next;
        }
    }
    let mut nt = 0u64;
    for s in &seqs {
        match one_sequence(c.fam, c.dom, s) {
            Ok(true) => nt += 1,
            Ok(false) => {}
            Err(f) => {
                let case = json!({"fam": c.fam, "dom": c.dom, "seq": s, "expand": false});
                return Err(Fail { sig: f.sig, msg: f.msg, replay_case: Some(case) });
            }
        }
    }
    obs.evals(seqs.len() as u64 - 1);
    obs.bulk_nontrivial = nt;
    obs.label(c.fam.label());
    Ok(())
}

fn make_enum_build(_: Tier, _: u64, idx: u64) -> EnumBuild {
    let per = 37u64;
    let combo = idx / per;
    let fam = FAMS[(combo / DOMS as u64) as usize];
    let dom = (combo % DOMS as u64) as u8;
    let r = idx % per;
    if r == 0 {
        EnumBuild { fam, dom, seq: vec![], expand: false }
    } else {
        EnumBuild { fam, dom, seq: vec![(r - 1) as u8], expand: true }
    }
}

pub fn enum_build_sub() -> Box<dyn SubCheck> {
    EnumSub { name: "enum-build", count: |_, _| 3 * DOMS as u64 * 37, make: make_enum_build, run: run_enum_build, exhaustive: true }.boxed()
}

//------------ enum-pairs -----------------------------------------------------------------------------

#[derive(Clone, Debug, Serialize, Deserialize)]
pub struct EnumPair {
    pub fam: Fam,
    pub dom: u8,
    pub a: u16,
    /// None: every representable set of the domain
    pub b: Option<u16>,
}

/// Masks denoting sets that can be written with blocks over the domain
/// points: a gap atom needs both neighbouring points.
fn valid_masks(fam: Fam, dom: u8) -> Vec<u16> {
    let (at, _) = atoms(fam, dom);
    let n = at.len();
    (0..(1u32 << n))
        .map(|m| m as u16)
        .filter(|&m| {
            (0..n).all(|i| {
                // a gap atom (more than one item: not a domain point) needs both neighbours
                let gap = at[i].0 != at[i].1;
                !gap || m & (1 << i) == 0 || (i > 0 && i + 1 < n && m & (1 << (i - 1)) != 0 && m & (1 << (i + 1)) != 0)
            })
        })
        .collect()
}

fn blocks_of(ranges: &[(u128, u128)], rev: bool, form: u8) -> Vec<Blk> {
    let mut v: Vec<Blk> = ranges.iter().enumerate().map(|(i, &(a, b))| Blk::new(a, b, form.wrapping_add(i as u8))).collect();
    if rev {
        v.reverse();
    }
    v
}

fn one_pair(fam: Fam, dom: u8, am: u16, bm: u16) -> Result<bool, Fail> {
    let (at, _) = atoms(fam, dom);
    let r = |m: u16| mask_ranges(&at, m);
    let (ra, rb) = (r(am), r(bm));
    let (ba, bb) = (blocks_of(&ra, am & 1 == 1, am as u8), blocks_of(&rb, bm & 2 == 2, bm as u8));
    let (eq, sub) = (am == bm, bm & !am == 0);
    let (u, i, dab, dba) = (r(am | bm), r(am & bm), r(am & !bm), r(bm & !am));
    // the model against the bitmap
    {
        let (ma, mb) = (val_model(&ba), val_model(&bb));
        ensure!(
            ma.union(&mb).ranges() == u.as_slice()
                && ma.intersection(&mb).ranges() == i.as_slice()
                && ma.difference(&mb).ranges() == dab.as_slice()
                && mb.is_subset(&ma) == sub,
            "HARNESS: iset disagrees with the bitmap on {:?} / {:?}", ra, rb
        );
    }
    if fam == Fam::As {
        let (a, b) = (lib_as(&ba), lib_as(&bb));
        check_as("A", &a, &as_set(&ra))?;
        check_as("B", &b, &as_set(&rb))?;
        ensure!((a == b) == eq, "A == B is {} for {:?} / {:?}", a == b, ra, rb);
        ensure!(a.contains(&b) == sub, "A.contains(B) = {} for {:?} / {:?}", !sub, ra, rb);
        check_as("A.union(B)", &a.union(&b), &as_set(&u))?;
        check_as("A.intersection(B)", &a.intersection(&b), &as_set(&i))?;
        check_as("A.difference(B)", &a.difference(&b), &as_set(&dab))?;
        check_as("B.difference(A)", &b.difference(&a), &as_set(&dba))?;
        let claim = AsResources::blocks(b.clone());
        match a.verify_issued(&claim, Overclaim::Refuse) {
            Ok(s) => {
                ensure!(sub, "verify_issued(Refuse) accepted an overclaim: {:?} / {:?}", ra, rb);
                check_as("verify_issued(Refuse)", &s, &as_set(&rb))?;
            }
            Err(_) => ensure!(!sub, "verify_issued(Refuse) refused a covered claim: {:?} / {:?}", ra, rb),
        }
        check_as("verify_issued(Trim)", &a.verify_issued(&claim, Overclaim::Trim).map_err(bad("Trim"))?, &as_set(&i))?;
    } else {
        let (a, b) = (lib_ip(fam, &ba), lib_ip(fam, &bb));
        check_ip("A", fam, &a, &ip_set(fam, &ra))?;
        check_ip("B", fam, &b, &ip_set(fam, &rb))?;
        ensure!((a == b) == eq, "A == B is {} for {:?} / {:?}", a == b, ra, rb);
        ensure!(a.contains(&b) == sub, "A.contains(B) = {} for {:?} / {:?}", !sub, ra, rb);
        check_ip("A.union(B)", fam, &a.union(&b), &ip_set(fam, &u))?;
        check_ip("A.intersection(B)", fam, &a.intersection(&b), &ip_set(fam, &i))?;
        check_ip("A.difference(B)", fam, &a.difference(&b), &ip_set(fam, &dab))?;
        check_ip("B.difference(A)", fam, &b.difference(&a), &ip_set(fam, &dba))?;
        let claim = IpResources::blocks(b.clone());
        match a.verify_issued(&claim, Overclaim::Refuse) {
            Ok(s) => {
                ensure!(sub, "verify_issued(Refuse) accepted an overclaim: {:?} / {:?}", ra, rb);
                check_ip("verify_issued(Refuse)", fam, &s, &ip_set(fam, &rb))?;
            }
            Err(_) => ensure!(!sub, "verify_issued(Refuse) refused a covered claim: {:?} / {:?}", ra, rb),
        }
        let s = a.verify_issued(&claim, Overclaim::Trim).map_err(|_| Fail::new("verify_issued(Trim) failed"))?;
        check_ip("verify_issued(Trim)", fam, &s, &ip_set(fam, &i))?;
    }
    Ok(am != 0 && bm != 0 && am & bm != 0 && !eq)
}

fn run_enum_pairs(c: &EnumPair, obs: &mut Obs) -> CheckResult {
    ensure!(c.dom < DOMS, "bad enumeration case");
    let bs: Vec<u16> = match c.b {
        Some(b) => vec![b],
        None => valid_masks(c.fam, c.dom),
    };
    let mut nt = 0u64;
    for &b in &bs {
        match one_pair(c.fam, c.dom, c.a, b) {
            Ok(true) => nt += 1,
            Ok(false) => {}
            Err(f) => {
                let case = json!({"fam": c.fam, "dom": c.dom, "a": c.a, "b": b});
                return Err(Fail { sig: f.sig, msg: f.msg, replay_case: Some(case) });
            }
        }
    }
    obs.evals(bs.len() as u64 - 1);
    obs.bulk_nontrivial = nt;
    obs.label(c.fam.label());
    Ok(())
}

fn pair_layout() -> Vec<(Fam, u8, Vec<u16>)> {
    let mut v = Vec::new();
    for fam in FAMS {
        for dom in 0..DOMS {
            v.push((fam, dom, valid_masks(fam, dom)));
        }
    }
    v
}

fn count_enum_pairs(_: Tier, _: u64) -> u64 {
    pair_layout().iter().map(|(_, _, m)| m.len() as u64).sum()
}

fn make_enum_pairs(_: Tier, _: u64, idx: u64) -> EnumPair {
    let mut rest = idx;
    for (fam, dom, masks) in pair_layout() {
        if rest < masks.len() as u64 {
            return EnumPair { fam, dom, a: masks[rest as usize], b: None };
        }
        rest -= masks.len() as u64;
    }
    unreachable!("index beyond the enumeration")
}

pub fn enum_pairs_sub() -> Box<dyn SubCheck> {
    EnumSub { name: "enum-pairs", count: count_enum_pairs, make: make_enum_pairs, run: run_enum_pairs, exhaustive: true }.boxed()
}
