//! C14 — manifest entries cannot name anything outside the publication point.
//!
//! Manifest eContent is written by the independent encoder (`der.rs`) with
//! hostile file names, hash bit strings of any length and times in either
//! order, wrapped in a CMS with a real EE certificate. `Manifest::decode` is
//! compared with the reference predicate `^[A-Za-z0-9_-]+\.[A-Za-z]{3}$`;
//! for every decoded manifest the accessors are checked against what was
//! encoded.

use std::str::FromStr;
use std::sync::OnceLock;

use bytes::Bytes;
use proptest::prelude::*;
use rpki::crypto::DigestAlgorithm;
use rpki::repository::manifest::{Manifest, ManifestContent, ManifestHash};
use rpki::uri;
use serde::{Deserialize, Serialize};
use serde_json::json;

use crate::c02::{self, build_ee, lib_time, wide_window, AsRes, EeFault, EeSpec, Res};
use crate::der::{self, oids, Cms, CmsOpts, MftEntry, TimeEnc};
use crate::engine::*;
use crate::keys;

pub const RULE: &str = "names: manifests with 0..300 entries written by der.rs; file names from the classes {valid, empty, \
no dot, two dots, ../x.cer, a/b.cer, .cer, ., .., trailing dot, 2-/4-letter extension, digit in extension, space, %, NUL, \
non-ASCII, ~1 KiB long, leading/trailing separators}; hash BIT STRINGs of 0..64 octets with 0..7 unused bits (real \
SHA-256, truncated, extended, random); thisUpdate/nextUpdate in either order, GeneralizedTime or UTCTime; 5 base URIs with and \
without trailing slash; strict and relaxed decoding. Oracle: decode succeeds iff every name matches \
^[A-Za-z0-9_-]+\\.[A-Za-z]{3}$ and thisUpdate <= nextUpdate (acceptance is only demanded when both times are \
GeneralizedTime, as RFC 9286 requires); on success len()==iter().count()==entries, names/hashes byte-identical, \
iter_uris(base) does not panic, every URI re-parses, equals base-directory + name, has the base directory as parent() and \
base.is_parent_of(uri); ManifestHash::verify(data) is Ok iff the listed hash equals SHA-256(data) (aws-lc-rs). \
name-enum: complete enumeration of all names of length 0..=5 over the alphabet {a Z 7 - _ . / space NUL} as only entry and \
as second entry after a valid one. non-trivial = manifest with >= 2 entries of which >= 1 is hostile (names), each \
enumerated name (name-enum). Content entry point: the eContent is also decoded through ManifestContent::take_from in DER mode and in BER mode, and in BER dress (every name / hash / entry with a long-form length; entries of indefinite length) in BER mode; whatever any of these lets through is checked like a decoded manifest (names, order of the times, len() = entries iterated, URIs, hashes); iterator laws on iter() and iter_uris() (complete for lists up to 24 entries, count / skip / size_hint after advancing for all). name-octets: every octet value at nine kinds of position of a file name (complete). many-entries: 255 .. 131075 entries through ManifestContent::take_from and Manifest::decode (len() = entries iterated; refusal allowed beyond 4096). Hash kinds include the real hash with two octets changed by the same mask / exchanged / one bit flipped.";

pub const SIG_F13: &str = "mft-name-empty-base";

/// Reference predicate for RFC 9286 §4.2.2 file names.
pub fn name_ok(n: &[u8]) -> bool {
    let Some(dot) = n.iter().position(|&c| c == b'.') else { return false };
    dot >= 1
        && n[..dot].iter().all(|&c| c.is_ascii_alphanumeric() || c == b'-' || c == b'_')
        && n.len() == dot + 4
        && n[dot + 1..].iter().all(|c| c.is_ascii_alphabetic())
}

/// `.xyz`: empty base name with an otherwise valid extension (finding F13).
fn is_empty_base(n: &[u8]) -> bool {
    n.len() == 4 && n[0] == b'.' && n[1..].iter().all(|c| c.is_ascii_alphabetic())
}

const BASES: &[&str] = &[
    "rsync://example.com/mod/",
    "rsync://example.com/mod/dir",
    "rsync://example.com/mod/dir/",
    "rsync://EXAMPLE.com/Mod/a/b/",
    "rsync://h/m/x.y/",
];

fn ee_cert_der() -> &'static [u8] {
    static EE: OnceLock<Vec<u8>> = OnceLock::new();
    EE.get_or_init(|| {
        let (nb, na) = wide_window();
        let spec = EeSpec { key: 1, issuer: 0, v4: Res::Inherit, v6: Res::Inherit, asn: AsRes::Inherit, trim: false, nb, na, dress: Default::default() };
        build_ee(&spec, EeFault::None).to_captured().into_bytes().to_vec()
    })
}

/// CMS wrapper around manifest eContent. `Manifest::decode` does not verify
/// the signature (that is C02), so a constant signature value is used.
fn wrap(content: &[u8]) -> Vec<u8> {
    let attrs = vec![
        der::attr_content_type(oids::CT_MFT),
        der::attr_message_digest(&keys::sha256(content)),
        der::attr_signing_time(TimeEnc::new(c02::ymd(2026, 1, 1), false)),
    ];
    Cms {
        content_type: oids::CT_MFT.to_vec(),
        content: content.to_vec(),
        certs: vec![ee_cert_der().to_vec()],
        crls: vec![],
        sid: keys::key_id_of_spki(&keys::pool().spki[1]).unwrap().to_vec(),
        attrs,
        signature: vec![0x5A; 256],
        opts: CmsOpts { sig_alg_null: true, ..CmsOpts::default() },
    }
    .encode()
}

//============ sub-check: names ==================================================

#[derive(Clone, Debug, Serialize, Deserialize)]
pub enum HashKind {
    /// SHA-256 of the entry's data
    Real,
    /// first `n` octets of the real hash (n < 32)
    Truncated(u8),
    /// real hash followed by `n` more octets (n >= 1)
    Extended(u8),
    /// `len` octets from a seed, `unused` unused bits
    Random { len: u8, unused: u8, seed: u8 },
    /// the real hash with octets `i` and `j` changed by the same mask (mask 0: exchanged),
    /// or with the single bit `mask` of octet `i` flipped when `i == j`
    Near { i: u8, j: u8, mask: u8 },
}

#[derive(Clone, Debug, Serialize, Deserialize)]
pub struct Entry {
    pub name: Vec<u8>,
    pub hash: HashKind,
    /// the file content the hash is checked against
    pub data: Vec<u8>,
}

impl Entry {
    fn hash_bytes(&self) -> (Vec<u8>, u8) {
        let real = keys::sha256(&self.data);
        match &self.hash {
            HashKind::Real => (real.to_vec(), 0),
            HashKind::Truncated(n) => (real[..(*n as usize).min(31)].to_vec(), 0),
            HashKind::Extended(n) => {
                let mut v = real.to_vec();
                v.extend((0..(*n).max(1)).map(|i| i.wrapping_mul(17)));
                (v, 0)
            }
            HashKind::Random { len, unused, seed } => {
                let mut v: Vec<u8> = (0..*len).map(|i| seed.wrapping_add(i.wrapping_mul(37))).collect();
                let unused = if v.is_empty() { 0 } else { *unused & 7 };
                der::zero_unused(&mut v, unused);
                (v, unused)
            }
            HashKind::Near { i, j, mask } => {
                let mut v = real.to_vec();
                let (i, j) = (*i as usize % 32, *j as usize % 32);
                if i == j {
                    v[i] ^= 1 << (mask % 8);
                } else if *mask != 0 {
                    v[i] ^= mask;
                    v[j] ^= mask;
                } else if v[i] != v[j] {
                    v.swap(i, j);
                } else {
                    v[i] ^= 0xAA;
                    v[j] ^= 0xAA;
                }
                (v, 0)
            }
        }
    }
}

#[derive(Clone, Debug, Serialize, Deserialize)]
pub struct Names {
    pub entries: Vec<Entry>,
    pub number: Vec<u8>,
    pub this_update: i64,
    pub next_update: i64,
    pub this_generalized: bool,
    pub next_generalized: bool,
    pub base: u8,
}

fn valid_name() -> BoxedStrategy<Vec<u8>> {
    ("[A-Za-z0-9_-]{1,16}", "[A-Za-z]{3}").prop_map(|(b, e)| format!("{}.{}", b, e).into_bytes()).boxed()
}

fn hostile_name() -> BoxedStrategy<Vec<u8>> {
    let fixed: Vec<&[u8]> = vec![
        b"", b"cer", b"abc", b"a.b.cer", b"../x.cer", b"a/b.cer", b"/a.cer", b"a.cer/", b".cer", b".", b"..", b"...",
        b"abc.", b"a..cer", b"a.ce", b"a.c", b"a.cerx", b"a.c3r", b"a.ce-", b"a b.cer", b" a.cer", b"a.cer ", b"a%2e.cer",
        b"a%2f..%2fb.cer", b"a\0.cer", b"a.cer\0", b"\0", b"a\n.cer", b"a\r\n.cer", b"a\\b.cer", b"a.CER.roa", b"~a.cer",
        b"a+b.cer", b"a,b.cer", b"a:b.cer", b"a@b.cer", b"a.c\xe9r", b"\xc3\xa4.cer", b"\xff.cer", b"a.cer.", b".a.cer",
        b"-.cer", b"_.cer", b"..cer", b"./a.cer", b"a/../b.cer", b"rsync://h/m/x.cer", b".CER", b".roa", b".mft", b".a", b".abcd",
    ];
    prop_oneof![
        10 => prop::sample::select(fixed).prop_map(|s| s.to_vec()),
        2 => prop::collection::vec(prop::sample::select(b"aZ7-_./ %\0\x80".to_vec()), 0..10),
        1 => prop::collection::vec(any::<u8>(), 0..12),
        // ~1 KiB names: valid, and broken at one position
        1 => (1000usize..1100, "[A-Za-z]{3}").prop_map(|(n, e)| { let mut v = vec![b'a'; n]; v.push(b'.'); v.extend(e.bytes()); v }),
        1 => (1000usize..1100, any::<u16>(), prop::sample::select(b"/. \0\x80%".to_vec())).prop_map(|(n, p, c)| {
            let mut v = vec![b'a'; n];
            v.extend_from_slice(b".cer");
            let i = crate::gen::pick_idx(p, n);
            v[i] = c;
            v
        }),
        // valid name with one character replaced or inserted
        3 => (valid_name(), any::<u16>(), prop::sample::select(b"/. \0\x80%+~".to_vec()), any::<bool>()).prop_map(|(mut v, p, c, ins)| {
            let i = crate::gen::pick_idx(p, v.len());
            if ins { v.insert(i, c) } else { v[i] = c }
            v
        }),
    ]
    .boxed()
}

fn hash_strategy() -> BoxedStrategy<HashKind> {
    prop_oneof![
        5 => Just(HashKind::Real),
        1 => (0u8..32).prop_map(HashKind::Truncated),
        1 => (1u8..33).prop_map(HashKind::Extended),
        3 => (prop_oneof![3 => 0u8..=64, 2 => Just(32u8)], 0u8..8, any::<u8>())
            .prop_map(|(len, unused, seed)| HashKind::Random { len, unused, seed }),
        2 => (0u8..32, 0u8..32, prop_oneof![Just(0u8), Just(1u8), any::<u8>()]).prop_map(|(i, j, mask)| HashKind::Near { i, j, mask }),
    ]
    .boxed()
}

fn entry_strategy(hostile_share: u32) -> BoxedStrategy<Entry> {
    (
        prop_oneof![(100 - hostile_share) => valid_name(), hostile_share => hostile_name()],
        hash_strategy(),
        prop::collection::vec(any::<u8>(), 0..12),
    )
        .prop_map(|(name, hash, data)| Entry { name, hash, data })
        .boxed()
}

fn names_strategy(_: Tier) -> BoxedStrategy<Names> {
    let entries = prop_oneof![
        // all valid
        4 => prop::collection::vec(entry_strategy(0), 0..8),
        // exactly one hostile among valid ones
        6 => (prop::collection::vec(entry_strategy(0), 1..8), entry_strategy(100), any::<u16>()).prop_map(|(mut v, h, p)| {
            let i = crate::gen::pick_idx(p, v.len() + 1);
            v.insert(i, h);
            v
        }),
        2 => prop::collection::vec(entry_strategy(30), 0..8),
        1 => prop::collection::vec(entry_strategy(1), 100..300),
        // repeated entries: the same name again right after itself and/or later on
        // (with the same or another hash); the statement does not ask for
        // unique names, but the reported length must still be the number of
        // entries the iterator yields
        2 => (prop::collection::vec(entry_strategy(0), 1..8), any::<u16>(), any::<u16>(), any::<bool>(), entry_strategy(0)).prop_map(|(mut v, p, q, adjacent, other)| {
            let i = crate::gen::pick_idx(p, v.len());
            let mut dup = v[i].clone();
            if q % 2 == 0 {
                dup.hash = other.hash;
            }
            let at = if adjacent { i + 1 } else { crate::gen::pick_idx(q, v.len() + 1) };
            v.insert(at, dup);
            v
        }),
    ];
    let times = prop_oneof![
        6 => (c02::ymd(2020, 1, 1)..c02::ymd(2080, 1, 1), 0i64..40 * 86_400).prop_map(|(t, d)| (t, t + d)),
        2 => (c02::ymd(2020, 1, 1)..c02::ymd(2080, 1, 1)).prop_map(|t| (t, t)),
        2 => (c02::ymd(2020, 1, 1)..c02::ymd(2080, 1, 1), 1i64..40 * 86_400).prop_map(|(t, d)| (t + d, t)),
        1 => (c02::ymd(2020, 1, 1)..c02::ymd(2080, 1, 1)).prop_map(|t| (t + 1, t)),
    ];
    (
        entries,
        prop::collection::vec(any::<u8>(), 1..=20),
        times,
        prop::bool::weighted(0.8),
        prop::bool::weighted(0.8),
        0u8..BASES.len() as u8,
    )
        .prop_map(|(entries, mut number, (this_update, next_update), tg, ng, base)| {
            number[0] &= 0x7f;
            Names { entries, number, this_update, next_update, this_generalized: tg, next_generalized: ng, base }
        })
        .boxed()
}

fn names_content(c: &Names) -> (Vec<u8>, Vec<(Vec<u8>, Vec<u8>, u8)>, TimeEnc, TimeEnc) {
    let enc: Vec<(Vec<u8>, Vec<u8>, u8)> = c.entries.iter().map(|e| { let (h, u) = e.hash_bytes(); (e.name.clone(), h, u) }).collect();
    let list: Vec<MftEntry> = enc.iter().map(|(n, h, u)| MftEntry { name: n.clone(), hash: h.clone(), unused: *u }).collect();
    let this = TimeEnc::new(c.this_update, c.this_generalized);
    let next = TimeEnc::new(c.next_update, c.next_generalized);
    (der::manifest_content(&c.number, this, next, &list, false), enc, this, next)
}

/// The manifest eContent of a case in BER dress: style 1 writes every file
/// name, hash and entry with a long-form length, style 2 gives the entries an
/// indefinite length. (Only a BER-mode decoder may accept these.)
fn ber_content(c: &Names, style: u8) -> Vec<u8> {
    let long = |tag: u8, body: &[u8]| -> Vec<u8> {
        let mut v = vec![tag];
        if body.len() < 256 {
            v.extend_from_slice(&[0x81, body.len() as u8]);
        } else {
            v.extend_from_slice(&[0x82, (body.len() >> 8) as u8, body.len() as u8]);
        }
        v.extend_from_slice(body);
        v
    };
    let mut list = Vec::new();
    for e in &c.entries {
        let (h, u) = e.hash_bytes();
        let mut bits = vec![u];
        bits.extend_from_slice(&h);
        if e.name.len() > 60_000 || bits.len() > 60_000 {
            return der::manifest_content(&c.number, TimeEnc::new(c.this_update, c.this_generalized), TimeEnc::new(c.next_update, c.next_generalized), &[], false);
        }
        if style == 1 {
            let body = [long(0x16, &e.name), long(0x03, &bits)].concat();
            list.extend_from_slice(&long(0x30, &body));
        } else {
            list.push(0x30);
            list.push(0x80);
            list.extend_from_slice(&der::ia5(&e.name));
            list.extend_from_slice(&der::tlv(0x03, &bits));
            list.extend_from_slice(&[0, 0]);
        }
    }
    der::seq(&[
        der::int_unsigned(&c.number),
        TimeEnc::new(c.this_update, c.this_generalized).encode(),
        TimeEnc::new(c.next_update, c.next_generalized).encode(),
        der::oid(oids::SHA256),
        der::tlv(0x30, &list),
    ])
}

/// Everything the statement says about a decoded manifest content.
fn check_content(
    what: &str,
    mc: &ManifestContent,
    c: &Names,
    enc: &[(Vec<u8>, Vec<u8>, u8)],
    base: &uri::Rsync,
    base_dir: &uri::Rsync,
) -> CheckResult {
    check_content_inner(mc, c, enc, base, base_dir).map_err(|f| Fail::sig(f.sig, format!("{}: {}", what, f.msg)))
}

fn check_content_inner(
    mc: &ManifestContent,
    c: &Names,
    enc: &[(Vec<u8>, Vec<u8>, u8)],
    base: &uri::Rsync,
    base_dir: &uri::Rsync,
) -> CheckResult {
    ensure_eq!(mc.len(), c.entries.len(), "len()");
    ensure_eq!(mc.is_empty(), c.entries.is_empty(), "is_empty()");
    let items = no_panic("FileListIter", || mc.iter().map(|f| f.into_pair()).collect::<Vec<_>>())?;
    ensure_eq!(items.len(), mc.len(), "number of items from iter() vs len()");
    for (i, (n, h)) in items.iter().enumerate() {
        ensure_eq!(n.as_ref(), enc[i].0.as_slice(), "file name {} as returned by iter()", i);
        ensure_eq!(h.as_ref(), enc[i].1.as_slice(), "hash {} as returned by iter()", i);
    }
    ensure!(mc.this_update() <= mc.next_update(), "this_update() after next_update()");
    ensure_eq!(mc.this_update(), lib_time(c.this_update), "this_update()");
    ensure_eq!(mc.next_update(), lib_time(c.next_update), "next_update()");
    let uris = no_panic("iter_uris", || mc.iter_uris(&base).collect::<Vec<_>>())?;
    ensure_eq!(uris.len(), c.entries.len(), "number of items from iter_uris()");
    for (i, (u, h)) in uris.iter().enumerate() {
        let name = &enc[i].0;
        let reparsed = uri::Rsync::from_str(u.as_str());
        ensure!(reparsed.as_ref().ok() == Some(u), "URI {} from iter_uris does not re-parse to itself", u);
        let mut want = base_dir.as_str().as_bytes().to_vec();
        want.extend_from_slice(name);
        ensure_eq!(u.as_slice(), want.as_slice(), "URI of entry {}", i);
        ensure!(u.parent().as_ref() == Some(&base_dir), "parent() of {} is {:?}, not the base directory {}", u, u.parent().map(|p| p.to_string()), base_dir);
        ensure!(base.is_parent_of(u), "base {} is not parent of {}", base, u);
        ensure!(base_dir.is_parent_of(u), "base directory {} is not parent of {}", base_dir, u);
        ensure!(!u.path_is_dir(), "URI {} names a directory", u);
        // hash verification
        let e = &c.entries[i];
        let real = keys::sha256(&e.data);
        let expect_ok = enc[i].1.as_slice() == real.as_slice() && enc[i].2 == 0;
        let undecided = enc[i].1.as_slice() == real.as_slice() && enc[i].2 != 0;
        let got = h.verify(&e.data).is_ok();
        ensure!(undecided || got == expect_ok, "ManifestHash::verify for entry {} ({:?}): {} expected {}", i, e.hash, got, expect_ok);
        // and against other data
        let mut other = e.data.clone();
        other.push(0);
        ensure!(h.verify(&other).is_err() || enc[i].1.as_slice() == keys::sha256(&other).as_slice(), "hash verifies against other data");
        ensure_eq!(h.as_slice(), enc[i].1.as_slice(), "ManifestHash::as_slice of entry {}", i);
        // a hash built from the listed bytes behaves the same
        let mh = ManifestHash::new(Bytes::copy_from_slice(&enc[i].1), DigestAlgorithm::sha256());
        ensure!(mh.verify(&e.data).is_ok() == got, "ManifestHash::new(..).verify differs");
    }
    // the reported length also equals what the iterators' adaptors say (count, last, nth, skip,
    // size_hint - before and after the iterator has been advanced)
    // (complete laws for lists of up to 24 entries; the counting adaptors for all)
    no_panic("FileListIter adaptors", || crate::iterlaws::check_debug("ManifestContent::iter()", "c14:iterator-laws", 24, || mc.iter()))??;
    no_panic("iter_uris adaptors", || crate::iterlaws::check_debug("ManifestContent::iter_uris()", "c14:iterator-laws", 24, || mc.iter_uris(base)))??;
    let n = c.entries.len();
    no_panic("FileListIter counting adaptors", || -> CheckResult {
        for k in [0usize, 1, n / 2, n] {
            if k > n {
                continue;
            }
            let mut it = mc.iter();
            for _ in 0..k {
                it.next();
            }
            let (lo, hi) = it.size_hint();
            ensure_sig!(lo <= n - k && hi.map(|h| h >= n - k).unwrap_or(true), "c14:iterator-laws",
                "iter().size_hint() = ({}, {:?}) after {} of {} entries", lo, hi, k, n);
            let cnt = it.count();
            ensure_sig!(cnt == n - k, "c14:iterator-laws", "iter().count() after {} next() calls = {}, {} entries remain (len() = {})", k, cnt, n - k, mc.len());
            let cnt = mc.iter().skip(k).count();
            ensure_sig!(cnt == n - k, "c14:iterator-laws", "iter().skip({}).count() = {}, expected {}", k, cnt, n - k);
            let cnt = mc.iter_uris(base).skip(k).count();
            ensure_sig!(cnt == n - k, "c14:iterator-laws", "iter_uris().skip({}).count() = {}, expected {}", k, cnt, n - k);
        }
        Ok(())
    })??;
    Ok(())
}

fn run_names(c: &Names, obs: &mut Obs) -> CheckResult {
    let (content, enc, this, next) = names_content(c);
    let bytes = wrap(&content);
    let bad: Vec<&Vec<u8>> = c.entries.iter().map(|e| &e.name).filter(|n| !name_ok(n)).collect();
    let names_ok = bad.is_empty();
    let order_ok = c.this_update <= c.next_update;
    // repeated names are neither required nor forbidden by the statement:
    // acceptance is not demanded for them, but what is accepted is checked
    let repeated = {
        let mut names: Vec<&Vec<u8>> = c.entries.iter().map(|e| &e.name).collect();
        names.sort();
        names.windows(2).any(|w| w[0] == w[1])
    };
    // Acceptance is demanded only where the statement and RFC 9286 leave no
    // room: nextUpdate strictly later than thisUpdate (4.2.1 "MUST be later";
    // equal times are neither required nor forbidden to decode — if they do,
    // "this-update is not after next-update" holds), and names no longer than
    // 255 octets (no length is promised to be accepted beyond what file
    // systems carry; what is accepted is still checked in full).
    let later = c.this_update < c.next_update;
    let long_name = c.entries.iter().any(|e| e.name.len() > 255);
    let should_decode = names_ok && later && !repeated && !long_name;
    let all_generalized = this.is_generalized() && next.is_generalized();

    obs.label(if names_ok { "names-valid" } else { "names-hostile" });
    obs.label(if order_ok { "this<=next" } else { "this>next" });
    obs.label_if(!all_generalized, "utctime");
    obs.label_if(c.entries.len() >= 100, "entries>=100");
    obs.label_if(repeated && names_ok, "name:repeated");
    obs.label_if(c.entries.iter().any(|e| is_empty_base(&e.name)), "name:.ext");
    obs.label_if(c.entries.iter().any(|e| e.name.contains(&b'/')), "name:slash");
    obs.label_if(c.entries.iter().any(|e| e.name.len() > 900), "name:long");
    obs.label_if(c.entries.iter().any(|e| !matches!(e.hash, HashKind::Real)), "hash:not-sha256");
    obs.nontrivial_if(c.entries.len() >= 2 && !names_ok);

    let mut decoded = Vec::new();
    for strict in [true, false] {
        let r = no_panic("Manifest::decode", || Manifest::decode(bytes.as_slice(), strict))?;
        match r {
            Ok(m) => {
                if !names_ok {
                    let msg = format!(
                        "Manifest::decode(strict={}) accepted a manifest with file name(s) that are not a single RFC 9286 segment: {:?}",
                        strict,
                        bad.iter().map(|n| String::from_utf8_lossy(n).into_owned()).collect::<Vec<_>>()
                    );
                    if bad.iter().all(|n| is_empty_base(n)) {
                        return Err(Fail::sig(SIG_F13, msg));
                    }
                    return Err(Fail::new(msg));
                }
                ensure!(order_ok, "Manifest::decode(strict={}) accepted thisUpdate {} after nextUpdate {}", strict, c.this_update, c.next_update);
                decoded.push(m);
            }
            Err(e) => {
                // acceptance is demanded for RFC 9286 conformant content only
                ensure!(
                    !(should_decode && all_generalized),
                    "Manifest::decode(strict={}) rejected a conformant manifest: {}", strict, e
                );
            }
        }
    }
    obs.label_if(!decoded.is_empty(), "decoded");
    let base = uri::Rsync::from_str(BASES[c.base as usize % BASES.len()]).map_err(|e| Fail::new(format!("base uri: {}", e)))?;
    let mut base_dir = base.clone();
    base_dir.path_into_dir();
    for m in &decoded {
        check_content("Manifest::decode", m.content(), c, &enc, &base, &base_dir)?;
    }

    // The content is also decodable on its own (ManifestContent::take_from is public, in DER
    // and in BER mode): the same rules hold for what that entry point lets through.
    let forms: [(&str, bcder::Mode, Vec<u8>); 4] = [
        ("ManifestContent::take_from (DER mode)", bcder::Mode::Der, content.clone()),
        ("ManifestContent::take_from (BER mode)", bcder::Mode::Ber, content.clone()),
        ("ManifestContent::take_from (BER mode, long-form lengths)", bcder::Mode::Ber, ber_content(c, 1)),
        ("ManifestContent::take_from (BER mode, indefinite-length entries)", bcder::Mode::Ber, ber_content(c, 2)),
    ];
    for (what, mode, bytes) in forms {
        let canonical = bytes == content;
        match no_panic(what, || mode.decode(bytes.as_slice(), ManifestContent::take_from))? {
            Ok(mc) => {
                ensure_sig!(names_ok, "c14:content-entry-point", "{} accepted file name(s) that are not a single RFC 9286 segment: {:?}",
                    what, bad.iter().map(|n| String::from_utf8_lossy(n).into_owned()).collect::<Vec<_>>());
                ensure_sig!(order_ok, "c14:content-entry-point", "{} accepted thisUpdate {} after nextUpdate {}", what, c.this_update, c.next_update);
                obs.label_if(!canonical, "ber-content-decoded");
                check_content(what, &mc, c, &enc, &base, &base_dir)?;
            }
            Err(e) => ensure_sig!(!(canonical && should_decode && all_generalized), "c14:content-entry-point", "{} rejected conformant content: {}", what, e),
        }
    }
    Ok(())
}

//============ sub-check: name-enum ===============================================

const ALPHABET: &[u8] = b"aZ7-_./ \0";
const MAX_LEN: u32 = 5;
const CHUNK: u64 = 128;

fn enum_total() -> u64 {
    (0..=MAX_LEN).map(|l| (ALPHABET.len() as u64).pow(l)).sum()
}

/// The `idx`-th name: all names of length 0, then length 1, ...
fn nth_name(mut idx: u64) -> Vec<u8> {
    let k = ALPHABET.len() as u64;
    let mut len = 0u32;
    while idx >= k.pow(len) {
        idx -= k.pow(len);
        len += 1;
    }
    let mut v = vec![0u8; len as usize];
    for i in (0..len as usize).rev() {
        v[i] = ALPHABET[(idx % k) as usize];
        idx /= k;
    }
    v
}

#[derive(Clone, Debug, Serialize, Deserialize)]
pub struct NameChunk {
    pub start: u64,
    pub len: u64,
}

fn enum_manifest(names: &[&[u8]]) -> Vec<u8> {
    let list: Vec<MftEntry> =
        names.iter().map(|n| MftEntry { name: n.to_vec(), hash: keys::sha256(n).to_vec(), unused: 0 }).collect();
    // nextUpdate a day after thisUpdate (RFC 9286 4.2.1 wants it later)
    let t = TimeEnc::new(c02::ymd(2026, 1, 1), true);
    let n = TimeEnc::new(c02::ymd(2026, 1, 2), true);
    wrap(&der::manifest_content(&[1], t, n, &list, false))
}

/// One file name through `Manifest::decode` (alone and behind a valid entry; strict and
/// relaxed) against the reference predicate, and `iter_uris` of whatever decodes.
fn check_name(name: &[u8], base: &uri::Rsync, one: serde_json::Value) -> CheckResult {
    let ok = name_ok(name);
    for second in [false, true] {
        let bytes = if second { enum_manifest(&[b"ok.cer", name]) } else { enum_manifest(&[name]) };
        for strict in [true, false] {
            let r = no_panic("Manifest::decode", || Manifest::decode(bytes.as_slice(), strict)).map_err(|f| f.with_case(one.clone()))?;
            if r.is_ok() != ok {
                let msg = format!(
                    "Manifest::decode(strict={}) {} file name {:?} (reference predicate: {})",
                    strict, if r.is_ok() { "accepts" } else { "rejects" }, String::from_utf8_lossy(name), ok
                );
                let sig = if is_empty_base(name) { SIG_F13 } else { "name-enum" };
                return Err(Fail::sig(sig, msg).with_case(one));
            }
            if let Ok(m) = r {
                let uris = no_panic("iter_uris", || m.content().iter_uris(base).collect::<Vec<_>>()).map_err(|f| f.with_case(one.clone()))?;
                let last = uris.last().map(|(u, _)| u.as_slice().to_vec()).unwrap_or_default();
                let mut want = b"rsync://example.com/mod/dir/".to_vec();
                want.extend_from_slice(name);
                if last != want || uris.len() != 1 + second as usize {
                    return Err(Fail::sig("name-enum", format!("iter_uris for {:?} yields {:?}", String::from_utf8_lossy(name), String::from_utf8_lossy(&last))).with_case(one));
                }
            }
        }
    }
    Ok(())
}

fn run_name_chunk(c: &NameChunk, obs: &mut Obs) -> CheckResult {
    let base = uri::Rsync::from_str(BASES[1]).unwrap();
    for idx in c.start..(c.start + c.len).min(enum_total()) {
        check_name(&nth_name(idx), &base, json!({ "start": idx, "len": 1 }))?;
    }
    let n = (c.start + c.len).min(enum_total()).saturating_sub(c.start);
    obs.evals(n.saturating_sub(1));
    obs.bulk_nontrivial = n;
    Ok(())
}

/// Every octet value at every kind of position of a file name (the character class of
/// RFC 9286 is a table with 256 entries).
#[derive(Clone, Debug, Serialize, Deserialize)]
pub struct NameOctet {
    pub octet: u8,
    /// Some: only this position
    pub only: Option<u8>,
}

fn run_name_octet(c: &NameOctet, obs: &mut Obs) -> CheckResult {
    let base = uri::Rsync::from_str(BASES[1]).unwrap();
    let b = c.octet;
    let spots: [(&[u8], &[u8]); 9] = [
        (b"", b"bc.roa"), (b"a", b"c.roa"), (b"ab", b".roa"), (b"", b".roa"), (b"abc.", b"oa"), (b"abc.r", b"a"), (b"abc.ro", b""),
        (b"abc", b"roa"), (b"abc.roa", b""),
    ];
    let mut n = 0;
    for (k, (pre, post)) in spots.iter().enumerate() {
        if c.only.is_some_and(|o| o as usize != k) {
            continue;
        }
        let mut name = pre.to_vec();
        name.push(b);
        name.extend_from_slice(post);
        check_name(&name, &base, json!({ "octet": b, "only": k }))?;
        n += 1;
    }
    obs.evals((n as u64).saturating_sub(1));
    obs.bulk_nontrivial = n as u64;
    Ok(())
}

//------------ many entries ----------------------------------------------------------------

/// Manifests with entry counts across the points where a counter kept in 8 or 16 bits
/// would wrap: `len()` is the number of entries `iter()` and `iter_uris()` yield.
#[derive(Clone, Debug, Serialize, Deserialize)]
pub struct ManyEntries {
    pub count: u32,
}

const MANY_COUNTS: [u32; 12] = [255, 256, 257, 4095, 4096, 65_534, 65_535, 65_536, 65_537, 70_000, 131_072, 131_075];

fn run_many(c: &ManyEntries, obs: &mut Obs) -> CheckResult {
    ensure!(c.count <= 300_000, "malformed case");
    let list: Vec<MftEntry> = (0..c.count)
        .map(|i| MftEntry { name: format!("f{:x}.roa", i).into_bytes(), hash: keys::sha256(&i.to_be_bytes()).to_vec(), unused: 0 })
        .collect();
    let t = TimeEnc::new(c02::ymd(2026, 1, 1), true);
    let n = TimeEnc::new(c02::ymd(2026, 1, 2), true);
    let content = der::manifest_content(&[1], t, n, &list, false);
    let base = uri::Rsync::from_str(BASES[1]).unwrap();
    let decoded: Vec<(&str, Result<ManifestContent, String>)> = vec![
        (
            "ManifestContent::take_from",
            no_panic("ManifestContent::take_from", || bcder::Mode::Der.decode(content.as_slice(), ManifestContent::take_from))?.map_err(|e| e.to_string()),
        ),
        (
            "Manifest::decode",
            no_panic("Manifest::decode", || Manifest::decode(wrap(&content).as_slice(), true))?.map(|m| m.content().clone()).map_err(|e| e.to_string()),
        ),
    ];
    for (what, r) in decoded {
        // C14 speaks of the manifests the library decodes: a decoder may refuse a list this
        // long (counted); up to 4096 entries acceptance is demanded as for any valid manifest
        let m = match r {
            Ok(m) => m,
            Err(e) if c.count <= 4096 => return Err(Fail::new(format!("{} refused a manifest with {} valid entries: {}", what, c.count, e))),
            Err(_) => {
                obs.label("refused");
                continue;
            }
        };
        obs.label("decoded");
        let it = no_panic("iter", || m.iter().count())?;
        let uris = no_panic("iter_uris", || m.iter_uris(&base).count())?;
        ensure_sig!(
            m.len() == c.count as usize && it == c.count as usize && uris == c.count as usize && m.is_empty() == (c.count == 0),
            "len-vs-entries",
            "{}: a manifest with {} entries reports len() = {}, iter() yields {}, iter_uris() yields {}",
            what, c.count, m.len(), it, uris
        );
        let last = m.iter().last().map(|f| f.file().to_vec());
        ensure!(last == list.last().map(|e| e.name.clone()), "{}: last entry of {} differs", what, c.count);
    }
    obs.nontrivial();
    Ok(())
}

pub fn property() -> Property {
    Property {
        id: "C14",
        rule: RULE,
        assumptions: vec![
            "Manifest::decode does not verify the signature (property C02): the CMS wrapper carries a real EE certificate and a constant signature value",
            "bit strings are DER (unused bits zero); times are whole seconds; the manifest number is a positive integer of at most 20 octets",
            "acceptance of a manifest is only demanded when thisUpdate/nextUpdate are GeneralizedTime (RFC 9286); with UTCTime only 'accepted implies names valid and this <= next' is checked",
        ],
        subs: vec![
            PropSub {
                name: "names",
                strategy: names_strategy,
                cases: |t| t.pick(400_000, 5_000_000),
                run: run_names,
                floors: &[
                    ("names-valid", 0.2),
                    ("names-hostile", 0.25),
                    ("this>next", 0.1),
                    ("decoded", 0.12),
                    ("utctime", 0.1),
                    ("entries>=100", 0.03),
                    ("name:repeated", 0.04),
                    ("name:.ext", 0.02),
                    ("name:slash", 0.05),
                    ("name:long", 0.01),
                    ("hash:not-sha256", 0.3),
                ],
            }
            .boxed(),
            EnumSub {
                name: "name-enum",
                count: |_, _| enum_total().div_ceil(CHUNK),
                make: |_, _, idx| NameChunk { start: idx * CHUNK, len: CHUNK },
                run: run_name_chunk,
                exhaustive: true,
            }
            .boxed(),
            EnumSub {
                name: "name-octets",
                count: |_, _| 256,
                make: |_, _, i| NameOctet { octet: i as u8, only: None },
                run: run_name_octet,
                exhaustive: true,
            }
            .boxed(),
            EnumSub {
                name: "many-entries",
                count: |_, _| MANY_COUNTS.len() as u64,
                make: |_, _, idx| ManyEntries { count: MANY_COUNTS[idx as usize] },
                run: run_many,
                exhaustive: false,
            }
            .boxed(),
        ],
    }
}
