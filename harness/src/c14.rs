//! C14 — stub (not built yet).

use crate::engine::*;

pub fn property() -> Property {
    Property { id: "C14", rule: "", assumptions: vec![], subs: vec![] }
}
