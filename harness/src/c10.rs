//! C10 — CA protocol CMS accepted iff signed under the peer key, current,
//! not revoked.
//!
//! created:  `SignedMessage::create` messages, validated at times around the
//!           validity edges under the right and under other keys, verified by
//!           the harness' own verifier, and tampered at single points.
//! foreign:  messages assembled by `der.rs` (own X.509 EE certificate, own
//!           CRL, extra signed attributes) with at most one violated
//!           condition.
//! protocol: `ProvisioningCms` / `PublicationCms` create + decode + validate,
//!           and independently wrapped protocol XML.

use std::str::FromStr;

use bytes::Bytes;
use proptest::prelude::*;
use rpki::ca::idexchange::{RecipientHandle, SenderHandle};
use rpki::ca::provisioning::{self, ProvisioningCms};
use rpki::ca::publication::{self, PublicationCms};
use rpki::ca::sigmsg::SignedMessage;
use rpki::crypto::PublicKey;
use rpki::repository::x509::{Time, Validity};
use rpki::uri;
use serde::{Deserialize, Serialize};

use crate::c02::{
    content_strategy, digest_fault_strategy, eval_strategy, flip_in, flip_strategy, lib_time, opts_strategy,
    resign_with_digest_fault, swap_content, ymd, Content, DigestFault, Eval, Flip, Opts, SIG_F12,
};
use crate::der::{self, oids, Cms, CrlSpec, Ext, IdCertSpec, Tm};
use crate::engine::*;
use crate::gen::pick_idx;
use crate::keys::{self, PoolSigner, POOL_SIZE};

pub const RULE: &str = "created: SignedMessage::create with contents 0..4 KiB, validity windows (also across the 2049/2050 \
UTCTime/GeneralizedTime switch), every issuer / one-off key pair; validate_at at -1s/edge/+1s/mid/far under the right \
key and under each other pool key; every message also verified by the harness' own verifier (digest, DER SET OF \
signature via aws-lc-rs, sid, EE and CRL signatures, serial not listed); single bit flips in content / signed \
attributes / signature / EE TBS / CRL TBS, or the message re-wrapped by der.rs with a message-digest attribute of the \
wrong length (first 0/1/16/31 octets of the digest; digest + 1..8 octets; empty with swapped content) signed again by the \
one-off EE key. foreign: der.rs-built v3 EE certificate (AKI present/absent, basic constraints absent/false/true, 0..2 \
unknown extensions), CRL (AKI present/absent, number, 0..50 revoked entries in ascending / descending order or as EE \
serial +-k so that a listed EE serial follows larger ones, EE serial listed or not, this/next update around the evaluation \
time, stale / future both with and without AKI), 0..4 extra signed attributes (binary signing time, random OIDs with \
0..200-byte values; attribute set 107..~900 bytes, DER order; 10 % forced to exactly 126..129 and 20 % to exactly 254..258 \
octets, exactly 256 in about 3.7 %), all algorithm-identifier variants, and at most one violated condition out of: digest \
(wrong value; wrong length with matching prefix, also with swapped content), signature key, signed bytes, sid, EE issuer \
key, CRL issuer key, EE window, CRL window, EE is CA, EE revoked, other peer key, bit flips; oracle = accept iff none. \
protocol: ProvisioningCms / PublicationCms create->to_bytes->decode->validate_at(now+d) for d inside/outside the +-5 min \
window and wrong keys; independently wrapped protocol XML (same foreign generator) decodes to the same message. \
non-trivial = extra attributes, or non-empty CRL, or any violated condition / tamper. Other routes (foreign, protocol/foreign): the DER messages also go through SignedMessage::decode(.., true); their unsigned outer layers are re-framed in BER (indefinite lengths; plus segmented eContent; long-form lengths) and go through SignedMessage / ProvisioningCms / PublicationCms; 20 % of the cases are placed at the wall clock (window edges >= 2 min away) and validate() must agree with validate_at(now) - all with the same verdict as decode(.., false) + validate_at. foreign also permutes the extensions of the EE certificate and puts crlEntryExtensions (reason code, invalidity date) on revoked entries; digest faults include right-length values differing in two octets (XOR-cancelling / exchanged).";

fn key_info(idx: usize) -> PublicKey {
    keys::pool().infos[idx % POOL_SIZE].clone()
}

fn key_id(idx: usize) -> Vec<u8> {
    keys::key_id_of_spki(&keys::pool().spki[idx % POOL_SIZE]).expect("pool key id").to_vec()
}

fn validity(nb: i64, na: i64) -> Validity {
    Validity::new(lib_time(nb), lib_time(na))
}

fn window_strategy() -> BoxedStrategy<(i64, i64)> {
    prop_oneof![
        3 => (ymd(2024, 1, 1)..ymd(2040, 1, 1), 2i64..40 * 86_400).prop_map(|(nb, d)| (nb, nb + d)),
        1 => (-3i64..3, 2i64..86_400).prop_map(|(o, d)| (ymd(2050, 1, 1) + o - d, ymd(2050, 1, 1) + o)),
        1 => (-3i64..3, 2i64..86_400).prop_map(|(o, d)| (ymd(2050, 1, 1) + o, ymd(2050, 1, 1) + o + d)),
        1 => (ymd(2050, 1, 1)..ymd(2090, 1, 1), 2i64..40 * 86_400).prop_map(|(nb, d)| (nb, nb + d)),
    ]
    .boxed()
}

//============ the harness' own validation of a protocol CMS =====================

/// Everything the property lists, except the time conditions, checked without
/// the library: CMS layer, EE certificate and CRL signed by pool key
/// `issuer`, EE not a CA, EE serial not on the CRL.
fn own_validate(bytes: &[u8], issuer: usize) -> Result<usize, String> {
    let view = der::cms_parse(bytes)?;
    view.verify()?;
    let cert = der::cert_parse(view.certs.first().ok_or("no EE certificate")?)?;
    if !cert.signed_by(issuer) {
        return Err("EE certificate not signed by the peer key".into());
    }
    if cert.basic_ca == Some(true) {
        return Err("EE certificate is a CA".into());
    }
    let crl = der::crl_parse(view.crls.first().ok_or("no CRL")?)?;
    if !crl.signed_by(issuer) {
        return Err("CRL not signed by the peer key".into());
    }
    let norm = |s: &[u8]| -> Vec<u8> { s.iter().copied().skip_while(|&b| b == 0).collect() };
    if crl.revoked.iter().any(|r| norm(r) == norm(&cert.serial)) {
        return Err("EE serial is on the CRL".into());
    }
    Ok(view.attrs_raw.len())
}

//============ sub-check: created ================================================

#[derive(Clone, Copy, Debug, PartialEq, Eq, Serialize, Deserialize)]
pub enum ByteTamper {
    None,
    SigFlip(Flip),
    AttrsFlip(Flip),
    ContentFlip(Flip),
    CertTbsFlip(Flip),
    CrlTbsFlip(Flip),
}

impl ByteTamper {
    fn label(self) -> &'static str {
        match self {
            ByteTamper::None => "tamper:none",
            ByteTamper::SigFlip(_) => "tamper:sig-flip",
            ByteTamper::AttrsFlip(_) => "tamper:attrs-flip",
            ByteTamper::ContentFlip(_) => "tamper:content-flip",
            ByteTamper::CertTbsFlip(_) => "tamper:cert-tbs-flip",
            ByteTamper::CrlTbsFlip(_) => "tamper:crl-tbs-flip",
        }
    }
    fn apply(self, bytes: &mut [u8]) -> Result<(), Fail> {
        if self == ByteTamper::None {
            return Ok(());
        }
        let v = der::cms_parse(bytes)
            .map_err(|e| Fail::new(format!("harness parser rejects an untampered message: {}", e)))?;
        match self {
            ByteTamper::None => Ok(()),
            ByteTamper::SigFlip(f) => flip_in(bytes, v.span_signature, f),
            ByteTamper::AttrsFlip(f) => flip_in(bytes, v.span_attrs, f),
            ByteTamper::ContentFlip(f) => {
                let r = if v.span_content.0 < v.span_content.1 { v.span_content } else { v.span_attrs };
                flip_in(bytes, r, f)
            }
            ByteTamper::CertTbsFlip(f) => flip_in(bytes, v.span_cert_tbs.ok_or_else(|| Fail::new("no cert"))?, f),
            ByteTamper::CrlTbsFlip(f) => flip_in(bytes, v.span_crl_tbs.ok_or_else(|| Fail::new("no crl"))?, f),
        }
    }
}

fn byte_tamper_strategy(none_weight: u32) -> BoxedStrategy<ByteTamper> {
    prop_oneof![
        none_weight => Just(ByteTamper::None),
        1 => flip_strategy().prop_map(ByteTamper::SigFlip),
        1 => flip_strategy().prop_map(ByteTamper::AttrsFlip),
        1 => flip_strategy().prop_map(ByteTamper::ContentFlip),
        1 => flip_strategy().prop_map(ByteTamper::CertTbsFlip),
        1 => flip_strategy().prop_map(ByteTamper::CrlTbsFlip),
    ]
    .boxed()
}

#[derive(Clone, Debug, Serialize, Deserialize)]
pub struct Created {
    pub content: Content,
    pub issuer: u8,
    /// pool key handed out by `sign_one_off` (differs from the issuer)
    pub ee_key: u8,
    pub rng: u64,
    pub nb: i64,
    pub na: i64,
    pub eval: Eval,
    /// 0: validate under the issuer key; k: under pool key issuer + k
    pub key_off: u8,
    pub tamper: ByteTamper,
    /// the created message re-wrapped by der.rs with a message-digest
    /// attribute of the wrong length, signed again by the one-off EE key
    /// (only together with `ByteTamper::None`)
    #[serde(default)]
    pub digest: Option<DigestFault>,
}

fn distinct_keys(issuer: u8, ee: u8) -> (u8, u8) {
    let issuer = issuer % POOL_SIZE as u8;
    let mut ee = ee % POOL_SIZE as u8;
    if ee == issuer {
        ee = (ee + 1) % POOL_SIZE as u8;
    }
    (issuer, ee)
}

fn created_strategy(_: Tier) -> BoxedStrategy<Created> {
    (
        content_strategy(),
        0u8..8,
        0u8..8,
        any::<u64>(),
        window_strategy(),
        eval_strategy(),
        prop_oneof![3 => Just(0u8), 1 => 1u8..8],
        // 10 parts untouched, 5 parts one bit flip each, 2 parts digest length
        prop_oneof![
            15 => byte_tamper_strategy(10).prop_map(|t| (t, None)),
            2 => digest_fault_strategy().prop_map(|d| (ByteTamper::None, Some(d))),
        ],
    )
        .prop_map(|(content, issuer, ee, rng, (nb, na), eval, key_off, (tamper, digest))| {
            let (issuer, ee_key) = distinct_keys(issuer, ee);
            Created { content, issuer, ee_key, rng, nb, na, eval, key_off, tamper, digest }
        })
        .boxed()
}

fn run_created(c: &Created, obs: &mut Obs) -> CheckResult {
    let issuer = c.issuer as usize % POOL_SIZE;
    let signer = PoolSigner::with_first(c.ee_key as usize, c.rng);
    let data = c.content.bytes();
    let msg = SignedMessage::create(Bytes::from(data.clone()), validity(c.nb, c.na), &signer.key(issuer), &signer)
        .map_err(|e| Fail::new(format!("SignedMessage::create failed: {}", e)))?;
    let mut bytes = msg.to_captured().into_bytes().to_vec();

    // reverse differential: the harness' own verifier must accept it
    let attrs_len = match own_validate(&bytes, issuer) {
        Ok(n) => n,
        Err(e) => {
            return Err(Fail::new(format!("library-created message does not validate with the independent verifier: {}", e)))
        }
    };
    // ... and only under the issuer key
    for k in 1..POOL_SIZE {
        ensure!(own_validate(&bytes, issuer + k).is_err(), "harness verifier accepts a message under a foreign key");
    }
    let view = der::cms_parse(&bytes).map_err(Fail::new)?;
    ensure_eq!(view.content, data, "content of the created message");
    ensure_eq!(view.content_type.as_slice(), oids::CT_PROTOCOL, "content type of the created message");
    let cert = der::cert_parse(&view.certs[0]).map_err(Fail::new)?;
    ensure_eq!(cert.not_before, expected_time_string(c.nb), "EE notBefore");
    ensure_eq!(cert.not_after, expected_time_string(c.na), "EE notAfter");

    c.tamper.apply(&mut bytes)?;
    let digest = if c.tamper == ByteTamper::None { c.digest } else { None };
    if let Some(f) = digest {
        bytes = resign_with_digest_fault(&bytes, f)?;
        ensure!(own_validate(&bytes, issuer).is_err(), "harness verifier does not notice {:?}", f);
    }
    let t = c.eval.time(c.nb, c.na);
    let in_window = c.nb <= t && t <= c.na;
    let expect = c.tamper == ByteTamper::None && digest.is_none() && in_window && c.key_off % POOL_SIZE as u8 == 0;
    let vkey = key_info(issuer + c.key_off as usize);
    let got: Result<(), String> = match SignedMessage::decode(bytes.as_slice(), false) {
        Err(e) => Err(format!("decode: {}", e)),
        Ok(m) => m.validate_at(&vkey, lib_time(t)).map_err(|e| e.to_string()),
    };
    obs.label(match digest {
        Some(f) => f.label(),
        None => c.tamper.label(),
    });
    obs.label(if expect { "expect-accept" } else { "expect-reject" });
    obs.label_if(!in_window, "out-of-window");
    obs.label_if(c.key_off % POOL_SIZE as u8 != 0, "other-key");
    obs.label_if(matches!(c.eval, Eval::Nb | Eval::Na | Eval::NbMinus1 | Eval::NaPlus1 | Eval::NbPlus1 | Eval::NaMinus1), "edge-time");
    obs.nontrivial_if(c.tamper != ByteTamper::None || digest.is_some() || !in_window || c.key_off % POOL_SIZE as u8 != 0);
    verdict("created", expect, &got, attrs_len, &|| {
        format!("tamper={:?} digest={:?} eval={:?} t={} window=[{}, {}] key_off={}", c.tamper, digest, c.eval, t, c.nb, c.na, c.key_off)
    })
}

/// Content octets of the RFC 5280 Time for `secs`.
fn expected_time_string(secs: i64) -> Vec<u8> {
    let enc = der::time_varied(Tm::from_unix(secs));
    enc[2..].to_vec()
}

fn verdict(what: &str, expect: bool, got: &Result<(), String>, attrs_len: usize, detail: &dyn Fn() -> String) -> CheckResult {
    if expect {
        if let Err(e) = got {
            let msg = format!(
                "{}: message meeting all conditions of the property was rejected ({}); signed attributes {} bytes; {}",
                what, e, attrs_len, detail()
            );
            if attrs_len >= 128 {
                return Err(Fail::sig(SIG_F12, msg));
            }
            return Err(Fail::new(msg));
        }
    } else {
        ensure!(got.is_ok() == false, "{}: message violating a condition was accepted; {}", what, detail());
    }
    Ok(())
}

//============ sub-check: foreign ================================================

#[derive(Clone, Copy, Debug, PartialEq, Eq, Serialize, Deserialize)]
pub enum Fault {
    None,
    /// message-digest attribute of other content (attributes re-signed)
    Digest,
    /// content replaced after signing
    ContentAfter,
    /// signed with a key that is not the EE certificate's
    SigWrongKey,
    /// signature over attributes that differ in one value
    SigOtherBytes,
    /// sid names another key
    Sid,
    /// EE certificate signed by a key that is not the peer's
    EeWrongSigner,
    /// CRL signed by a key that is not the peer's
    CrlWrongSigner,
    /// validated under another peer key
    OtherPeerKey,
    Bytes(ByteTamper),
    /// message-digest attribute of the wrong length (prefix of the real
    /// digest / real digest plus extra octets; attributes signed by the EE
    /// key), for `EmptySwap` with the content replaced after signing
    DigestLen(DigestFault),
}

impl Fault {
    fn label(self) -> &'static str {
        match self {
            Fault::None => "fault:none",
            Fault::Digest => "fault:digest",
            Fault::ContentAfter => "fault:content-after",
            Fault::SigWrongKey => "fault:sig-wrong-key",
            Fault::SigOtherBytes => "fault:sig-other-bytes",
            Fault::Sid => "fault:sid",
            Fault::EeWrongSigner => "fault:ee-wrong-signer",
            Fault::CrlWrongSigner => "fault:crl-wrong-signer",
            Fault::OtherPeerKey => "fault:other-peer-key",
            Fault::Bytes(b) => b.label(),
            Fault::DigestLen(DigestFault::Short(_)) => "fault:digest-short",
            Fault::DigestLen(DigestFault::Long(_)) => "fault:digest-long",
            Fault::DigestLen(DigestFault::EmptySwap) => "fault:digest-empty-swap",
            Fault::DigestLen(DigestFault::TwoOctets { .. }) => "fault:digest-two-octets",
        }
    }
}

/// Position of a window relative to the evaluation time.
#[derive(Clone, Copy, Debug, PartialEq, Eq, Serialize, Deserialize)]
pub enum Win {
    /// [when - a, when + b]
    Around(u32, u32),
    /// ends `d` seconds before the evaluation time (d >= 1)
    Past(u32),
    /// starts `d` seconds after the evaluation time (d >= 1)
    Future(u32),
}

impl Win {
    fn bounds(self, when: i64) -> (i64, i64) {
        match self {
            Win::Around(a, b) => (when - a as i64, when + b as i64),
            Win::Past(d) => (when - d.max(1) as i64 - 86_400, when - d.max(1) as i64),
            Win::Future(d) => (when + d.max(1) as i64, when + d.max(1) as i64 + 86_400),
        }
    }
    fn contains_when(self) -> bool {
        matches!(self, Win::Around(..))
    }
}

fn win_strategy() -> BoxedStrategy<Win> {
    let small = prop_oneof![3 => Just(0u32), 2 => Just(1u32), 2 => 2u32..7200, 1 => 7200u32..40_000_000];
    prop_oneof![
        8 => (small.clone(), small.clone()).prop_map(|(a, b)| Win::Around(a, b)),
        1 => prop_oneof![2 => Just(1u32), 1 => 2u32..100_000].prop_map(Win::Past),
        1 => prop_oneof![2 => Just(1u32), 1 => 2u32..100_000].prop_map(Win::Future),
    ]
    .boxed()
}

#[derive(Clone, Debug, Serialize, Deserialize)]
pub enum ExtraAttr {
    BinarySigningTime(u64),
    /// 1.3.<arcs> with one OCTET STRING value of `len` octets
    Random { arcs: Vec<u32>, len: u16, fill: u8 },
}

impl ExtraAttr {
    fn encode(&self) -> Vec<u8> {
        match self {
            ExtraAttr::BinarySigningTime(t) => der::attr_binary_signing_time(*t),
            ExtraAttr::Random { arcs, len, fill } => {
                let mut a: Vec<u64> = vec![1, 3];
                a.extend(arcs.iter().map(|&x| x as u64));
                let v: Vec<u8> = (0..*len as usize).map(|i| fill.wrapping_add(i as u8)).collect();
                der::attr(&der::oid_content(&a), &[der::octets(&v)])
            }
        }
    }
}

#[derive(Clone, Debug, Serialize, Deserialize)]
pub struct ExtSpec {
    pub arcs: Vec<u32>,
    pub len: u8,
}

#[derive(Clone, Debug, Serialize, Deserialize)]
pub struct Foreign {
    pub content: Content,
    pub issuer: u8,
    pub ee_key: u8,
    /// big-endian, 1..=20 octets, top bit clear
    pub serial: Vec<u8>,
    pub when: i64,
    pub ee_win: Win,
    pub crl_win: Win,
    pub ee_aki: bool,
    /// basic constraints: absent / cA false / cA true
    pub ee_bc: Option<bool>,
    pub ee_exts: Vec<ExtSpec>,
    /// critical keyUsage extension in the EE certificate
    pub ee_key_usage: bool,
    pub crl_aki: bool,
    pub crl_number: Option<u64>,
    pub crl_exts: Vec<ExtSpec>,
    /// number of other revoked serials
    pub revoked_others: u8,
    pub revoked_has_ee: bool,
    pub revoked_pos: u16,
    /// how the other revoked serials relate to the EE certificate's (RFC 5280
    /// prescribes no order of the list): 0 = unrelated four-octet serials in
    /// ascending order, 1 = the same descending, 2 = EE serial + 1, + 2, ..
    /// (all larger than the EE's), 3 = alternately larger and smaller
    #[serde(default)]
    pub revoked_mode: u8,
    pub extra_attrs: Vec<ExtraAttr>,
    pub alg_null: bool,
    pub opts: Opts,
    pub fault: Fault,
    /// Evaluate at the wall clock: `when` is replaced by the current time when
    /// the case runs (window edges kept at least two minutes away from it), and
    /// the clock-based entry points (`validate`) are asked as well as
    /// `validate_at(now)`.
    #[serde(default)]
    pub at_clock: bool,
    /// the extensions of the EE certificate in another order (0: as written)
    #[serde(default)]
    pub ee_ext_perm: u32,
    /// crlEntryExtensions on the revoked entries (see `CrlSpec::entry_ext`)
    #[serde(default)]
    pub crl_entry_ext: u8,
}

impl Foreign {
    /// The case as it is run: with `at_clock`, placed around the current time.
    fn materialised(&self) -> Foreign {
        if !self.at_clock {
            return self.clone();
        }
        let far = |w: Win| match w {
            Win::Around(a, b) => Win::Around(a.max(120), b.max(120)),
            Win::Past(d) => Win::Past(d.max(120)),
            Win::Future(d) => Win::Future(d.max(120)),
        };
        Foreign { when: chrono::Utc::now().timestamp(), ee_win: far(self.ee_win), crl_win: far(self.crl_win), ..self.clone() }
    }
}

fn ext_spec_strategy() -> BoxedStrategy<ExtSpec> {
    (prop::collection::vec(0u32..100_000, 1..5), 0u8..40).prop_map(|(arcs, len)| ExtSpec { arcs, len }).boxed()
}

/// A non-critical extension under the private arc 1.3.6.1.4.1.<arcs> (never
/// collides with SKI/AKI/BC/CRL number). RFC 5280: unrecognised non-critical
/// extensions are ignored.
fn ext_of(e: &ExtSpec) -> Ext {
    let mut a: Vec<u64> = vec![1, 3, 6, 1, 4, 1];
    a.extend(e.arcs.iter().map(|&x| x as u64));
    der::ext_unknown(&der::oid_content(&a), false, &vec![0xA5; e.len as usize])
}

/// keyUsage (critical, digitalSignature): the library documents that identity
/// certificates of some CAs carry it and that it is ignored.
fn ext_key_usage() -> Ext {
    Ext { oid: oids::CE_KEY_USAGE.to_vec(), critical: true, value: vec![0x03, 0x02, 0x07, 0x80] }
}

fn extra_attr_strategy() -> BoxedStrategy<ExtraAttr> {
    prop_oneof![
        1 => (0u64..5_000_000_000).prop_map(ExtraAttr::BinarySigningTime),
        3 => (prop::collection::vec(0u32..70_000, 1..6), prop_oneof![2 => 0u16..30, 2 => 30u16..201], any::<u8>())
            .prop_map(|(arcs, len, fill)| ExtraAttr::Random { arcs, len, fill }),
    ]
    .boxed()
}

/// The extra signed attributes as written: identical attribute types would
/// make the SET OF ambiguous, so only the first attribute of a type is kept.
fn encode_extra_attrs(attrs: &[ExtraAttr]) -> Vec<Vec<u8>> {
    let mut v: Vec<Vec<u8>> = Vec::new();
    let mut seen_bst = false;
    for a in attrs {
        if matches!(a, ExtraAttr::BinarySigningTime(_)) {
            if seen_bst {
                continue;
            }
            seen_bst = true;
        }
        let e = a.encode();
        let oid_of = |x: &Vec<u8>| der::parse_exact(x).ok().and_then(|n| n.get(&[0]).and_then(|o| o.prim_bytes().map(|b| b.to_vec())));
        if !v.iter().any(|x| oid_of(x) == oid_of(&e)) {
            v.push(e);
        }
    }
    v
}

/// Size of the signed-attribute set of a foreign message (content type
/// id-ct-xml, 32-octet digest, signing time `st`, the given extras).
fn foreign_attrs_len(extra: &[ExtraAttr], opts: Opts) -> usize {
    let mut attrs = vec![
        der::attr_content_type(oids::CT_PROTOCOL),
        der::attr_message_digest(&[0u8; 32]),
        der::attr_signing_time(opts.st()),
    ];
    attrs.extend(encode_extra_attrs(extra));
    der::attrs_content_len(&attrs)
}

/// Brings the attribute set to exactly `target` octets by appending the
/// attribute 1.3.6.1.4.1.99999 (not among the random ones) with a value of
/// the fitting length: first behind the first of the given attributes, then,
/// if that is already too large or a length field jumps over the target, on
/// its own. Leaves the attributes alone if neither works.
fn size_extra_attrs(extra: &mut Vec<ExtraAttr>, opts: Opts, target: usize) {
    for keep in [1usize, 0] {
        let mut probe: Vec<ExtraAttr> = extra.iter().take(keep).cloned().collect();
        probe.push(ExtraAttr::Random { arcs: vec![6, 1, 4, 1, 99_999], len: 0, fill: 0x11 });
        let base = foreign_attrs_len(&probe, opts);
        if base > target {
            continue;
        }
        // a value of L octets adds L plus at most three octets of longer length forms
        for l in (target - base).saturating_sub(3)..=(target - base) {
            if let Some(ExtraAttr::Random { len, .. }) = probe.last_mut() {
                *len = l as u16;
            }
            if foreign_attrs_len(&probe, opts) == target {
                *extra = probe;
                return;
            }
        }
    }
}

fn fault_strategy() -> BoxedStrategy<Fault> {
    prop_oneof![
        7 => Just(Fault::None),
        1 => Just(Fault::Digest),
        1 => Just(Fault::ContentAfter),
        1 => Just(Fault::SigWrongKey),
        1 => Just(Fault::SigOtherBytes),
        1 => Just(Fault::Sid),
        1 => Just(Fault::EeWrongSigner),
        1 => Just(Fault::CrlWrongSigner),
        1 => Just(Fault::OtherPeerKey),
        1 => flip_strategy().prop_map(|f| Fault::Bytes(ByteTamper::SigFlip(f))),
        1 => flip_strategy().prop_map(|f| Fault::Bytes(ByteTamper::AttrsFlip(f))),
        1 => flip_strategy().prop_map(|f| Fault::Bytes(ByteTamper::ContentFlip(f))),
        1 => flip_strategy().prop_map(|f| Fault::Bytes(ByteTamper::CertTbsFlip(f))),
        1 => flip_strategy().prop_map(|f| Fault::Bytes(ByteTamper::CrlTbsFlip(f))),
        3 => digest_fault_strategy().prop_map(Fault::DigestLen),
    ]
    .boxed()
}

fn foreign_strategy(_: Tier) -> BoxedStrategy<Foreign> {
    let ids = (0u8..8, 0u8..8, prop::collection::vec(any::<u8>(), 1..=20));
    let times = (
        prop_oneof![3 => ymd(2024, 1, 1)..ymd(2049, 1, 1), 1 => ymd(2049, 12, 31)..ymd(2050, 1, 2), 1 => ymd(2050, 1, 2)..ymd(2090, 1, 1)],
        win_strategy(),
        win_strategy(),
        prop::bool::weighted(0.2),
    );
    let ee = (prop::bool::weighted(0.6), prop_oneof![5 => Just(None), 4 => Just(Some(false)), 1 => Just(Some(true))],
        prop::collection::vec(ext_spec_strategy(), 0..3), prop::bool::weighted(0.3));
    let crl = (
        any::<bool>(),
        prop::option::weighted(0.6, any::<u64>()),
        prop::collection::vec(ext_spec_strategy(), 0..2),
        prop_oneof![4 => Just(0u8), 3 => 1u8..6, 2 => 6u8..=50],
        prop::bool::weighted(0.12),
        (any::<u16>(), 0u8..4, prop_oneof![2 => Just(0u32), 1 => 1u32..3, 1 => any::<u32>()], prop_oneof![2 => Just(0u8), 1 => 1u8..4]),
    );
    (
        content_strategy(),
        ids,
        times,
        ee,
        crl,
        (
            prop_oneof![3 => Just(Vec::new()), 3 => prop::collection::vec(extra_attr_strategy(), 1..=1),
                4 => prop::collection::vec(extra_attr_strategy(), 2..=4)],
            // exact sizes of the attribute set around the points where its
            // DER length changes form (one / two / three length octets)
            prop_oneof![14 => Just(None), 2 => (126usize..=129).prop_map(Some), 4 => (254usize..=258).prop_map(Some)],
        ),
        any::<bool>(),
        opts_strategy(),
        fault_strategy(),
    )
        .prop_map(
            |(content, (issuer, ee_key, mut serial), (when, ee_win, crl_win, at_clock), (ee_aki, ee_bc, ee_exts, ee_key_usage),
              (crl_aki, crl_number, crl_exts, revoked_others, revoked_has_ee, (revoked_pos, revoked_mode, ee_ext_perm, crl_entry_ext)), (mut extra_attrs, size), alg_null, opts, fault)| {
                if let Some(target) = size {
                    size_extra_attrs(&mut extra_attrs, opts, target);
                }
                let (issuer, ee_key) = distinct_keys(issuer, ee_key);
                serial[0] &= 0x7f;
                // a CRL without any extension would have an empty extension
                // list, which X.509 forbids: keep at least the number
                let crl_number = if !crl_aki && crl_number.is_none() && crl_exts.is_empty() { Some(1) } else { crl_number };
                Foreign {
                    content, issuer, ee_key, serial, when, ee_win, crl_win, ee_aki, ee_bc, ee_exts, ee_key_usage, crl_aki, crl_number,
                    crl_exts, revoked_others, revoked_has_ee, revoked_pos, revoked_mode, extra_attrs, alg_null, opts, fault, at_clock,
                    ee_ext_perm, crl_entry_ext,
                }
            },
        )
        .boxed()
}

/// `serial` + `k` (k != 0) as a serial number (big-endian, at most 20 octets,
/// top bit clear), `None` if the result is not one.
fn serial_offset(serial: &[u8], k: i32) -> Option<Vec<u8>> {
    let mut v = vec![0u8; 21usize.saturating_sub(serial.len())];
    v.extend_from_slice(serial);
    let mut carry = k as i64;
    for b in v.iter_mut().rev() {
        let x = *b as i64 + carry;
        *b = x.rem_euclid(256) as u8;
        carry = x.div_euclid(256);
    }
    if carry != 0 || v[0] != 0 || v[1] & 0x80 != 0 || v.iter().all(|&b| b == 0) {
        return None;
    }
    let skip = v.iter().take_while(|&&b| b == 0).count();
    Some(v[skip..].to_vec())
}

/// The revoked serials in list order and whether the EE's entry (if any)
/// comes after an entry with a larger serial.
fn revoked_serials(c: &Foreign) -> (Vec<Vec<u8>>, bool) {
    let norm = |s: &[u8]| -> Vec<u8> { s.iter().copied().skip_while(|&b| b == 0).collect() };
    let mut revoked: Vec<Vec<u8>> = Vec::new();
    for i in 0..c.revoked_others as u32 {
        let mut s = (1_000_003u32.wrapping_mul(i + 1) ^ c.revoked_pos as u32).to_be_bytes().to_vec();
        s[0] &= 0x7f;
        if norm(&s) == norm(&c.serial) {
            s.push(1);
        }
        let k = (i / 2 + 1) as i32;
        let related = match c.revoked_mode {
            2 => serial_offset(&c.serial, i as i32 + 1),
            3 => serial_offset(&c.serial, if i % 2 == 0 { k } else { -k }),
            _ => None,
        };
        revoked.push(related.unwrap_or(s));
    }
    if c.revoked_mode == 1 {
        revoked.reverse();
    }
    let mut after_larger = false;
    if c.revoked_has_ee {
        let pos = pick_idx(c.revoked_pos, revoked.len() + 1);
        let ee = norm(&c.serial);
        after_larger = revoked[..pos].iter().any(|s| {
            let s = norm(s);
            (s.len(), &s) > (ee.len(), &ee)
        });
        // same number, possibly written with a different count of leading zeros by the caller
        revoked.insert(pos, c.serial.clone());
    }
    (revoked, after_larger)
}

/// Builds the foreign message; returns (bytes, attribute set size).
fn build_foreign(c: &Foreign, ctype: &[u8], content: &[u8]) -> Result<(Vec<u8>, usize), Fail> {
    let issuer = c.issuer as usize % POOL_SIZE;
    let ee_key = c.ee_key as usize % POOL_SIZE;
    let (ee_nb, ee_na) = c.ee_win.bounds(c.when);
    let (crl_this, crl_next) = c.crl_win.bounds(c.when);
    let cert_spec = IdCertSpec {
        serial: c.serial.clone(),
        issuer_cn: format!("issuer-{}", issuer),
        subject_cn: format!("ee-{}", ee_key),
        not_before: Tm::from_unix(ee_nb),
        not_after: Tm::from_unix(ee_na),
        spki: keys::pool().spki[ee_key].clone(),
        ski: Some(key_id(ee_key)),
        aki: if c.ee_aki { Some(key_id(issuer)) } else { None },
        basic_ca: c.ee_bc,
        extra_exts: c.ee_exts.iter().map(ext_of).chain(c.ee_key_usage.then(ext_key_usage)).collect(),
        alg_null: c.alg_null,
    };
    let cert_signer = if c.fault == Fault::EeWrongSigner { issuer + 2 } else { issuer };
    let mut cert = der::x509_sign(&cert_spec.tbs(), cert_signer, c.alg_null);
    if c.ee_ext_perm != 0 {
        let d = der::Dress { perm: c.ee_ext_perm, no_null: !c.alg_null, ..Default::default() };
        cert = der::dress_cert(&cert, cert_signer, &d).map_err(|e| Fail::new(format!("harness: reordering the EE extensions failed: {}", e)))?;
    }

    // revoked list: `revoked_others` serials different from the EE's, the
    // EE serial inserted at `revoked_pos` if requested
    let revoked: Vec<(Vec<u8>, Tm)> = revoked_serials(c)
        .0
        .into_iter()
        .enumerate()
        .map(|(i, s)| (s, Tm::from_unix(crl_this - 86_400 * (i as i64 % 400))))
        .collect();
    let crl_spec = CrlSpec {
        issuer_cn: format!("issuer-{}", issuer),
        this_update: Tm::from_unix(crl_this),
        next_update: Tm::from_unix(crl_next),
        revoked,
        aki: if c.crl_aki { Some(key_id(issuer)) } else { None },
        number: c.crl_number.map(|n| n.to_be_bytes().to_vec()),
        extra_exts: c.crl_exts.iter().map(ext_of).collect(),
        alg_null: c.alg_null,
        entry_ext: c.crl_entry_ext,
    };
    let crl_signer = if c.fault == Fault::CrlWrongSigner { issuer + 2 } else { issuer };
    let crl = der::x509_sign(&crl_spec.tbs(), crl_signer, c.alg_null);

    let extra = encode_extra_attrs(&c.extra_attrs);
    let mut cms = Cms::standard(ctype, content, cert, vec![crl], ee_key, c.opts.st(), &extra, c.opts.cms());
    match c.fault {
        Fault::Digest => {
            let mut other = content.to_vec();
            other.push(1);
            cms.attrs[1] = der::attr_message_digest(&keys::sha256(&other));
            cms.signature = keys::raw_sign(ee_key, &der::attrs_to_be_signed(&cms.attrs));
        }
        Fault::DigestLen(f) => {
            cms.attrs[1] = der::attr_message_digest(&f.value(&keys::sha256(content)));
            cms.signature = keys::raw_sign(ee_key, &der::attrs_to_be_signed(&cms.attrs));
            f.swap_content(&mut cms.content);
        }
        Fault::ContentAfter => swap_content(&mut cms.content),
        Fault::SigWrongKey => {
            cms.signature = keys::raw_sign(ee_key + 1, &der::attrs_to_be_signed(&cms.attrs));
        }
        Fault::SigOtherBytes => {
            let mut a = cms.attrs.clone();
            a[2] = der::attr_signing_time(der::TimeEnc::new(c.opts.st + 1, false));
            cms.signature = keys::raw_sign(ee_key, &der::attrs_to_be_signed(&a));
        }
        Fault::Sid => cms.sid = key_id(ee_key + 1),
        _ => {}
    }
    let attrs_len = der::attrs_content_len(&cms.attrs);
    let mut bytes = cms.encode();
    if let Fault::Bytes(b) = c.fault {
        b.apply(&mut bytes)?;
    }
    Ok((bytes, attrs_len))
}

fn foreign_expectation(c: &Foreign) -> bool {
    c.fault == Fault::None
        && c.ee_win.contains_when()
        && c.crl_win.contains_when()
        && c.ee_bc != Some(true)
        && !c.revoked_has_ee
}

fn label_foreign(c: &Foreign, attrs_len: usize, expect: bool, obs: &mut Obs) {
    obs.label(c.fault.label());
    obs.label(if expect { "expect-accept" } else { "expect-reject" });
    obs.label_if(attrs_len >= 128, "attrs>=128");
    obs.label_if(attrs_len >= 256, "attrs>=256");
    obs.label_if((126..=129).contains(&attrs_len), "attrs-126..129");
    obs.label_if((254..=258).contains(&attrs_len), "attrs-254..258");
    obs.label_if(attrs_len == 256, "attrs=256");
    obs.label_if(!c.ee_win.contains_when(), "ee-not-current");
    obs.label_if(!c.crl_win.contains_when(), "crl-not-current");
    obs.label_if(matches!(c.ee_win, Win::Around(0, _) | Win::Around(_, 0)), "ee-edge");
    obs.label_if(matches!(c.crl_win, Win::Around(0, _) | Win::Around(_, 0)), "crl-edge");
    obs.label_if(c.ee_bc == Some(true), "ee-is-ca");
    obs.label_if(c.ee_bc == Some(false), "ee-bc-false");
    obs.label_if(c.revoked_has_ee, "ee-revoked");
    obs.label_if(c.ee_ext_perm != 0, "ee-extensions-reordered");
    obs.label_if(c.crl_entry_ext != 0 && (c.revoked_others > 0 || c.revoked_has_ee), "crl-entry-extensions");
    obs.label_if(c.crl_entry_ext != 0 && c.revoked_has_ee, "ee-revoked-entry-with-extensions");
    obs.label_if(c.revoked_has_ee && revoked_serials(c).1, "ee-revoked-after-larger-serial");
    obs.label_if(c.revoked_has_ee && c.revoked_others > 0 && !revoked_serials(c).1, "ee-revoked-no-larger-before");
    obs.label_if(!c.crl_win.contains_when() && !c.crl_aki, "crl-not-current-no-aki");
    obs.label_if(!c.crl_win.contains_when() && c.crl_aki, "crl-not-current-with-aki");
    obs.label_if(c.revoked_others > 0 && !c.revoked_has_ee, "crl-nonempty-ee-not-listed");
    obs.label_if(!c.ee_aki, "ee-no-aki");
    obs.label_if(!c.crl_aki, "crl-no-aki");
    obs.label_if(!c.extra_attrs.is_empty(), "extra-attrs");
    obs.label_if(!c.crl_exts.is_empty(), "crl-unknown-ext");
    obs.label_if(!c.ee_exts.is_empty() || c.ee_key_usage, "ee-unknown-ext");
    obs.nontrivial_if(!c.extra_attrs.is_empty() || c.revoked_others > 0 || c.revoked_has_ee || !expect);
}

pub const SIG_CRL_EXT: &str = "crl-unknown-extension-not-skipped";

/// A message whose only peculiarity is an unrecognised non-critical CRL
/// extension fails to decode: specific finding.
fn crl_ext_finding(c: &Foreign, expect: bool, got: &Result<(), String>) -> CheckResult {
    if let (true, Err(e)) = (expect, got) {
        if e.starts_with("decode") && !c.crl_exts.is_empty() {
            return Err(Fail::sig(
                SIG_CRL_EXT,
                format!(
                    "message meeting all conditions is rejected at decoding when its CRL carries an unrecognised \
                     non-critical extension ({}); crl_exts={:?}",
                    e, c.crl_exts
                ),
            ));
        }
    }
    Ok(())
}

/// Which embedded part does the library refuse to decode? (diagnostics only)
fn decode_diagnostics(bytes: &[u8]) -> String {
    let Ok(v) = der::cms_parse(bytes) else { return String::new() };
    let mut out = String::new();
    if std::env::var("VERIF_DEBUG_HEX").is_ok() {
        if let Some(c) = v.crls.first() {
            out.push_str(&format!(" [CRL {}]", c.iter().map(|b| format!("{:02x}", b)).collect::<String>()));
        }
    }
    if let Some(c) = v.certs.first() {
        if let Err(e) = rpki::ca::idcert::IdCert::decode(c.as_slice()) {
            out.push_str(&format!(" [IdCert::decode of the EE certificate: {}]", e));
        }
    }
    out
}

/// The other public routes to the verdict on a foreign message: strict-mode
/// decoding (the writer emits DER throughout), the outer unsigned layers in
/// BER dress as streaming encoders emit them, and - for cases placed at the
/// wall clock - the clock-based `validate`. All must agree with
/// `decode(.., false)` + `validate_at`.
fn other_routes(c: &Foreign, bytes: &[u8], vkey: &rpki::crypto::PublicKey, got: &Result<(), String>, obs: &mut Obs) -> CheckResult {
    let run = |what: &str, b: &[u8], strict: bool| -> Result<Result<(), String>, Fail> {
        no_panic(what, || match SignedMessage::decode(b, strict) {
            Err(e) => Err(format!("decode: {}", e)),
            Ok(m) => m.validate_at(vkey, lib_time(c.when)).map_err(|e| e.to_string()),
        })
    };
    let strict = run("strict decode", bytes, true)?;
    ensure_sig!(strict.is_ok() == got.is_ok(), "c10:routes-disagree",
        "a DER-encoded message gets {:?} through SignedMessage::decode(.., true) but {:?} through decode(.., false) (fault {:?}, {} extra signed attributes)",
        strict, got, c.fault, c.extra_attrs.len());
    if !matches!(c.fault, Fault::Bytes(_)) {
        for style in 1..=3u8 {
            let Ok(ber) = der::ber_outer_framing(bytes, style) else { continue };
            let r = run("BER-framed decode", &ber, false)?;
            ensure_sig!(r.is_ok() == got.is_ok(), "c10:routes-disagree",
                "the message with its unsigned outer layers in BER framing (style {}) gets {:?}, in DER {:?} (fault {:?})", style, r, got, c.fault);
            obs.label("ber-framed");
        }
    }
    if c.at_clock {
        obs.label("at-clock");
        let r = no_panic("validate (clock)", || match SignedMessage::decode(bytes, false) {
            Err(e) => Err(format!("decode: {}", e)),
            Ok(m) => m.validate(vkey).map_err(|e| e.to_string()),
        })?;
        ensure_sig!(r.is_ok() == got.is_ok(), "c10:routes-disagree",
            "SignedMessage::validate (evaluation time = the clock) says {:?}, validate_at(now) says {:?} (fault {:?}, EE revoked: {}, windows {:?} / {:?})",
            r, got, c.fault, c.revoked_has_ee, c.ee_win, c.crl_win);
    }
    Ok(())
}

fn run_foreign(c: &Foreign, obs: &mut Obs) -> CheckResult {
    let c = &c.materialised();
    let issuer = c.issuer as usize % POOL_SIZE;
    let content = c.content.bytes();
    let (bytes, attrs_len) = build_foreign(c, oids::CT_PROTOCOL, &content)?;
    let expect = foreign_expectation(c);
    // harness self-consistency: own verifier agrees on the time-independent part
    let own = own_validate(&bytes, issuer);
    let own_expect = matches!(c.fault, Fault::None | Fault::OtherPeerKey) && c.ee_bc != Some(true) && !c.revoked_has_ee;
    if own_expect {
        ensure!(own.is_ok(), "harness verifier rejects a message of the harness writer: {:?}", own);
    } else {
        ensure!(own.is_err(), "harness verifier does not notice {:?} / CA / revoked", c.fault);
    }
    let vkey = key_info(if c.fault == Fault::OtherPeerKey { issuer + 1 } else { issuer });
    let got: Result<(), String> = match SignedMessage::decode(bytes.as_slice(), false) {
        Err(e) => Err(format!("decode: {}{}", e, decode_diagnostics(&bytes))),
        Ok(m) => {
            if c.fault == Fault::None {
                ensure_eq!(m.content().to_bytes().to_vec(), content, "content of the decoded message");
            }
            m.validate_at(&vkey, lib_time(c.when)).map_err(|e| e.to_string())
        }
    };
    label_foreign(c, attrs_len, expect, obs);
    crl_ext_finding(c, expect, &got)?;
    other_routes(c, &bytes, &vkey, &got, obs)?;
    verdict("foreign", expect, &got, attrs_len, &|| {
        format!(
            "fault={:?} ee_win={:?} crl_win={:?} ee_bc={:?} revoked_has_ee={} others={} ee_aki={} crl_aki={} extra_attrs={}",
            c.fault, c.ee_win, c.crl_win, c.ee_bc, c.revoked_has_ee, c.revoked_others, c.ee_aki, c.crl_aki, c.extra_attrs.len()
        )
    })
}

//============ sub-check: protocol ===============================================

#[derive(Clone, Debug, Serialize, Deserialize)]
pub enum ProtoMsg {
    ProvList { sender: String, recipient: String },
    PubListQuery,
    PubSuccess,
    PubDelta { file: String, data: Vec<u8> },
}

#[derive(Clone, Debug, Serialize, Deserialize)]
pub struct Proto {
    pub msg: ProtoMsg,
    pub issuer: u8,
    pub ee_key: u8,
    pub rng: u64,
    /// evaluation time as offset (seconds) from the moment of creation
    pub delta: i32,
    pub key_off: u8,
    /// Some: wrapped by der.rs instead of `*Cms::create`
    pub foreign: Option<Foreign>,
}

fn proto_strategy(_: Tier) -> BoxedStrategy<Proto> {
    let handle = "[A-Za-z0-9_-]{1,12}";
    let msg = prop_oneof![
        2 => (handle, handle).prop_map(|(sender, recipient)| ProtoMsg::ProvList { sender, recipient }),
        1 => Just(ProtoMsg::PubListQuery),
        1 => Just(ProtoMsg::PubSuccess),
        2 => ("[a-z0-9]{1,8}", prop::collection::vec(any::<u8>(), 1..64)).prop_map(|(file, data)| ProtoMsg::PubDelta { file, data }),
    ];
    (
        msg,
        0u8..8,
        0u8..8,
        any::<u64>(),
        prop::sample::select(vec![0i32, 60, -60, 240, -240, 420, -420, 3600, -3600, 86_400, -86_400]),
        prop_oneof![3 => Just(0u8), 1 => 1u8..8],
        prop::option::weighted(0.5, foreign_strategy(Tier::Quick)),
    )
        .prop_map(|(msg, issuer, ee, rng, delta, key_off, foreign)| {
            let (issuer, ee_key) = distinct_keys(issuer, ee);
            let foreign = foreign.map(|mut f| {
                f.issuer = issuer;
                f.ee_key = ee_key;
                f
            });
            Proto { msg, issuer, ee_key, rng, delta, key_off, foreign }
        })
        .boxed()
}

enum AnyMsg {
    Prov(provisioning::Message),
    Publ(publication::Message),
}

fn make_msg(m: &ProtoMsg) -> Result<AnyMsg, Fail> {
    Ok(match m {
        ProtoMsg::ProvList { sender, recipient } => AnyMsg::Prov(provisioning::Message::list(
            SenderHandle::from_str(sender).map_err(|e| Fail::new(format!("handle: {}", e)))?,
            RecipientHandle::from_str(recipient).map_err(|e| Fail::new(format!("handle: {}", e)))?,
        )),
        ProtoMsg::PubListQuery => AnyMsg::Publ(publication::Message::list_query()),
        ProtoMsg::PubSuccess => AnyMsg::Publ(publication::Message::success()),
        ProtoMsg::PubDelta { file, data } => {
            let u = uri::Rsync::from_string(format!("rsync://example.com/repo/{}.cer", file))
                .map_err(|e| Fail::new(format!("uri: {}", e)))?;
            let mut d = publication::PublishDelta::empty();
            d.add_publish(publication::Publish::with_hash_tag(u, publication::Base64::from_content(data)));
            AnyMsg::Publ(publication::Message::delta(d))
        }
    })
}

fn run_proto(c: &Proto, obs: &mut Obs) -> CheckResult {
    let issuer = c.issuer as usize % POOL_SIZE;
    let msg = make_msg(&c.msg)?;
    obs.label(match (&msg, c.foreign.is_some()) {
        (AnyMsg::Prov(_), false) => "provisioning:created",
        (AnyMsg::Prov(_), true) => "provisioning:foreign",
        (AnyMsg::Publ(_), false) => "publication:created",
        (AnyMsg::Publ(_), true) => "publication:foreign",
    });
    if let Some(f) = &c.foreign {
        let f = &f.materialised();
        // independently wrapped protocol XML
        let xml = match &msg {
            AnyMsg::Prov(m) => m.to_xml_bytes(),
            AnyMsg::Publ(m) => m.to_xml_bytes(),
        };
        let (bytes, attrs_len) = build_foreign(f, oids::CT_PROTOCOL, xml.as_ref())?;
        let expect = foreign_expectation(f);
        let vkey = key_info(if f.fault == Fault::OtherPeerKey { issuer + 1 } else { issuer });
        let intact = !matches!(f.fault, Fault::ContentAfter | Fault::Bytes(_) | Fault::DigestLen(DigestFault::EmptySwap));
        let got: Result<(), String> = match &msg {
            AnyMsg::Prov(m) => match ProvisioningCms::decode(&bytes) {
                Err(e) => Err(format!("decode: {}", e)),
                Ok(cms) => {
                    if intact {
                        ensure!(cms.message() == m, "decoded provisioning message differs from the wrapped one");
                    }
                    cms.validate_at(&vkey, lib_time(f.when)).map_err(|e| e.to_string())
                }
            },
            AnyMsg::Publ(m) => match PublicationCms::decode(&bytes) {
                Err(e) => Err(format!("decode: {}", e)),
                Ok(cms) => {
                    let r = cms.validate_at(&vkey, lib_time(f.when)).map_err(|e| e.to_string());
                    if intact {
                        ensure!(&cms.into_message() == m, "decoded publication message differs from the wrapped one");
                    }
                    r
                }
            },
        };
        label_foreign(f, attrs_len, expect, obs);
        crl_ext_finding(f, expect, &got)?;
        // the protocol wrappers on the same message in BER framing, and with the clock
        if !matches!(f.fault, Fault::Bytes(_)) {
            for style in 1..=3u8 {
                let Ok(ber) = der::ber_outer_framing(&bytes, style) else { continue };
                let r: Result<(), String> = no_panic("protocol wrapper on BER framing", || match &msg {
                    AnyMsg::Prov(_) => ProvisioningCms::decode(&ber).map_err(|e| format!("decode: {}", e)).and_then(|cms| cms.validate_at(&vkey, lib_time(f.when)).map_err(|e| e.to_string())),
                    AnyMsg::Publ(_) => PublicationCms::decode(&ber).map_err(|e| format!("decode: {}", e)).and_then(|cms| cms.validate_at(&vkey, lib_time(f.when)).map_err(|e| e.to_string())),
                })?;
                ensure_sig!(r.is_ok() == got.is_ok(), "c10:routes-disagree",
                    "protocol message with its unsigned outer layers in BER framing (style {}) gets {:?}, in DER {:?} (fault {:?}, {:?})", style, r, got, f.fault, c.msg);
                obs.label("ber-framed");
            }
        }
        if f.at_clock {
            obs.label("at-clock");
            let r: Result<(), String> = no_panic("validate (clock)", || match &msg {
                AnyMsg::Prov(_) => ProvisioningCms::decode(&bytes).map_err(|e| format!("decode: {}", e)).and_then(|cms| cms.validate(&vkey).map_err(|e| e.to_string())),
                AnyMsg::Publ(_) => PublicationCms::decode(&bytes).map_err(|e| format!("decode: {}", e)).and_then(|cms| cms.validate(&vkey).map_err(|e| e.to_string())),
            })?;
            ensure_sig!(r.is_ok() == got.is_ok(), "c10:routes-disagree",
                "validate (evaluation time = the clock) of the protocol wrapper says {:?}, validate_at(now) says {:?} (fault {:?}, EE revoked: {})", r, got, f.fault, f.revoked_has_ee);
        }
        return verdict("protocol/foreign", expect, &got, attrs_len, &|| format!("fault={:?} msg={:?}", f.fault, c.msg));
    }

    // library-created: validity is now-5min .. now+5min (wall clock inside the
    // library); the evaluation time is the creation moment plus `delta`.
    let signer = PoolSigner::with_first(c.ee_key as usize, c.rng);
    let t0 = Time::now();
    let bytes = match &msg {
        AnyMsg::Prov(m) => ProvisioningCms::create(m.clone(), &signer.key(issuer), &signer)
            .map_err(|e| Fail::new(format!("ProvisioningCms::create failed: {}", e)))?
            .to_bytes(),
        AnyMsg::Publ(m) => PublicationCms::create(m.clone(), &signer.key(issuer), &signer)
            .map_err(|e| Fail::new(format!("PublicationCms::create failed: {}", e)))?
            .to_bytes(),
    };
    let attrs_len = own_validate(&bytes, issuer).map_err(|e| {
        Fail::new(format!("library-created protocol CMS does not validate with the independent verifier: {}", e))
    })?;
    let when = t0 + chrono::TimeDelta::try_seconds(c.delta as i64).unwrap();
    // |delta| <= 240 s is inside, >= 420 s outside the +-300 s window even if
    // creation took up to a minute
    let in_window = c.delta.abs() <= 240;
    let expect = in_window && c.key_off % POOL_SIZE as u8 == 0;
    let vkey = key_info(issuer + c.key_off as usize);
    let got: Result<(), String> = match &msg {
        AnyMsg::Prov(m) => match ProvisioningCms::decode(bytes.as_ref()) {
            Err(e) => return Err(Fail::new(format!("library-created provisioning CMS does not decode: {}", e))),
            Ok(cms) => {
                ensure!(cms.message() == m, "decoded provisioning message differs from the created one");
                cms.validate_at(&vkey, when).map_err(|e| e.to_string())
            }
        },
        AnyMsg::Publ(m) => match PublicationCms::decode(bytes.as_ref()) {
            Err(e) => return Err(Fail::new(format!("library-created publication CMS does not decode: {}", e))),
            Ok(cms) => {
                let r = cms.validate_at(&vkey, when).map_err(|e| e.to_string());
                ensure!(&cms.into_message() == m, "decoded publication message differs from the created one");
                r
            }
        },
    };
    obs.label(if expect { "expect-accept" } else { "expect-reject" });
    obs.label_if(!in_window, "out-of-window");
    obs.label_if(c.key_off % POOL_SIZE as u8 != 0, "other-key");
    obs.nontrivial_if(!expect);
    verdict("protocol/created", expect, &got, attrs_len, &|| format!("delta={} key_off={} msg={:?}", c.delta, c.key_off, c.msg))
}

const FOREIGN_FLOORS: &[(&str, f64)] = &[
    ("attrs>=128", 0.3),
    ("attrs>=256", 0.12),
    ("attrs-126..129", 0.04),
    ("attrs-254..258", 0.08),
    ("attrs=256", 0.015),
    ("expect-accept", 0.07),
    ("fault:digest", 0.02),
    ("fault:digest-short", 0.025),
    ("fault:digest-long", 0.02),
    ("fault:digest-empty-swap", 0.012),
    ("fault:content-after", 0.02),
    ("fault:sig-wrong-key", 0.02),
    ("fault:sig-other-bytes", 0.02),
    ("fault:sid", 0.02),
    ("fault:ee-wrong-signer", 0.02),
    ("fault:crl-wrong-signer", 0.02),
    ("fault:other-peer-key", 0.02),
    ("tamper:sig-flip", 0.02),
    ("tamper:attrs-flip", 0.02),
    ("tamper:content-flip", 0.02),
    ("tamper:cert-tbs-flip", 0.02),
    ("tamper:crl-tbs-flip", 0.02),
    ("ee-revoked-after-larger-serial", 0.012),
    ("crl-not-current-no-aki", 0.04),
    ("crl-not-current-with-aki", 0.04),
    ("ee-not-current", 0.08),
    ("crl-not-current", 0.08),
    ("ee-edge", 0.15),
    ("crl-edge", 0.15),
    ("ee-is-ca", 0.04),
    ("ee-revoked", 0.04),
    ("crl-nonempty-ee-not-listed", 0.2),
    ("ee-no-aki", 0.15),
    ("crl-no-aki", 0.2),
];

pub fn property() -> Property {
    Property {
        id: "C10",
        rule: RULE,
        assumptions: vec![
            "RSA PKCS#1 v1.5 / SHA-256 of aws-lc-rs (used directly by the harness) is correct; any change of a signed byte or of a signature value must be rejected",
            "conditions not named in the property (AKI naming another key, SKI not matching the key, CRLs without an extensions field, non-DER encodings) are not generated",
            "ProvisioningCms::create / PublicationCms::create take their +-5 min validity from the wall clock: those cases are evaluated at the creation moment + d with |d| <= 4 min (inside) or >= 7 min (outside); creation is assumed to take < 60 s",
            "SignedMessage::create stores the wall clock as signing time and CRL number; both have fixed encoded lengths and no verdict depends on them",
        ],
        subs: vec![
            PropSub {
                name: "created",
                strategy: created_strategy,
                cases: |t| t.pick(72_000, 800_000),
                run: run_created,
                floors: &[
                    ("expect-accept", 0.15),
                    ("out-of-window", 0.1),
                    ("other-key", 0.1),
                    ("edge-time", 0.2),
                    ("tamper:sig-flip", 0.03),
                    ("tamper:attrs-flip", 0.03),
                    ("tamper:content-flip", 0.03),
                    ("tamper:cert-tbs-flip", 0.03),
                    ("tamper:crl-tbs-flip", 0.03),
                    ("tamper:digest-short", 0.025),
                    ("tamper:digest-long", 0.02),
                    ("tamper:digest-empty-swap", 0.01),
                ],
            }
            .boxed(),
            PropSub { name: "foreign", strategy: foreign_strategy, cases: |t| t.pick(120_000, 1_200_000), run: run_foreign, floors: FOREIGN_FLOORS }
                .boxed(),
            PropSub {
                name: "protocol",
                strategy: proto_strategy,
                cases: |t| t.pick(36_000, 400_000),
                run: run_proto,
                floors: &[
                    ("provisioning:created", 0.08),
                    ("provisioning:foreign", 0.08),
                    ("publication:created", 0.15),
                    ("publication:foreign", 0.15),
                    ("expect-accept", 0.12),
                ],
            }
            .boxed(),
        ],
    }
}
