//! C10 — stub (not built yet).

use crate::engine::*;

pub fn property() -> Property {
    Property { id: "C10", rule: "", assumptions: vec![], subs: vec![] }
}
