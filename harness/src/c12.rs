//! C12 — URIs: parsed form is faithful, equality/hash agree, path algebra is
//! consistent.
//!
//! All oracles work on the *text* of the URIs with the harness' own splitter
//! (`split_rsync` / `split_https`); the library accessors are only compared
//! against that.

use crate::engine::*;
use bytes::Bytes;
use proptest::prelude::*;
use rpki::uri::{Https, Rsync, Scheme};
use serde::{Deserialize, Serialize};
use serde_json::json;
use std::collections::BTreeSet;
use std::hash::{Hash, Hasher};
use std::str::FromStr;
use std::sync::OnceLock;

pub const RULE: &str = "parse: complete enumeration of all byte strings prefix||w, prefix in {rsync://, RSYNC://, https://, \
hTTps://, rsync:/, ''}, w over the alphabet {a B / . : ~ SPACE} up to length 7 (quick) / 9 (thorough), offered to every \
Rsync and Https constructor; oracle = harness splitter with a three-valued verdict (must-accept: documented structure, \
documented-allowed characters, conventional host[:port] authority; must-reject: wrong scheme, forbidden/non-ASCII byte, \
missing/empty authority or module, empty or dot segment; don't-care otherwise, e.g. '@' '!' or odd authorities), accepted => \
text unchanged, accessors recompose, parent() result checked; non-trivial = string accepted by a parser (parent call on \
it). pairs: complete enumeration of ordered pairs over D = {library-accepted rsync strings of the parse enumeration with \
|w|<=5} + {rsync,RSYNC}://{a,A,b}/{a,A,b}/{all valid paths over a A / up to length 5 (thorough 6)}; oracle = reference \
equality on text (scheme+authority case-insensitive, rest exact) for ==, symmetry, hash, == &str, relative_to/is_parent_of \
laws incl. join-back and invariance under case variants of scheme+authority; non-trivial = pair with common \
authority+module. triples: complete enumeration over a 304-element rsync and a 96-element https domain for transitivity of \
== and parent-of and agreement of parent-of with ==; non-trivial = triple whose premise holds. join: complete enumeration \
of (base, arg), 16 rsync + 14 https bases, arg over the alphabet up to length 6 (thorough 8); oracle = verdict on arg, text \
base[/]arg, re-parse equal with same accessors, same authority (and module), base parent-of result, parent() of result; \
non-trivial = join accepted. random: structured URIs (1-4 host labels, port, mixed case in scheme/authority/module/path, \
0-8 segments, trailing slash), optionally damaged (forbidden/control/non-ASCII byte, empty or dot segment, truncation, \
scheme typo), with two URIs derived by relations (case variants, ancestor, descendant, sibling, other host/module, \
trailing slash) and a join argument; all of the above oracles on every string, ordered pair and triple; non-trivial = \
at least two accepted URIs with common authority+module (rsync) / authority (https), or an accepted join. Derived values: clones, unshare()d copies, the result of the path_into_dir setter (one slash appended unless the path is empty or ends in one, idempotent, equal up to one trailing slash to its origin, joinable) and deserialised URIs (same verdict as the parsers, same value; from a string, a JSON value) obey the same laws; the values parent() and join() return are put through the pair laws with their origin as returned (they may share memory with it), grandparent included. octets: every octet value 0..255 at every kind of position (authority / module / path segment start, inside, end; end of URI; own segment) of four URIs, and inside join arguments (complete). random includes hosts of 64..380 octets (acceptance demanded up to 253) and path segments of 100..300 octets; percent-encoded dot segments are don't-care for acceptance.";

//------------ byte strings as JSON ---------------------------------------------

/// Byte string that serialises as a JSON string (byte b <-> char U+00bb).
#[derive(Clone, PartialEq, Eq, Hash)]
pub struct Bs(pub Vec<u8>);

impl std::fmt::Debug for Bs {
    fn fmt(&self, f: &mut std::fmt::Formatter) -> std::fmt::Result {
        write!(f, "b\"{}\"", self.0.escape_ascii())
    }
}
impl Serialize for Bs {
    fn serialize<S: serde::Serializer>(&self, s: S) -> Result<S::Ok, S::Error> {
        s.serialize_str(&self.0.iter().map(|&b| b as char).collect::<String>())
    }
}
impl<'de> Deserialize<'de> for Bs {
    fn deserialize<D: serde::Deserializer<'de>>(d: D) -> Result<Self, D::Error> {
        let s = String::deserialize(d)?;
        s.chars()
            .map(|c| u8::try_from(c as u32).map_err(|_| serde::de::Error::custom("char above U+00FF")))
            .collect::<Result<Vec<u8>, _>>()
            .map(Bs)
    }
}

fn show(s: &[u8]) -> String {
    format!("\"{}\"", s.escape_ascii())
}

//------------ reference model --------------------------------------------------

#[derive(Clone, Copy, PartialEq, Eq, Debug)]
enum Verdict {
    Accept,
    Reject,
    Free,
}

/// SPACE CONTROL " # < > ? [ \ ] ^ ` { | } and everything outside ASCII.
fn forbidden(b: u8) -> bool {
    b <= 0x20 || b >= 0x7f || matches!(b, b'"' | b'#' | b'<' | b'>' | b'?' | b'[' | b'\\' | b']' | b'^' | b'`' | b'{' | b'|' | b'}')
}

/// Characters the crate documents (unit test `rsync_uri_characters`) as fine.
fn documented_ok(b: u8) -> bool {
    b.is_ascii_alphanumeric() || b"$%&'()*+,-./:;=_~".contains(&b)
}

fn is_dot(seg: &[u8]) -> bool {
    seg == b"." || seg == b".."
}

/// host = dot-separated non-empty alnum/hyphen labels, optional :port.
fn conventional_authority(a: &[u8]) -> bool {
    let (host, port) = match a.iter().position(|&c| c == b':') {
        Some(i) => (&a[..i], Some(&a[i + 1..])),
        None => (a, None),
    };
    if let Some(p) = port {
        if p.is_empty() || p.len() > 5 || !p.iter().all(u8::is_ascii_digit) {
            return false;
        }
    }
    // acceptance is demanded for hosts up to the DNS limit of 253 octets only (longer ones are
    // don't-care for the parsers; once accepted they obey every law)
    !host.is_empty()
        && host.len() <= 253
        && host.split(|&c| c == b'.').all(|l| !l.is_empty() && l.iter().all(|&c| c.is_ascii_alphanumeric() || c == b'-'))
}

/// A segment that spells "." or ".." with one or both dots percent-encoded (RFC 3986
/// 6.2.2.2 treats it as the dot segment): acceptance is not demanded.
fn has_encoded_dot_segment(text: &[u8]) -> bool {
    text.split(|&c| c == b'/').any(|seg| {
        if !seg.contains(&b'%') {
            return false;
        }
        let mut rest = seg;
        let mut dots = 0;
        while !rest.is_empty() {
            if rest[0] == b'.' {
                rest = &rest[1..];
            } else if rest.len() >= 3 && rest[0] == b'%' && rest[1] == b'2' && (rest[2] == b'e' || rest[2] == b'E') {
                rest = &rest[3..];
            } else {
                return false;
            }
            dots += 1;
        }
        dots == 1 || dots == 2
    })
}

/// No empty segment except the last, no dot segment.
fn path_ok(path: &[u8]) -> bool {
    if path.is_empty() {
        return true;
    }
    let segs: Vec<&[u8]> = path.split(|&c| c == b'/').collect();
    let last = segs.len() - 1;
    segs.iter().enumerate().all(|(i, s)| !(s.is_empty() && i != last) && !is_dot(s))
}

/// (authority end, module end) as offsets into `s`; None if the structure
/// `rsync://authority/module/` is not there.
fn split_rsync(s: &[u8]) -> Option<(usize, usize)> {
    if s.len() < 8 || !s[..5].eq_ignore_ascii_case(b"rsync") || &s[5..8] != b"://" {
        return None;
    }
    let ae = 8 + s[8..].iter().position(|&c| c == b'/')?;
    let me = ae + 1 + s[ae + 1..].iter().position(|&c| c == b'/')?;
    if ae == 8 || me == ae + 1 {
        return None;
    }
    Some((ae, me))
}

fn split_https(s: &[u8]) -> Option<usize> {
    if s.len() < 8 || !s[..5].eq_ignore_ascii_case(b"https") || &s[5..8] != b"://" {
        return None;
    }
    Some(8 + s[8..].iter().position(|&c| c == b'/').unwrap_or(s.len() - 8))
}

fn model_rsync(s: &[u8]) -> Verdict {
    if s.iter().any(|&b| forbidden(b)) {
        return Verdict::Reject;
    }
    let Some((ae, me)) = split_rsync(s) else { return Verdict::Reject };
    if is_dot(&s[ae + 1..me]) || !path_ok(&s[me + 1..]) {
        return Verdict::Reject;
    }
    if !s.iter().all(|&b| documented_ok(b)) || !conventional_authority(&s[8..ae]) || has_encoded_dot_segment(&s[ae..]) {
        return Verdict::Free;
    }
    Verdict::Accept
}

fn model_https(s: &[u8]) -> Verdict {
    if s.iter().any(|&b| forbidden(b)) {
        return Verdict::Reject;
    }
    let Some(ae) = split_https(s) else { return Verdict::Reject };
    if !s.iter().all(|&b| documented_ok(b)) || !conventional_authority(&s[8..ae]) || has_encoded_dot_segment(&s[ae..]) {
        return Verdict::Free;
    }
    Verdict::Accept
}

fn model_rsync_arg(arg: &[u8]) -> Verdict {
    if arg.is_empty() {
        return Verdict::Accept;
    }
    if arg.iter().any(|&b| forbidden(b)) || !path_ok(arg) {
        return Verdict::Reject;
    }
    if !arg.iter().all(|&b| documented_ok(b)) || has_encoded_dot_segment(arg) {
        return Verdict::Free;
    }
    Verdict::Accept
}

fn model_https_arg(arg: &[u8]) -> Verdict {
    if arg.iter().any(|&b| forbidden(b)) {
        return Verdict::Reject;
    }
    if !arg.iter().all(|&b| documented_ok(b)) || has_encoded_dot_segment(arg) {
        return Verdict::Free;
    }
    Verdict::Accept
}

fn strip1(p: &[u8]) -> &[u8] {
    if p.last() == Some(&b'/') { &p[..p.len() - 1] } else { p }
}

fn hash_of<T: Hash>(t: &T) -> u64 {
    let mut h = std::collections::hash_map::DefaultHasher::new();
    t.hash(&mut h);
    h.finish()
}

fn toggle_case(s: &[u8], upto: usize) -> Vec<u8> {
    let mut v = s.to_vec();
    for b in &mut v[..upto] {
        if b.is_ascii_lowercase() {
            b.make_ascii_uppercase()
        } else if b.is_ascii_uppercase() {
            b.make_ascii_lowercase()
        }
    }
    v
}

fn check_verdict(what: &str, s: &[u8], v: Verdict, accepted: bool, err: &str) -> CheckResult {
    match (v, accepted) {
        (Verdict::Accept, false) => Err(Fail::new(format!("{} rejected well-formed {} ({})", what, show(s), err))),
        (Verdict::Reject, true) => Err(Fail::sig(format!("{}-accepts-malformed", what), format!("{} accepted malformed {}", what, show(s)))),
        _ => Ok(()),
    }
}

//------------ rsync entries ----------------------------------------------------

#[derive(Clone)]
struct REntry {
    text: String,
    uri: Rsync,
    ae: usize,
    me: usize,
    variant: Rsync,
}

impl REntry {
    fn new(text: &str) -> Result<REntry, Fail> {
        let uri = Rsync::from_str(text).map_err(|e| Fail::new(format!("domain element {:?} rejected: {}", text, e)))?;
        Self::with_uri(text, uri)
    }
    fn with_uri(text: &str, uri: Rsync) -> Result<REntry, Fail> {
        let (ae, me) = split_rsync(text.as_bytes())
            .ok_or_else(|| Fail::new(format!("accepted rsync URI {:?} lacks the rsync://authority/module/ structure", text)))?;
        let vt = toggle_case(text.as_bytes(), ae);
        let variant = Rsync::from_slice(&vt).map_err(|e| {
            Fail::new(format!("{:?} accepted but its scheme/authority case variant {} rejected: {}", text, show(&vt), e))
        })?;
        Ok(REntry { text: text.to_string(), uri, ae, me, variant })
    }
    fn b(&self) -> &[u8] {
        self.text.as_bytes()
    }
    fn module(&self) -> &[u8] {
        &self.b()[self.ae + 1..self.me]
    }
    fn path(&self) -> &[u8] {
        &self.b()[self.me + 1..]
    }
}

fn ref_eq(a: &[u8], ae: usize, b: &[u8], be: usize) -> bool {
    a[..ae].eq_ignore_ascii_case(&b[..be]) && a[ae..] == b[be..]
}

/// Everything the statement says about an accepted rsync URI on its own.
fn check_rsync_accepted(s: &[u8], u: &Rsync) -> CheckResult {
    ensure!(u.as_slice() == s && u.as_str().as_bytes() == s, "Rsync text changed: in {} out {:?}", show(s), u.as_str());
    ensure!(u.to_string().as_bytes() == s && u.to_bytes().as_ref() == s, "Rsync Display/to_bytes differ from input {}", show(s));
    if let Some(b) = s.iter().find(|&&b| forbidden(b)) {
        return Err(Fail::sig("Rsync-accepts-malformed", format!("accepted rsync URI {} contains forbidden byte {:#04x}", show(s), b)));
    }
    let Some((ae, me)) = split_rsync(s) else {
        return Err(Fail::sig("Rsync-accepts-malformed", format!("accepted rsync URI {} lacks rsync://authority/module/", show(s))));
    };
    ensure!(u.authority().as_bytes() == &s[8..ae], "authority() of {} is {:?}", show(s), u.authority());
    ensure!(u.module_name().as_bytes() == &s[ae + 1..me], "module_name() of {} is {:?}", show(s), u.module_name());
    ensure!(u.path().as_bytes() == &s[me + 1..] && u.path_bytes() == &s[me + 1..], "path() of {} is {:?}", show(s), u.path());
    let re = format!("rsync://{}/{}/{}", u.authority(), u.module_name(), u.path());
    ensure!(
        re.as_bytes()[..8].eq_ignore_ascii_case(&s[..8]) && re.as_bytes()[8..] == s[8..],
        "accessors of {} recompose to {:?}", show(s), re
    );
    ensure_sig!(!is_dot(&s[ae + 1..me]) && path_ok(&s[me + 1..]), "Rsync-accepts-malformed",
        "accepted rsync URI {} has an empty or dot segment", show(s));
    ensure!(u.module().as_bytes() == &s[..me + 1], "module() of {} is {:?}", show(s), u.module());
    ensure!(u.canonical_authority().as_bytes() == s[8..ae].to_ascii_lowercase(), "canonical_authority() of {}", show(s));
    let cm = u.canonical_module();
    let mut exp = s[..me + 1].to_vec();
    exp[8..ae].make_ascii_lowercase();
    ensure!(
        cm.len() == exp.len() && cm.as_bytes()[..8].eq_ignore_ascii_case(&exp[..8]) && cm.as_bytes()[8..] == exp[8..],
        "canonical_module() of {} is {:?}", show(s), cm
    );
    ensure!(u.path_is_dir() == (me + 1 == s.len() || s.last() == Some(&b'/')), "path_is_dir() of {}", show(s));
    Ok(())
}

/// A derived URI (result of join/parent) must be a valid URI whose cached
/// offsets agree with its bytes.
fn check_rsync_result(what: &str, r: &Rsync, origin: &Rsync, sig: &str) -> CheckResult {
    let re = match Rsync::from_slice(r.as_slice()) {
        Ok(re) => re,
        Err(e) => return Err(Fail::sig(sig, format!("{}: result {:?} does not re-parse: {}", what, r.as_str(), e))),
    };
    ensure_sig!(*r == re && re == *r, sig, "{}: result {:?} differs from itself re-parsed", what, r.as_str());
    ensure_sig!(hash_of(r) == hash_of(&re), sig, "{}: result {:?} hashes differently from itself re-parsed", what, r.as_str());
    ensure_sig!(
        r.authority() == re.authority() && r.module_name() == re.module_name() && r.path() == re.path(),
        sig,
        "{}: result {:?} has stale components: authority {:?}/{:?} module {:?}/{:?} path {:?}/{:?}",
        what, r.as_str(), r.authority(), re.authority(), r.module_name(), re.module_name(), r.path(), re.path()
    );
    ensure_sig!(
        r.authority() == origin.authority() && r.module_name() == origin.module_name(),
        sig,
        "{}: result {:?} left authority/module of {:?}", what, r.as_str(), origin.as_str()
    );
    check_rsync_accepted(r.as_slice(), r)
}

fn check_rsync_parent(x: &Rsync) -> CheckResult {
    let s = x.as_slice();
    let Some((_, me)) = split_rsync(s) else { return Ok(()) };
    let stripped = strip1(&s[me + 1..]);
    match x.parent() {
        None => {
            ensure!(stripped.is_empty(), "parent() of {:?} is None although it has a path segment", x.as_str());
        }
        Some(p) => {
            ensure!(!stripped.is_empty(), "parent() of {:?} is {:?} although it has no path segment", x.as_str(), p.as_str());
            check_rsync_result("Rsync::parent", &p, x, "")?;
            let cut = match stripped.iter().rposition(|&c| c == b'/') {
                Some(i) => me + 1 + i + 1,
                None => me + 1,
            };
            ensure!(p.as_slice() == &s[..cut], "parent() of {:?} is {:?}, expected {}", x.as_str(), p.as_str(), show(&s[..cut]));
            ensure!(p.path_is_dir(), "parent() {:?} is not a directory", p.as_str());
            ensure!(p.is_parent_of(x), "parent() {:?} is not a parent of its child {:?}", p.as_str(), x.as_str());
            ensure!(!x.is_parent_of(&p), "child {:?} claims to be parent of its parent {:?}", x.as_str(), p.as_str());
            // the value parent() returned (it may share memory with the child), not a re-parsed copy
            ensure!(p != *x && *x != p && !(p == *x), "parent() {:?} compares equal to its child {:?}", p.as_str(), x.as_str());
            let (ep, ex) = (REntry::with_uri(p.as_str(), p.clone())?, REntry::with_uri(x.as_str(), x.clone())?);
            pair_rsync(&ep, &ex)?;
            pair_rsync(&ex, &ep)?;
        }
    }
    Ok(())
}

/// Laws on an ordered pair. Returns whether the pair has a common module.
fn pair_rsync(ex: &REntry, ey: &REntry) -> Result<bool, Fail> {
    let (x, y) = (&ex.uri, &ey.uri);
    let (xb, yb) = (ex.b(), ey.b());
    let auth_eq = xb[..ex.ae].eq_ignore_ascii_case(&yb[..ey.ae]);
    let eq = ref_eq(xb, ex.ae, yb, ey.ae);
    let same_mod = auth_eq && ex.module() == ey.module();
    let case_only = auth_eq && !same_mod && ex.module().eq_ignore_ascii_case(ey.module());
    let sig = if case_only { "rsync-module-case" } else { "" };
    let (xs, ys) = (ex.text.as_str(), ey.text.as_str());

    ensure!((x == y) == eq, "{:?} == {:?} is {}, reference equality says {}", xs, ys, x == y, eq);
    ensure!((y == x) == eq, "== not symmetric on {:?} / {:?}", xs, ys);
    ensure!((*x == ys) == eq, "Rsync {:?} == &str {:?} is {}, reference {}", xs, ys, *x == ys, eq);
    if eq {
        ensure!(hash_of(x) == hash_of(y), "equal URIs {:?} and {:?} hash differently", xs, ys);
    }
    let rel = x.relative_to(y);
    let upto_slash = same_mod && strip1(ex.path()) == strip1(ey.path());
    ensure_sig!(
        (rel == Some("")) == upto_slash, sig,
        "{:?}.relative_to({:?}) = {:?}, but the URIs are{} equal up to one trailing slash", xs, ys, rel, if upto_slash { "" } else { " not" }
    );
    let par = y.is_parent_of(x);
    ensure_sig!(par == matches!(rel, Some(p) if !p.is_empty()), sig,
        "{:?}.is_parent_of({:?}) = {} but relative_to = {:?}", ys, xs, par, rel);
    if let Some(p) = rel {
        if !p.is_empty() {
            match y.join(p.as_bytes()) {
                Ok(j) => ensure_sig!(
                    j == *x && ref_eq(j.as_slice(), ey.ae, xb, ex.ae), sig,
                    "{:?}.relative_to({:?}) = Some({:?}) but joining gives {:?}", xs, ys, p, j.as_str()
                ),
                Err(e) => return Err(Fail::sig(sig, format!("{:?}.relative_to({:?}) = Some({:?}) which join rejects: {}", xs, ys, p, e))),
            }
        }
    }
    if eq {
        ensure!(!par && !x.is_parent_of(y), "equal URIs {:?} / {:?} are parent of each other", xs, ys);
    }
    // x lies beneath y (there is a non-empty q with y.join(q) == x) => parent-of
    let yp = strip1(ey.path());
    let xp = ex.path();
    let beneath = same_mod
        && if yp.is_empty() { !xp.is_empty() } else { xp.len() > yp.len() + 1 && xp.starts_with(yp) && xp[yp.len()] == b'/' };
    ensure!(!beneath || par, "{:?} lies beneath {:?} but is_parent_of is false", xs, ys);
    // replacing an argument by an equal URI changes nothing
    let (xv, yv) = (&ex.variant, &ey.variant);
    ensure!(*xv == *x && hash_of(xv) == hash_of(x), "case variant {:?} of {:?} is not equal / hashes differently", xv.as_str(), xs);
    ensure!(xv.relative_to(y) == rel && x.relative_to(yv) == rel,
        "relative_to changes under an equal URI: {:?} vs {:?}: {:?} / {:?} / {:?}", xs, ys, rel, xv.relative_to(y), x.relative_to(yv));
    ensure!(yv.is_parent_of(x) == par && y.is_parent_of(xv) == par, "is_parent_of changes under an equal URI: {:?} {:?}", ys, xs);
    Ok(same_mod)
}

fn triple_rsync(x: &REntry, y: &REntry, z: &REntry) -> Result<bool, Fail> {
    let (a, b, c) = (&x.uri, &y.uri, &z.uri);
    let mut nt = false;
    if a == b {
        if b == c {
            nt = true;
            ensure!(a == c, "== not transitive: {:?} {:?} {:?}", x.text, y.text, z.text);
        }
        ensure!(
            a.is_parent_of(c) == b.is_parent_of(c) && c.is_parent_of(a) == c.is_parent_of(b),
            "parent-of disagrees with ==: {:?} == {:?}, third {:?}", x.text, y.text, z.text
        );
    }
    if a.is_parent_of(b) && b.is_parent_of(c) {
        nt = true;
        ensure!(a.is_parent_of(c), "parent-of not transitive: {:?} > {:?} > {:?}", x.text, y.text, z.text);
    }
    Ok(nt)
}

fn join_rsync(base: &REntry, arg: &[u8]) -> Result<bool, Fail> {
    let v = model_rsync_arg(arg);
    let r = base.uri.join(arg);
    check_verdict("Rsync::join", arg, v, r.is_ok(), &r.as_ref().err().map(|e| e.to_string()).unwrap_or_default())?;
    let Ok(j) = r else { return Ok(false) };
    check_rsync_result("Rsync::join", &j, &base.uri, "")?;
    if arg.is_empty() {
        ensure!(j == base.uri && j.as_slice() == base.b(), "join(\"\") of {:?} gives {:?}", base.text, j.as_str());
        return Ok(true);
    }
    let mut exp = base.b().to_vec();
    if exp.last() != Some(&b'/') {
        exp.push(b'/');
    }
    exp.extend_from_slice(arg);
    ensure!(j.as_slice() == exp, "{:?}.join({}) = {:?}, expected {}", base.text, show(arg), j.as_str(), show(&exp));
    ensure!(base.uri.is_parent_of(&j), "{:?} is not parent of its join {:?}", base.text, j.as_str());
    ensure!(!j.is_parent_of(&base.uri), "join {:?} is parent of its base {:?}", j.as_str(), base.text);
    let ej = REntry::with_uri(j.as_str(), j.clone())?;
    pair_rsync(&ej, base)?;
    pair_rsync(base, &ej)?;
    check_rsync_parent(&j)?;
    Ok(true)
}

//------------ https entries ----------------------------------------------------

#[derive(Clone)]
struct HEntry {
    text: String,
    uri: Https,
    ae: usize,
    variant: Https,
}

impl HEntry {
    fn new(text: &str) -> Result<HEntry, Fail> {
        let uri = Https::from_str(text).map_err(|e| Fail::new(format!("domain element {:?} rejected: {}", text, e)))?;
        Self::with_uri(text, uri)
    }
    fn with_uri(text: &str, uri: Https) -> Result<HEntry, Fail> {
        let ae = split_https(text.as_bytes()).ok_or_else(|| Fail::new(format!("accepted https URI {:?} lacks https://", text)))?;
        let vt = toggle_case(text.as_bytes(), ae);
        let variant = Https::from_slice(&vt)
            .map_err(|e| Fail::new(format!("{:?} accepted but its case variant {} rejected: {}", text, show(&vt), e)))?;
        Ok(HEntry { text: text.to_string(), uri, ae, variant })
    }
    fn b(&self) -> &[u8] {
        self.text.as_bytes()
    }
}

fn check_https_accepted(s: &[u8], u: &Https) -> CheckResult {
    ensure!(u.as_slice() == s && u.as_str().as_bytes() == s && u.to_string().as_bytes() == s, "Https text changed: in {} out {:?}", show(s), u.as_str());
    if let Some(b) = s.iter().find(|&&b| forbidden(b)) {
        return Err(Fail::sig("Https-accepts-malformed", format!("accepted https URI {} contains forbidden byte {:#04x}", show(s), b)));
    }
    let Some(ae) = split_https(s) else {
        return Err(Fail::sig("Https-accepts-malformed", format!("accepted https URI {} lacks the https:// scheme", show(s))));
    };
    ensure!(u.scheme() == Scheme::Https && u.scheme().as_str().as_bytes().eq_ignore_ascii_case(&s[..5]), "scheme() of {}", show(s));
    ensure!(u.authority().as_bytes() == &s[8..ae], "authority() of {} is {:?}, expected {}", show(s), u.authority(), show(&s[8..ae]));
    ensure!(u.path().as_bytes() == &s[ae..], "path() of {} is {:?}, expected {}", show(s), u.path(), show(&s[ae..]));
    let re = format!("{}{}{}", u.scheme(), u.authority(), u.path());
    ensure!(re.as_bytes()[..8].eq_ignore_ascii_case(&s[..8]) && re.as_bytes()[8..] == s[8..], "accessors of {} recompose to {:?}", show(s), re);
    ensure!(u.canonical_authority().as_bytes() == s[8..ae].to_ascii_lowercase(), "canonical_authority() of {}", show(s));
    ensure!(u.path_is_dir() == (ae == s.len() || s.last() == Some(&b'/')), "path_is_dir() of {}", show(s));
    Ok(())
}

fn check_https_result(what: &str, r: &Https, origin: &Https, sig: &str) -> CheckResult {
    let re = match Https::from_slice(r.as_slice()) {
        Ok(re) => re,
        Err(e) => return Err(Fail::sig(sig, format!("{}: result {:?} does not re-parse: {}", what, r.as_str(), e))),
    };
    ensure_sig!(
        *r == re && re == *r && r.authority() == re.authority() && r.path() == re.path(), sig,
        "{}: result {:?} differs from itself re-parsed (authority {:?} vs {:?}, path {:?} vs {:?})",
        what, r.as_str(), r.authority(), re.authority(), r.path(), re.path()
    );
    ensure_sig!(hash_of(r) == hash_of(&re), sig, "{}: result {:?} hashes differently from itself re-parsed", what, r.as_str());
    ensure_sig!(r.authority() == origin.authority() && r.eq_authority(origin), sig,
        "{}: result {:?} has authority {:?}, origin {:?} has {:?}", what, r.as_str(), r.authority(), origin.as_str(), origin.authority());
    check_https_accepted(r.as_slice(), r)
}

fn check_https_parent(x: &Https) -> CheckResult {
    let s = x.as_slice();
    let Some(ae) = split_https(s) else { return Ok(()) };
    let path = &s[ae..];
    let regular = !path.windows(2).any(|w| w == b"//");
    let stripped = strip1(path);
    match x.parent() {
        None => ensure!(!regular || stripped.is_empty(), "parent() of {:?} is None although it has a path segment", x.as_str()),
        Some(p) => {
            check_https_result("Https::parent", &p, x, "")?;
            ensure!(
                p.as_slice().len() < s.len() && s.starts_with(p.as_slice()) && p.as_slice().last() == Some(&b'/') && p.as_slice().len() > ae,
                "parent() of {:?} is {:?}: not a proper directory prefix", x.as_str(), p.as_str()
            );
            ensure!(p != *x && *x != p && !(p == *x), "parent() {:?} compares equal to its child {:?}", p.as_str(), x.as_str());
            let (ep, ex) = (HEntry::with_uri(p.as_str(), p.clone())?, HEntry::with_uri(x.as_str(), x.clone())?);
            pair_https(&ep, &ex)?;
            pair_https(&ex, &ep)?;
            if let Some(pp) = p.parent() {
                // grandparent, parent and child all come from one buffer
                let epp = HEntry::with_uri(pp.as_str(), pp.clone())?;
                pair_https(&epp, &ex)?;
                pair_https(&epp, &ep)?;
            }
            if regular {
                ensure!(!stripped.is_empty(), "parent() of {:?} is {:?} although it has no path segment", x.as_str(), p.as_str());
                let cut = ae + stripped.iter().rposition(|&c| c == b'/').unwrap_or(0) + 1;
                ensure!(p.as_slice() == &s[..cut], "parent() of {:?} is {:?}, expected {}", x.as_str(), p.as_str(), show(&s[..cut]));
            }
        }
    }
    Ok(())
}

fn pair_https(ex: &HEntry, ey: &HEntry) -> Result<bool, Fail> {
    let (x, y) = (&ex.uri, &ey.uri);
    let eq = ref_eq(ex.b(), ex.ae, ey.b(), ey.ae);
    let auth_eq = ex.b()[8..ex.ae].eq_ignore_ascii_case(&ey.b()[8..ey.ae]);
    ensure!((x == y) == eq && (y == x) == eq, "Https {:?} == {:?} is {}/{}, reference {}", ex.text, ey.text, x == y, y == x, eq);
    if eq {
        ensure!(hash_of(x) == hash_of(y), "equal https URIs {:?} and {:?} hash differently", ex.text, ey.text);
    }
    ensure!(x.eq_authority(y) == auth_eq, "eq_authority of {:?} / {:?}", ex.text, ey.text);
    ensure!(ex.variant == *x && hash_of(&ex.variant) == hash_of(x), "case variant {:?} of {:?} not equal / hashes differently", ex.variant.as_str(), ex.text);
    ensure!((ex.variant == *y) == eq && (*y == ex.variant) == eq, "== changes under an equal URI: {:?} {:?}", ex.text, ey.text);
    Ok(auth_eq)
}

fn join_https(base: &HEntry, arg: &[u8]) -> Result<bool, Fail> {
    let v = model_https_arg(arg);
    let r = base.uri.join(arg);
    check_verdict("Https::join", arg, v, r.is_ok(), &r.as_ref().err().map(|e| e.to_string()).unwrap_or_default())?;
    let Ok(j) = r else { return Ok(false) };
    let pathless = base.ae == base.b().len();
    let sig = if pathless { "https-join-pathless" } else { "" };
    check_https_result("Https::join", &j, &base.uri, sig)?;
    if !arg.is_empty() && base.ae > 8 {
        let mut exp = base.b().to_vec();
        if exp.last() != Some(&b'/') {
            exp.push(b'/');
        }
        exp.extend_from_slice(arg);
        ensure_sig!(j.as_slice() == exp, sig, "{:?}.join({}) = {:?}, expected {}", base.text, show(arg), j.as_str(), show(&exp));
    }
    check_https_parent(&j)?;
    let ej = HEntry::with_uri(j.as_str(), j.clone())?;
    pair_https(&ej, base)?;
    pair_https(base, &ej)?;
    Ok(true)
}

//------------ values derived from an accepted URI ------------------------------

/// Clones, unshared copies and the directory form obtained through the
/// `path_into_dir` setter are URIs like any other: same laws.
fn check_rsync_derived(s: &[u8], u: &Rsync) -> CheckResult {
    let c = u.clone();
    ensure!(c == *u && *u == c && hash_of(&c) == hash_of(u) && c.as_slice() == s, "clone of {} differs", show(s));
    let mut un = u.clone();
    un.unshare();
    ensure!(un == *u && *u == un && hash_of(&un) == hash_of(u), "unshare() changes {}", show(s));
    check_rsync_accepted(s, &un)?;
    let Some((_, me)) = split_rsync(s) else { return Ok(()) };
    for ext in [".cer", "/", "a", "", "B/"] {
        ensure!(u.ends_with(ext) == s[me + 1..].ends_with(ext.as_bytes()), "ends_with({:?}) of {}", ext, show(s));
    }
    let r1: &[u8] = u.as_ref();
    let r2: &str = u.as_ref();
    ensure!(r1 == s && r2.as_bytes() == s, "AsRef of {}", show(s));
    // path_into_dir: appends one slash unless the path is empty or ends in one
    let mut d = u.clone();
    d.path_into_dir();
    let mut exp = s.to_vec();
    if me + 1 != s.len() && s.last() != Some(&b'/') {
        exp.push(b'/');
    }
    ensure_sig!(d.as_slice() == exp, "c12:path-into-dir", "path_into_dir() of {} gives {:?}, expected {}", show(s), d.as_str(), show(&exp));
    check_rsync_result("Rsync::path_into_dir", &d, u, "c12:path-into-dir")?;
    ensure_sig!(d.path_is_dir(), "c12:path-into-dir", "path_into_dir() of {} is not a directory: {:?}", show(s), d.as_str());
    let mut dd = d.clone();
    dd.path_into_dir();
    ensure_sig!(dd == d && dd.as_slice() == d.as_slice(), "c12:path-into-dir", "path_into_dir() is not idempotent on {:?}", d.as_str());
    ensure_sig!(d.relative_to(u) == Some("") && u.relative_to(&d) == Some("") && !d.is_parent_of(u) && !u.is_parent_of(&d),
        "c12:path-into-dir", "{:?} and its directory form {:?} are not equal up to one trailing slash", u.as_str(), d.as_str());
    ensure_sig!((d == *u) == (d.as_slice() == s), "c12:path-into-dir", "directory form {:?} vs {:?}: ==", d.as_str(), u.as_str());
    match d.join(b"a.cer") {
        Ok(j) => {
            let mut e = exp.clone();
            e.extend_from_slice(b"a.cer");
            ensure_sig!(j.as_slice() == e && d.is_parent_of(&j) && u.is_parent_of(&j) && j.relative_to(u) == Some("a.cer"),
                "c12:path-into-dir", "join below the directory form of {} gives {:?}", show(s), j.as_str());
        }
        Err(e) => return Err(Fail::sig("c12:path-into-dir", format!("directory form {:?} cannot be joined: {}", d.as_str(), e))),
    }
    let (ed, eu) = (REntry::with_uri(d.as_str(), d.clone())?, REntry::with_uri(u.as_str(), u.clone())?);
    pair_rsync(&ed, &eu)?;
    pair_rsync(&eu, &ed)?;
    check_rsync_parent(&d)
}

fn check_https_derived(s: &[u8], u: &Https) -> CheckResult {
    let c = u.clone();
    ensure!(c == *u && *u == c && hash_of(&c) == hash_of(u) && c.as_slice() == s, "clone of {} differs", show(s));
    let mut un = u.clone();
    un.unshare();
    ensure!(un == *u && *u == un && hash_of(&un) == hash_of(u), "unshare() changes {}", show(s));
    check_https_accepted(s, &un)?;
    let Some(ae) = split_https(s) else { return Ok(()) };
    let r1: &[u8] = u.as_ref();
    let r2: &str = u.as_ref();
    let r3: &Bytes = u.as_ref();
    ensure!(r1 == s && r2.as_bytes() == s && r3.as_ref() == s, "AsRef of {}", show(s));
    let mut d = u.clone();
    d.path_into_dir();
    let mut exp = s.to_vec();
    if ae != s.len() && s.last() != Some(&b'/') {
        exp.push(b'/');
    }
    ensure_sig!(d.as_slice() == exp, "c12:path-into-dir", "path_into_dir() of {} gives {:?}, expected {}", show(s), d.as_str(), show(&exp));
    check_https_result("Https::path_into_dir", &d, u, "c12:path-into-dir")?;
    ensure_sig!(d.path_is_dir(), "c12:path-into-dir", "path_into_dir() of {} is not a directory: {:?}", show(s), d.as_str());
    let mut dd = d.clone();
    dd.path_into_dir();
    ensure_sig!(dd == d && dd.as_slice() == d.as_slice(), "c12:path-into-dir", "path_into_dir() is not idempotent on {:?}", d.as_str());
    ensure_sig!((d == *u) == (d.as_slice() == s), "c12:path-into-dir", "directory form {:?} vs {:?}: ==", d.as_str(), u.as_str());
    let (ed, eu) = (HEntry::with_uri(d.as_str(), d.clone())?, HEntry::with_uri(u.as_str(), u.clone())?);
    pair_https(&ed, &eu)?;
    pair_https(&eu, &ed)?;
    Ok(())
}

//------------ all constructors on one string -----------------------------------

/// Returns the number of parsers that accepted.
fn check_string(s: &[u8]) -> Result<(Option<Rsync>, Option<Https>), Fail> {
    let vr = model_rsync(s);
    let r = Rsync::from_slice(s);
    check_verdict("Rsync", s, vr, r.is_ok(), &r.as_ref().err().map(|e| e.to_string()).unwrap_or_default())?;
    let vh = model_https(s);
    let h = Https::from_slice(s);
    check_verdict("Https", s, vh, h.is_ok(), &h.as_ref().err().map(|e| e.to_string()).unwrap_or_default())?;
    let rb = Rsync::from_bytes(Bytes::copy_from_slice(s));
    let hb = Https::from_bytes(Bytes::copy_from_slice(s));
    ensure!(rb.is_ok() == r.is_ok() && hb.is_ok() == h.is_ok(), "from_bytes and from_slice disagree on {}", show(s));
    if let Ok(text) = std::str::from_utf8(s) {
        let (r2, r3, r4) = (Rsync::from_str(text), Rsync::from_string(text.to_string()), Rsync::try_from(text.to_string()));
        ensure!(r2.is_ok() == r.is_ok() && r3.is_ok() == r.is_ok() && r4.is_ok() == r.is_ok(), "Rsync constructors disagree on {:?}", text);
        let (h2, h3, h4) = (Https::from_str(text), Https::from_string(text.to_string()), Https::try_from(text.to_string()));
        ensure!(h2.is_ok() == h.is_ok() && h3.is_ok() == h.is_ok() && h4.is_ok() == h.is_ok(), "Https constructors disagree on {:?}", text);
        if let (Ok(a), Ok(b)) = (&r, &r2) {
            ensure!(a == b && a.as_str() == b.as_str(), "from_str and from_slice give different values for {:?}", text);
        }
        if let (Ok(a), Ok(b)) = (&h, &h2) {
            ensure!(a == b && a.as_str() == b.as_str(), "from_str and from_slice give different values for {:?}", text);
        }
    }
    if let Ok(text) = std::str::from_utf8(s) {
        // deserialisation is one more constructor: same verdict, same value
        let js = serde_json::to_string(text).map_err(|e| Fail::new(e.to_string()))?;
        let (rd, hd) = (serde_json::from_str::<Rsync>(&js), serde_json::from_str::<Https>(&js));
        ensure!(rd.is_ok() == r.is_ok() && hd.is_ok() == h.is_ok(), "Deserialize and from_slice disagree on {:?}", text);
        if let (Ok(a), Ok(b)) = (&r, &rd) {
            ensure!(a == b && b == a && a.as_str() == b.as_str() && hash_of(a) == hash_of(b), "Rsync deserialized from {} differs from the parsed one", js);
            check_rsync_accepted(s, b)?;
            let ser = serde_json::to_string(a).map_err(|e| Fail::new(e.to_string()))?;
            ensure!(serde_json::from_str::<Rsync>(&ser).ok().as_ref() == Some(a), "Rsync {:?} does not survive its own serde form {}", text, ser);
            ensure!(serde_json::from_value::<Rsync>(serde_json::Value::String(text.to_string())).ok().as_ref() == Some(a), "Rsync from a JSON value differs for {:?}", text);
        }
        if let (Ok(a), Ok(b)) = (&h, &hd) {
            ensure!(a == b && b == a && a.as_str() == b.as_str() && hash_of(a) == hash_of(b), "Https deserialized from {} differs from the parsed one", js);
            check_https_accepted(s, b)?;
            let ser = serde_json::to_string(a).map_err(|e| Fail::new(e.to_string()))?;
            ensure!(serde_json::from_str::<Https>(&ser).ok().as_ref() == Some(a), "Https {:?} does not survive its own serde form {}", text, ser);
            ensure!(serde_json::from_value::<Https>(serde_json::Value::String(text.to_string())).ok().as_ref() == Some(a), "Https from a JSON value differs for {:?}", text);
        }
    }
    if let Ok(u) = &r {
        check_rsync_accepted(s, u)?;
        check_rsync_parent(u)?;
        check_rsync_derived(s, u)?;
    }
    if let Ok(u) = &h {
        check_https_accepted(s, u)?;
        check_https_parent(u)?;
        check_https_derived(s, u)?;
    }
    Ok((r.ok(), h.ok()))
}

//------------ word enumeration -------------------------------------------------

const ALPHA: &[u8] = b"aB/.:~ ";
const PREFIXES: &[&str] = &["rsync://", "RSYNC://", "https://", "hTTps://", "rsync:/", ""];
const CHUNK: u64 = 4096;

/// Number of words over ALPHA of length <= maxlen.
fn words_upto(maxlen: u32) -> u64 {
    (7u64.pow(maxlen + 1) - 1) / 6
}

/// idx-th word in length-lexicographic order.
fn word(mut idx: u64, out: &mut Vec<u8>) {
    let mut len = 0usize;
    let mut block = 1u64;
    while idx >= block {
        idx -= block;
        block *= 7;
        len += 1;
    }
    out.clear();
    out.resize(len, 0);
    for p in (0..len).rev() {
        out[p] = ALPHA[(idx % 7) as usize];
        idx /= 7;
    }
}

#[derive(Clone, Debug, Serialize, Deserialize)]
pub struct ParseChunk {
    pub prefix: String,
    pub start: u64,
    pub len: u64,
}

fn parse_maxlen(tier: Tier) -> u32 {
    tier.pick(7, 9)
}
fn count_parse(tier: Tier, _: u64) -> u64 {
    PREFIXES.len() as u64 * words_upto(parse_maxlen(tier)).div_ceil(CHUNK)
}
fn make_parse(tier: Tier, _: u64, idx: u64) -> ParseChunk {
    let n = words_upto(parse_maxlen(tier));
    let per = n.div_ceil(CHUNK);
    let start = (idx % per) * CHUNK;
    ParseChunk { prefix: PREFIXES[(idx / per) as usize].to_string(), start, len: CHUNK.min(n - start) }
}

fn run_parse(c: &ParseChunk, obs: &mut Obs) -> CheckResult {
    let mut w = Vec::new();
    let mut s = Vec::new();
    let mut nt = 0u64;
    for i in c.start..c.start + c.len {
        word(i, &mut w);
        s.clear();
        s.extend_from_slice(c.prefix.as_bytes());
        s.extend_from_slice(&w);
        match check_string(&s) {
            Ok((r, h)) => {
                if r.is_some() || h.is_some() {
                    nt += 1;
                }
            }
            Err(f) => {
                return Err(Fail::sig(f.sig, f.msg).with_case(json!({"prefix": c.prefix, "start": i, "len": 1})));
            }
        }
    }
    obs.evals(c.len.saturating_sub(1));
    obs.bulk_nontrivial = nt;
    obs.label_if(nt > 0, "chunk-with-accepted");
    Ok(())
}

//------------ pairs ------------------------------------------------------------

fn valid_paths(alpha: &[u8], maxlen: usize) -> Vec<Vec<u8>> {
    let mut out = vec![Vec::new()];
    let mut level = vec![Vec::new()];
    for _ in 0..maxlen {
        let mut next = Vec::new();
        for p in &level {
            for &c in alpha {
                let mut q: Vec<u8> = p.clone();
                q.push(c);
                // prefixes of valid paths: no leading slash, no double slash
                if q[0] == b'/' || q.ends_with(b"//") {
                    continue;
                }
                next.push(q);
            }
        }
        out.extend(next.iter().filter(|q| path_ok(q)).cloned());
        level = next;
    }
    out
}

/// A domain: every text gets a row (so that an element that cannot be built is
/// reported by its row); `entries` are the elements that could be built.
struct Dom<E> {
    texts: Vec<String>,
    entries: Vec<E>,
}

fn pair_domain(thorough: bool) -> &'static Dom<REntry> {
    static Q: OnceLock<Dom<REntry>> = OnceLock::new();
    static T: OnceLock<Dom<REntry>> = OnceLock::new();
    (if thorough { &T } else { &Q }).get_or_init(|| {
        let mut set = BTreeSet::new();
        let mut w = Vec::new();
        for prefix in ["rsync://", "RSYNC://"] {
            for i in 0..words_upto(5) {
                word(i, &mut w);
                let mut s = prefix.as_bytes().to_vec();
                s.extend_from_slice(&w);
                if Rsync::from_slice(&s).is_ok() {
                    if let Ok(t) = String::from_utf8(s) {
                        set.insert(t);
                    }
                }
            }
            for auth in ["a", "A", "b"] {
                for module in ["a", "A", "b"] {
                    for p in valid_paths(b"aA/", if thorough { 6 } else { 5 }) {
                        set.insert(format!("{}{}/{}/{}", prefix, auth, module, String::from_utf8(p).unwrap()));
                    }
                }
            }
        }
        Dom { entries: set.iter().filter_map(|t| REntry::new(t).ok()).collect(), texts: set.into_iter().collect() }
    })
}

#[derive(Clone, Debug, Serialize, Deserialize)]
pub struct PairRow {
    pub thorough: bool,
    pub a: String,
    pub b: Option<String>,
}

fn count_pairs(tier: Tier, _: u64) -> u64 {
    pair_domain(tier == Tier::Thorough).texts.len() as u64
}
fn make_pairs(tier: Tier, _: u64, idx: u64) -> PairRow {
    let th = tier == Tier::Thorough;
    PairRow { thorough: th, a: pair_domain(th).texts[idx as usize].clone(), b: None }
}

fn run_pairs(r: &PairRow, obs: &mut Obs) -> CheckResult {
    let ea = REntry::new(&r.a)?;
    let single;
    let bs: &[REntry] = match &r.b {
        Some(b) => {
            single = vec![REntry::new(b)?];
            &single
        }
        None => &pair_domain(r.thorough).entries,
    };
    let mut nt = 0u64;
    for eb in bs {
        match pair_rsync(&ea, eb) {
            Ok(true) => nt += 1,
            Ok(false) => {}
            Err(f) => {
                return Err(Fail::sig(f.sig, f.msg).with_case(json!({"thorough": r.thorough, "a": r.a, "b": eb.text})));
            }
        }
    }
    obs.evals((bs.len() as u64).saturating_sub(1));
    obs.bulk_nontrivial = nt;
    Ok(())
}

//------------ triples ----------------------------------------------------------

fn triple_paths() -> Vec<Vec<u8>> {
    let mut set: BTreeSet<Vec<u8>> = valid_paths(b"aA/", 3).into_iter().collect();
    set.extend(valid_paths(b"a/", 5));
    set.into_iter().collect()
}

fn triple_domain_rsync() -> &'static Dom<REntry> {
    static D: OnceLock<Dom<REntry>> = OnceLock::new();
    D.get_or_init(|| {
        let mut v = Vec::new();
        let mut texts = Vec::new();
        for prefix in ["rsync://", "RSYNC://"] {
            for auth in ["a", "A"] {
                for module in ["a", "A"] {
                    for p in triple_paths() {
                        let t = format!("{}{}/{}/{}", prefix, auth, module, String::from_utf8(p).unwrap());
                        if let Ok(e) = REntry::new(&t) {
                            v.push(e);
                        }
                        texts.push(t);
                    }
                }
            }
        }
        Dom { texts, entries: v }
    })
}

fn triple_domain_https() -> &'static Dom<HEntry> {
    static D: OnceLock<Dom<HEntry>> = OnceLock::new();
    D.get_or_init(|| {
        let mut v = Vec::new();
        let mut texts = Vec::new();
        for prefix in ["https://", "HTTPS://"] {
            for auth in ["a", "A", "a:1", "b"] {
                for path in ["", "/", "/a", "/A", "/a/", "/A/", "/a/a", "/a/A", "/a/a/", "//", "/a//", "/."] {
                    let t = format!("{}{}{}", prefix, auth, path);
                    if let Ok(e) = HEntry::new(&t) {
                        v.push(e);
                    }
                    texts.push(t);
                }
            }
        }
        Dom { texts, entries: v }
    })
}

#[derive(Clone, Debug, Serialize, Deserialize)]
pub struct TripleRow {
    pub https: bool,
    pub a: String,
    pub b: Option<String>,
    pub c: Option<String>,
}

fn count_triples(_: Tier, _: u64) -> u64 {
    (triple_domain_rsync().texts.len() + triple_domain_https().texts.len()) as u64
}
fn make_triples(_: Tier, _: u64, idx: u64) -> TripleRow {
    let n = triple_domain_rsync().texts.len() as u64;
    if idx < n {
        TripleRow { https: false, a: triple_domain_rsync().texts[idx as usize].clone(), b: None, c: None }
    } else {
        TripleRow { https: true, a: triple_domain_https().texts[(idx - n) as usize].clone(), b: None, c: None }
    }
}

fn run_triples(r: &TripleRow, obs: &mut Obs) -> CheckResult {
    let mut nt = 0u64;
    let mut evals = 0u64;
    let case = |b: &str, c: &str| json!({"https": r.https, "a": r.a, "b": b, "c": c});
    if r.https {
        let ea = HEntry::new(&r.a)?;
        let (sb, sc);
        let bs: &[HEntry] = match &r.b { Some(b) => { sb = vec![HEntry::new(b)?]; &sb } None => &triple_domain_https().entries };
        let cs: &[HEntry] = match &r.c { Some(c) => { sc = vec![HEntry::new(c)?]; &sc } None => &triple_domain_https().entries };
        for eb in bs {
            evals += cs.len() as u64;
            pair_https(&ea, eb).map_err(|f| f.with_case(case(&eb.text, &eb.text)))?;
            if ea.uri != eb.uri {
                continue;
            }
            for ec in cs {
                if eb.uri == ec.uri {
                    nt += 1;
                    if ea.uri != ec.uri || hash_of(&ea.uri) != hash_of(&ec.uri) {
                        return Err(Fail::new(format!("Https == not transitive: {:?} {:?} {:?}", ea.text, eb.text, ec.text))
                            .with_case(case(&eb.text, &ec.text)));
                    }
                }
            }
        }
    } else {
        let ea = REntry::new(&r.a)?;
        let (sb, sc);
        let bs: &[REntry] = match &r.b { Some(b) => { sb = vec![REntry::new(b)?]; &sb } None => &triple_domain_rsync().entries };
        let cs: &[REntry] = match &r.c { Some(c) => { sc = vec![REntry::new(c)?]; &sc } None => &triple_domain_rsync().entries };
        for eb in bs {
            evals += cs.len() as u64;
            if ea.uri != eb.uri && !ea.uri.is_parent_of(&eb.uri) {
                continue;
            }
            for ec in cs {
                match triple_rsync(&ea, eb, ec) {
                    Ok(true) => nt += 1,
                    Ok(false) => {}
                    Err(f) => return Err(f.with_case(case(&eb.text, &ec.text))),
                }
            }
        }
    }
    obs.evals(evals.saturating_sub(1));
    obs.bulk_nontrivial = nt;
    obs.label(if r.https { "https" } else { "rsync" });
    Ok(())
}

//------------ join enumeration -------------------------------------------------

const RSYNC_BASES: &[&str] = &[
    "rsync://a/a/", "rsync://a/a/a", "rsync://a/a/a/", "rsync://a/a/a/B", "rsync://a/a/a/B/", "rsync://A/B/a.a",
    "rsync://a:1/B/~", "rsync://a.B/a~/.a/", "RSYNC://a/a/", "RSYNC://A/a/B", "RSYNC://a/B/a/", "rsync://aB/aB/aB/aB/aB",
    "rsync://a/:/", "rsync://a/a/:", "rsync://a/.a/a./", "RSYNC://B:1/~/~/",
];
const HTTPS_BASES: &[&str] = &[
    "https://a", "https://a/", "https://a/a", "https://a/a/", "https://A/a/B", "https://a:1", "https://a.B/~/",
    "hTTps://a", "hTTps://A/", "hTTps://a/a", "https://aB.aB", "https://a/a/B/", "https://a//", "https://a/.",
];

#[derive(Clone, Debug, Serialize, Deserialize)]
pub struct JoinChunk {
    pub base: String,
    pub start: u64,
    pub len: u64,
}

fn join_maxlen(tier: Tier) -> u32 {
    tier.pick(6, 8)
}
fn count_join(tier: Tier, _: u64) -> u64 {
    (RSYNC_BASES.len() + HTTPS_BASES.len()) as u64 * words_upto(join_maxlen(tier)).div_ceil(CHUNK)
}
fn make_join(tier: Tier, _: u64, idx: u64) -> JoinChunk {
    let n = words_upto(join_maxlen(tier));
    let per = n.div_ceil(CHUNK);
    let bi = (idx / per) as usize;
    let base = if bi < RSYNC_BASES.len() { RSYNC_BASES[bi] } else { HTTPS_BASES[bi - RSYNC_BASES.len()] };
    let start = (idx % per) * CHUNK;
    JoinChunk { base: base.to_string(), start, len: CHUNK.min(n - start) }
}

fn run_join(c: &JoinChunk, obs: &mut Obs) -> CheckResult {
    let https = split_https(c.base.as_bytes()).is_some();
    let (re, he) = if https { (None, Some(HEntry::new(&c.base)?)) } else { (Some(REntry::new(&c.base)?), None) };
    let mut w = Vec::new();
    let mut nt = 0u64;
    for i in c.start..c.start + c.len {
        word(i, &mut w);
        let r = match (&re, &he) {
            (Some(e), _) => join_rsync(e, &w),
            (_, Some(e)) => join_https(e, &w),
            _ => unreachable!(),
        };
        match r {
            Ok(true) => nt += 1,
            Ok(false) => {}
            Err(f) => return Err(Fail::sig(f.sig, f.msg).with_case(json!({"base": c.base, "start": i, "len": 1}))),
        }
    }
    obs.evals(c.len.saturating_sub(1));
    obs.bulk_nontrivial = nt;
    obs.label(if https { "https" } else { "rsync" });
    Ok(())
}

//------------ every octet -------------------------------------------------------

/// One octet value at every kind of position of a few URIs and join arguments (the
/// complete set of 256 values: a character class is a table with 256 entries).
#[derive(Clone, Debug, Serialize, Deserialize)]
pub struct OctetCase {
    pub octet: u8,
}

fn run_octet(c: &OctetCase, obs: &mut Obs) -> CheckResult {
    let b = c.octet;
    let mut accepted = 0u64;
    let mut evals = 0u64;
    for scheme in ["rsync", "https", "RsYnc", "HTTPS"] {
        // (prefix, suffix) pairs around the octet: authority start / inside / end, module start /
        // inside / end, path segment start / inside / end, end of the URI, a segment of its own
        let spots: [(&str, &str); 12] = [
            ("://", "host.example/mod/dir/file.cer"),
            ("://ho", "st.example/mod/dir/file.cer"),
            ("://host.example", "/mod/dir/file.cer"),
            ("://host.example/", "mod/dir/file.cer"),
            ("://host.example/mo", "d/dir/file.cer"),
            ("://host.example/mod", "/dir/file.cer"),
            ("://host.example/mod/", "dir/file.cer"),
            ("://host.example/mod/di", "r/file.cer"),
            ("://host.example/mod/dir", "/file.cer"),
            ("://host.example/mod/dir/file.cer", ""),
            ("://host.example/mod/dir/", "/file.cer"),
            ("://host.example/mod/", ""),
        ];
        for (pre, post) in spots {
            let mut s = scheme.as_bytes().to_vec();
            s.extend_from_slice(pre.as_bytes());
            s.push(b);
            s.extend_from_slice(post.as_bytes());
            let (r, h) = check_string(&s)?;
            evals += 1;
            accepted += (r.is_some() || h.is_some()) as u64;
        }
    }
    // as part of a join argument
    let rb = REntry::new("rsync://host.example/mod/dir/")?;
    let hb = HEntry::new("https://host.example/dir/")?;
    for (pre, post) in [("", ""), ("", "x"), ("x", ""), ("x", "y/z"), ("x/", "/z"), ("x/y", "")] {
        let mut a = pre.as_bytes().to_vec();
        a.push(b);
        a.extend_from_slice(post.as_bytes());
        accepted += join_rsync(&rb, &a)? as u64;
        accepted += join_https(&hb, &a)? as u64;
        evals += 2;
    }
    obs.evals(evals.saturating_sub(1));
    obs.bulk_nontrivial = accepted;
    obs.label(if forbidden(b) { "forbidden-octet" } else { "permitted-octet" });
    Ok(())
}

//------------ random -----------------------------------------------------------

#[derive(Clone, Debug, Serialize, Deserialize)]
pub struct Rand {
    pub a: Bs,
    pub b: Bs,
    pub c: Bs,
    pub arg: Bs,
}

#[derive(Clone, Debug)]
struct Spec {
    https: bool,
    scheme_mask: u8,
    host: Vec<String>,
    port: Option<u16>,
    module: String,
    segs: Vec<String>,
    trailing: bool,
}

impl Spec {
    fn render(&self) -> Vec<u8> {
        let mut out: Vec<u8> = (if self.https { "https" } else { "rsync" })
            .bytes()
            .enumerate()
            .map(|(i, b)| if self.scheme_mask >> i & 1 == 1 { b.to_ascii_uppercase() } else { b })
            .collect();
        out.extend_from_slice(b"://");
        out.extend_from_slice(self.host.join(".").as_bytes());
        if let Some(p) = self.port {
            out.extend_from_slice(format!(":{}", p).as_bytes());
        }
        if !self.https {
            out.push(b'/');
            out.extend_from_slice(self.module.as_bytes());
            out.push(b'/');
            out.extend_from_slice(self.segs.join("/").as_bytes());
            if self.trailing && !self.segs.is_empty() {
                out.push(b'/');
            }
        } else if self.segs.is_empty() {
            if self.trailing {
                out.push(b'/');
            }
        } else {
            out.push(b'/');
            out.extend_from_slice(self.segs.join("/").as_bytes());
            if self.trailing {
                out.push(b'/');
            }
        }
        out
    }
}

fn flip(s: &str, mask: u16) -> String {
    let mut k = 0;
    s.chars()
        .map(|c| {
            if c.is_ascii_alphabetic() {
                let f = mask >> (k % 16) & 1 == 1;
                k += 1;
                if f { if c.is_ascii_lowercase() { c.to_ascii_uppercase() } else { c.to_ascii_lowercase() } } else { c }
            } else {
                c
            }
        })
        .collect()
}

/// Relation ops deriving a related URI.
fn derive(base: &Spec, op: u8, mask: u16, extra: &[String], k: u8) -> Spec {
    let mut s = base.clone();
    let mask = if mask == 0 { 1 } else { mask };
    match op {
        0 => {}
        1 => s.host = s.host.iter().map(|l| flip(l, mask)).collect(),
        2 => s.module = flip(&s.module, mask),
        3 => {
            let keep = s.segs.len().saturating_sub(1 + k as usize % 3);
            s.segs.truncate(keep);
            s.trailing = mask & 1 == 1;
        }
        4 => {
            s.segs.extend(extra.iter().cloned());
            s.trailing = mask & 1 == 1;
        }
        5 => {
            s.segs.pop();
            s.segs.extend(extra.iter().take(1).cloned());
        }
        6 => s.trailing = !s.trailing,
        7 => s.host.push("x".into()),
        8 => s.scheme_mask ^= (mask as u8) | 1,
        9 => {
            if let Some(l) = s.segs.last_mut() {
                *l = flip(l, mask);
            }
        }
        _ => s.module.push('x'),
    }
    s
}

const BAD_BYTES: &[u8] = b" \t\n\0\x7f\"#<>?[\\]^`{|}\x80\xc3\xa9\xff@!";

fn damage(mut s: Vec<u8>, kind: u8, pos: u16, which: u16) -> Vec<u8> {
    let at = crate::gen::pick_idx(pos, s.len() + 1);
    match kind {
        0 => {}
        1 => s.insert(at, BAD_BYTES[crate::gen::pick_idx(which, BAD_BYTES.len())]),
        2 => s.insert(at, b'/'),
        3 => {
            let ins: &[u8] = [&b"/./"[..], b"/../", b"/..", b"/.", b"./", b"../"][crate::gen::pick_idx(which, 6)];
            let tail = s.split_off(at);
            s.extend_from_slice(ins);
            s.extend_from_slice(&tail);
        }
        4 => s.truncate(at),
        _ => {
            if !s.is_empty() {
                let i = crate::gen::pick_idx(which, 8.min(s.len()));
                s[i] = if s[i] == b'x' { b'y' } else { b'x' };
            }
        }
    }
    s
}

fn seg_strategy() -> BoxedStrategy<String> {
    prop_oneof![
        50 => "[a-zA-Z0-9]{1,8}",
        20 => "[a-zA-Z]{1,3}\\.[a-z]{3}",
        1 => "[a-zA-Z0-9]{100,300}",
        20 => "[a-zA-Z0-9._~%$&'()*+,;=:-]{1,8}",
        10 => "[.]{1,3}[a-z]{0,2}",
    ]
    .boxed()
}

fn spec_strategy() -> BoxedStrategy<Spec> {
    (
        any::<bool>(),
        prop_oneof![3 => Just(0u8), 1 => Just(0x1fu8), 1 => 0u8..32],
        // conventional hosts, and (1 in 8) hosts of 64..380 octets: long labels, so that the
        // scheme + authority part reaches and passes 127/128, 255/256 octets
        prop_oneof![
            7 => prop::collection::vec("[a-zA-Z0-9]([a-zA-Z0-9-]{0,6}[a-zA-Z0-9])?", 1..5),
            1 => prop::collection::vec("[a-zA-Z]([a-zA-Z0-9-]{30,61}[a-zA-Z])", 2..7),
        ],
        prop::option::weighted(0.3, any::<u16>()),
        prop_oneof![4 => "[a-zA-Z]{1,6}", 1 => "[a-zA-Z0-9._~%-]{1,8}"],
        prop::collection::vec(seg_strategy(), 0..9),
        any::<bool>(),
    )
        .prop_map(|(https, scheme_mask, host, port, module, segs, trailing)| Spec { https, scheme_mask, host, port, module, segs, trailing })
        .boxed()
}

fn rand_strategy(_: Tier) -> BoxedStrategy<Rand> {
    let op = || prop_oneof![2 => Just(0u8), 3 => Just(1u8), 3 => Just(2u8), 4 => Just(3u8), 4 => Just(4u8), 1 => Just(5u8), 2 => Just(6u8), 1 => Just(7u8), 2 => Just(8u8), 1 => Just(9u8), 1 => Just(10u8)];
    let rel = move || (op(), op(), any::<u16>(), prop::collection::vec(seg_strategy(), 1..4), any::<u8>());
    let dmg = || (prop_oneof![8 => Just(0u8), 2 => Just(1u8), 1 => Just(2u8), 1 => Just(3u8), 1 => Just(4u8), 1 => Just(5u8)], any::<u16>(), any::<u16>());
    (spec_strategy(), rel(), rel(), dmg(), prop::collection::vec(seg_strategy(), 0..4), any::<bool>(), dmg())
        .prop_map(|(spec, r1, r2, d, argsegs, argtrail, da)| {
            let apply = |base: &Spec, r: &(u8, u8, u16, Vec<String>, u8)| {
                let s = derive(base, r.0, r.2, &r.3, r.4);
                derive(&s, if r.4 & 1 == 0 { 0 } else { r.1 }, r.2.rotate_left(3), &r.3, r.4 >> 1)
            };
            let sb = apply(&spec, &r1);
            let sc = apply(&sb, &r2);
            let mut arg = argsegs.join("/").into_bytes();
            if argtrail && !arg.is_empty() {
                arg.push(b'/');
            }
            Rand {
                a: Bs(damage(spec.render(), d.0, d.1, d.2)),
                b: Bs(sb.render()),
                c: Bs(sc.render()),
                arg: Bs(damage(arg, da.0, da.1, da.2)),
            }
        })
        .boxed()
}

fn run_random(c: &Rand, obs: &mut Obs) -> CheckResult {
    let mut rs: Vec<REntry> = Vec::new();
    let mut hs: Vec<HEntry> = Vec::new();
    for s in [&c.a.0, &c.b.0, &c.c.0] {
        let (r, h) = check_string(s)?;
        if let Some(u) = r {
            // serde form is the text
            let js = serde_json::to_string(&u).map_err(|e| Fail::new(e.to_string()))?;
            let back: Rsync = serde_json::from_str(&js).map_err(|e| Fail::new(format!("serde form {} of an accepted URI rejected: {}", js, e)))?;
            ensure!(back == u && back.as_str() == u.as_str(), "serde round trip of {:?}", u.as_str());
            rs.push(REntry::with_uri(&u.as_str().to_string(), u)?);
        }
        if let Some(u) = h {
            let js = serde_json::to_string(&u).map_err(|e| Fail::new(e.to_string()))?;
            let back: Https = serde_json::from_str(&js).map_err(|e| Fail::new(format!("serde form {} of an accepted URI rejected: {}", js, e)))?;
            ensure!(back == u && back.as_str() == u.as_str(), "serde round trip of {:?}", u.as_str());
            hs.push(HEntry::with_uri(&u.as_str().to_string(), u)?);
        }
    }
    obs.label(if rs.len() + hs.len() == 3 { "all-accepted" } else { "some-rejected" });
    obs.label_if(!rs.is_empty(), "rsync");
    obs.label_if(!hs.is_empty(), "https");
    let mut common = false;
    let mut parent_pair = false;
    let mut eq_variant = false;
    let mut mod_case = false;
    for x in &rs {
        for y in &rs {
            let same = pair_rsync(x, y)?;
            if !std::ptr::eq(x, y) {
                common |= same;
                parent_pair |= y.uri.is_parent_of(&x.uri);
                eq_variant |= x.uri == y.uri && x.text != y.text;
                mod_case |= x.module() != y.module() && x.module().eq_ignore_ascii_case(y.module())
                    && x.b()[..x.ae].eq_ignore_ascii_case(&y.b()[..y.ae]);
            }
            for z in &rs {
                triple_rsync(x, y, z)?;
            }
        }
    }
    for x in &hs {
        for y in &hs {
            let same = pair_https(x, y)?;
            if !std::ptr::eq(x, y) {
                common |= same;
                eq_variant |= x.uri == y.uri && x.text != y.text;
            }
            for z in &hs {
                if x.uri == y.uri && y.uri == z.uri {
                    ensure!(x.uri == z.uri, "Https == not transitive: {:?} {:?} {:?}", x.text, y.text, z.text);
                }
            }
        }
    }
    let mut joined = false;
    for x in &rs {
        joined |= join_rsync(x, &c.arg.0)?;
    }
    for x in &hs {
        if x.ae > 8 {
            joined |= join_https(x, &c.arg.0)?;
        }
    }
    obs.label_if(common, "common-module");
    obs.label_if(parent_pair, "parent-pair");
    obs.label_if(eq_variant, "equal-different-text");
    obs.label_if(mod_case, "module-case-differs");
    obs.label_if(joined, "join-ok");
    obs.label_if(hs.iter().any(|h| h.ae == h.b().len()), "https-pathless");
    let long = |ae: usize| ae > 8 + 240;
    obs.label_if(rs.iter().any(|r| long(r.ae)) || hs.iter().any(|h| long(h.ae)), "authority-over-240-octets");
    obs.label_if(
        rs.iter().any(|x| long(x.ae) && rs.iter().any(|y| x.uri == y.uri && x.text != y.text))
            || hs.iter().any(|x| long(x.ae) && hs.iter().any(|y| x.uri == y.uri && x.text != y.text)),
        "long-authority-equal-different-text",
    );
    obs.nontrivial_if(common || joined);
    Ok(())
}

//------------ property ---------------------------------------------------------

pub fn property() -> Property {
    Property {
        id: "C12",
        rule: RULE,
        assumptions: vec![
            "the forbidden set is the one documented in src/uri.rs (SPACE, controls, \" # < > ? [ \\ ] ^ ` { | }) plus all non-ASCII bytes",
            "acceptance is demanded only for conventional authorities (host[:port]) and documented characters; '@', '!', odd authorities (empty for https, '.', ':', '~') are don't-care for acceptance but accepted values must obey all laws",
            "Https::join follows its documentation (a slash is injected unless the URI ends in one); https bases with empty authority are not joined",
            "Https::parent is compared with the text model only for paths without empty segments",
            "std DefaultHasher (SipHash) collisions between unequal values are not asserted either way",
        ],
        subs: vec![
            EnumSub { name: "parse", count: count_parse, make: make_parse, run: run_parse, exhaustive: true }.boxed(),
            EnumSub { name: "pairs", count: count_pairs, make: make_pairs, run: run_pairs, exhaustive: true }.boxed(),
            EnumSub { name: "triples", count: count_triples, make: make_triples, run: run_triples, exhaustive: true }.boxed(),
            EnumSub { name: "join", count: count_join, make: make_join, run: run_join, exhaustive: true }.boxed(),
            EnumSub { name: "octets", count: |_, _| 256, make: |_, _, i| OctetCase { octet: i as u8 }, run: run_octet, exhaustive: true }.boxed(),
            PropSub {
                name: "random",
                strategy: rand_strategy,
                cases: |t| t.pick(1_500_000, 10_000_000),
                run: run_random,
                floors: &[
                    ("all-accepted", 0.3), ("some-rejected", 0.15), ("rsync", 0.2), ("https", 0.2), ("common-module", 0.4),
                    ("equal-different-text", 0.1), ("parent-pair", 0.1), ("module-case-differs", 0.04), ("join-ok", 0.35),
                    ("https-pathless", 0.03), ("authority-over-240-octets", 0.02), ("long-authority-equal-different-text", 0.005),
                ],
            }
            .boxed(),
        ],
    }
}
