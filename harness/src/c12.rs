//! C12 — stub (not built yet).

use crate::engine::*;

pub fn property() -> Property {
    Property { id: "C12", rule: "", assumptions: vec![], subs: vec![] }
}
