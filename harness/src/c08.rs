//! C08 — RTR server answers depend on the query bytes only.
//!
//! A client byte stream is delivered to one real `rtr::Server` connection
//! under a generated schedule (chunking, notifications, settle points). The
//! output is compared with the output of the reference schedule (all bytes in
//! one chunk, no notifications) on a fresh server with the same source.

use crate::engine::*;
use crate::rtrsim::{self, strat, Data, Delta, Item, MemCtl, RawPdu, RefSource, Tm};
use proptest::prelude::*;
use rpki::rtr::server::{NotifySender, Server};
use serde::{Deserialize, Serialize};
use std::io;

pub const RULE: &str = "streams: random client byte stream of 1..8 PDUs (serial query with known / out-of-window / never-issued / \
foreign-session state, reset query, wrong-length query, unsupported PDU type, version 3..255, version switch, error report, \
raw garbage, truncated tail) x random schedule (chunks of 1..11 bytes mostly, Notify events, Settle points present or absent \
after each event) x random small source (payload sets of all types, 0..3 earlier serials, diff window, ready or not). Oracle: \
(1) output minus Serial Notify PDUs == output of the reference schedule (one chunk, no notify) on a fresh server; (2) output \
parses into whole PDUs with an independent parser, no Serial Notify between Cache Response and End of Data, #Serial Notify <= \
#Notify events, and a settle point that starts with >=1 notification outstanding while the connection is alive, in sync and waiting for a query header emits >=1 Serial Notify before it ends (bursts may coalesce, they may not vanish); (3) on the reference output, for the stream prefix up to the first malformed PDU (a reset query refused for its version \
is header-only and does not end the prefix) every complete well-formed \
query has exactly the expected response (Cache Response, payload multiset per version, End of Data with state and timing / \
Cache Reset / Error 2 when not ready) and the first malformed one an Error PDU. Non-trivial = schedule with >=1 chunk boundary \
strictly inside a PDU and >=1 Notify. splits: complete enumeration of every single-PDU stream of a fixed list (25 streams) x \
every 2-chunk split x 6 notify placements x {ready, not ready}; non-trivial = split strictly inside the PDU with a notify \
(distinct by construction). Wrong query lengths include values that are right in their low 8 / 16 / 24 bits and random 32-bit values; the source's data includes the larger items of rtrsim (provider lists around 64 / 256 and up to 4000 entries, keys up to 5000 octets, tables of 1500..4000 origins).";

const SETTLE_TURNS: u32 = 200;

//------------ case -------------------------------------------------------------

#[derive(Clone, Debug, Serialize, Deserialize)]
pub struct SrcSpec {
    pub session: u16,
    pub start_serial: u32,
    pub initial: Vec<Item>,
    /// Updates applied before the connection starts (one serial each).
    pub updates: Vec<Vec<Delta>>,
    pub retention: u8,
    pub ready: bool,
    pub timing: Tm,
    pub flip: bool,
}

#[derive(Clone, Debug, Serialize, Deserialize)]
pub enum Q {
    /// Serial query naming the state `back` updates before the current one.
    Serial { version: u8, back: u8 },
    /// Serial query with a serial the source never issued (current + off).
    SerialUnknown { version: u8, off: u32 },
    SerialForeign { version: u8 },
    Reset { version: u8 },
    /// Serial (typ 1) or reset (typ 2) query header with a wrong length, followed by `extra`.
    WrongLen { version: u8, typ: u8, len: u32, extra: Vec<u8> },
    /// A PDU type a router must not send.
    Unsupported { version: u8, typ: u8, len: u32, extra: Vec<u8> },
    ErrorReport { version: u8, code: u16 },
    Raw(Vec<u8>),
}

#[derive(Clone, Debug, PartialEq, Eq, Serialize, Deserialize)]
pub enum Ev {
    Chunk(u16),
    Notify,
    Settle,
}

#[derive(Clone, Debug, Serialize, Deserialize)]
pub struct Case {
    pub src: SrcSpec,
    pub pdus: Vec<Q>,
    /// Bytes removed from the end of the stream (fewer than the last PDU has).
    pub trunc: u8,
    pub sched: Vec<Ev>,
    /// Capacity of the queue towards the client in the scheduled run (0 =
    /// unbounded): with a small queue the server's writes are short and it
    /// parks until the harness drains the queue (back-pressure).
    #[serde(default)]
    pub out_cap: u16,
}

//------------ building -----------------------------------------------------------

fn build_source(s: &SrcSpec) -> RefSource {
    let src = RefSource::new(s.session, s.start_serial, Data::from_items(&s.initial), s.retention as usize, s.timing);
    for u in &s.updates {
        src.update(u, None);
    }
    src.set_ready(s.ready);
    src.set_flip(s.flip);
    src
}

fn q_bytes(q: &Q, src: &RefSource) -> Vec<u8> {
    let cur = src.current().serial;
    match q {
        Q::Serial { version, back } => {
            let b = (*back as usize).min(src.history_len() - 1);
            rtrsim::enc_serial_query(*version, src.session(), src.back(b).unwrap().serial)
        }
        Q::SerialUnknown { version, off } => {
            rtrsim::enc_serial_query(*version, src.session(), cur.wrapping_add((*off).clamp(1, 0x7FFF_FFFF)))
        }
        Q::SerialForeign { version } => rtrsim::enc_serial_query(*version, src.session() ^ 0x5A5A, cur),
        Q::Reset { version } => rtrsim::enc_reset_query(*version),
        Q::WrongLen { version, typ, len, extra } => {
            let typ = if *typ == 2 { 2 } else { 1 };
            let right = if typ == 1 { 12 } else { 8 };
            let len = if *len == right { right + 1 } else { *len };
            let mut v = rtrsim::enc_header(*version, typ, src.session(), len);
            v.extend_from_slice(extra);
            v
        }
        Q::Unsupported { version, typ, len, extra } => {
            let typ = match *typ {
                1 | 2 => 0,
                10 => 11,
                t => t,
            };
            let mut v = rtrsim::enc_header(*version, typ, src.session(), *len);
            v.extend_from_slice(extra);
            v
        }
        Q::ErrorReport { version, code } => rtrsim::enc_error(*version, *code, &[], b"x"),
        Q::Raw(b) => b.clone(),
    }
}

//------------ execution ----------------------------------------------------------

#[allow(dead_code)]
struct Exec {
    out: Vec<u8>,
    notify_events: u32,
    reads: Vec<(u64, u32, u32)>,
    consumed_at_notify: Vec<u64>,
    /// For every settle point that started with notifications outstanding:
    /// (output length when the first of them was fired, output length after
    /// the settle, number of stream bytes handed to the server by then).
    notify_windows: Vec<(usize, usize, usize)>,
}

fn exec(spec: &SrcSpec, bytes: &[u8], sched: &[Ev], out_cap: u16) -> Result<Exec, Fail> {
    let src = build_source(spec);
    let r: Result<Exec, String> = rtrsim::block_on(false, async move {
        let cap = if out_cap == 0 { usize::MAX } else { out_cap as usize };
        let (server_end, client_end, ctl): (_, _, MemCtl) = rtrsim::mem_pair(usize::MAX, cap);
        let mut out: Vec<u8> = Vec::new();
        // settle, and while the server is parked on the full queue towards the
        // client, drain the queue and let it continue
        macro_rules! settle_drain {
            () => {{
                let mut rounds = 0u32;
                loop {
                    rtrsim::settle(&ctl, SETTLE_TURNS).await?;
                    let parked = ctl.server_write_parked();
                    out.extend(ctl.take_output());
                    if !parked {
                        break;
                    }
                    rounds += 1;
                    if rounds > 2_000_000 {
                        return Err("server still blocked on its output after 2,000,000 drains".to_string());
                    }
                }
            }};
        }
        let mut notify = NotifySender::new();
        let listener = futures_util::stream::iter(vec![Ok::<_, io::Error>(server_end)]);
        Server::new(listener, notify.clone(), src)
            .run()
            .await
            .map_err(|e| format!("Server::run failed: {}", e))?;
        settle_drain!();
        let mut pos = 0usize;
        let mut notify_events = 0;
        let mut consumed_at_notify = Vec::new();
        let mut pending_notify: Option<usize> = None;
        let mut notify_windows = Vec::new();
        for ev in sched {
            match ev {
                Ev::Chunk(n) => {
                    let end = (pos + *n as usize).min(bytes.len());
                    ctl.feed(&bytes[pos..end]);
                    pos = end;
                }
                Ev::Notify => {
                    consumed_at_notify.push(ctl.consumed_by_server());
                    notify_events += 1;
                    pending_notify.get_or_insert(out.len());
                    notify.notify();
                }
                Ev::Settle => {
                    settle_drain!();
                    if let Some(before) = pending_notify.take() {
                        notify_windows.push((before, out.len(), pos));
                    }
                }
            }
        }
        ctl.feed(&bytes[pos..]);
        settle_drain!();
        if let Some(before) = pending_notify.take() {
            notify_windows.push((before, out.len(), bytes.len()));
        }
        ctl.close_to_server();
        settle_drain!();
        if !ctl.server_gone() {
            return Err("connection task still alive after end of stream".into());
        }
        out.extend(ctl.take_output());
        drop(client_end);
        Ok(Exec { out, notify_events, reads: ctl.server_reads(), consumed_at_notify, notify_windows })
    });
    r.map_err(Fail::new)
}

//------------ model ----------------------------------------------------------------

fn sorted(mut v: Vec<(bool, Item)>) -> Vec<(bool, Item)> {
    v.sort();
    v
}

/// Checks the reference output against the model for the prefix of the stream
/// up to the first malformed PDU. Returns the number of well-formed queries.
fn check_model(c: &Case, src: &RefSource, reference: &[RawPdu], obs: &mut Obs) -> Result<(usize, usize), Fail> {
    let cur = src.current();
    let session = src.session();
    let mut it = reference.iter();
    let mut negotiated: Option<u8> = None;
    let mut well_formed = 0usize;
    // number of leading PDUs after which the connection is known to be alive and in sync
    let mut followed = 0usize;
    let mut complete = true;
    let (mut saw_reset, mut saw_data) = (false, false);
    let n = c.pdus.len();
    for (i, q) in c.pdus.iter().enumerate() {
        if i + 1 == n && c.trunc > 0 {
            complete = false;
            break;
        }
        let version = match q {
            Q::Serial { version, .. } | Q::SerialUnknown { version, .. } | Q::SerialForeign { version } | Q::Reset { version }
            | Q::WrongLen { version, .. } | Q::Unsupported { version, .. } => *version,
            Q::ErrorReport { .. } | Q::Raw(_) => {
                complete = false;
                break;
            }
        };
        // version rules come first
        let malformed: Option<(&str, Option<u16>)> = match negotiated {
            None if version > 2 => Some(("version > 2 on first query", Some(4))),
            Some(v) if v != version => Some(("version switch", None)),
            _ => match q {
                Q::WrongLen { .. } => Some(("wrong length", None)),
                Q::Unsupported { .. } => Some(("unsupported PDU type", None)),
                _ => None,
            },
        };
        if let Some((what, code)) = malformed {
            obs.label("model-malformed");
            let p = it.next().ok_or_else(|| Fail::new(format!("PDU #{} ({}) got no answer at all", i, what)))?;
            ensure!(p.typ == 10, "PDU #{} ({}): expected an Error PDU, got type {} ({:?})", i, what, p.typ, p);
            if let Some(code) = code {
                ensure!(p.field == code, "PDU #{} ({}): Error code {} expected {}", i, what, p.field, code);
                ensure!(p.version == 2, "PDU #{} ({}): Error PDU carries version {}, expected the maximum supported (2)", i, what, p.version);
            }
            // A reset query is nothing but its 8-octet header: when it is refused for
            // its version the stream is still in sync, the server keeps the
            // connection (no version has been negotiated / the negotiated one
            // stays), and every following well-formed query is still owed its
            // response. For all other malformed PDUs the number of octets the
            // server consumes is unspecified, so the model stops there.
            if matches!(q, Q::Reset { .. }) {
                obs.label("model-continues-after-refused-reset");
                followed = i + 1;
                continue;
            }
            complete = false; // behaviour afterwards is unspecified
            break;
        }
        negotiated = Some(version);
        well_formed += 1;
        followed = i + 1;
        let v = version;
        if !c.src.ready {
            let p = it.next().ok_or_else(|| Fail::new(format!("query #{} got no answer (source not ready)", i)))?;
            ensure!(p.typ == 10 && p.field == 2 && p.version == v,
                "query #{}: source not ready, expected Error code 2 version {}, got {:?}", i, v, p);
            continue;
        }
        // what the source holds for this query
        let (expect_items, what): (Option<Vec<(bool, Item)>>, &str) = match q {
            Q::Reset { .. } => (Some(cur.data.restricted(v).items().into_iter().map(|i| (true, i)).collect()), "reset query"),
            Q::Serial { back, .. } => {
                let b = (*back as usize).min(src.history_len() - 1);
                let old = src.back(b).unwrap();
                if src.diff_available(session, old.serial) {
                    (Some(old.data.restricted(v).diff_to(&cur.data.restricted(v)).into_iter().map(|(i, a)| (a, i)).collect()), "serial query")
                } else {
                    (None, "serial query outside the diff window")
                }
            }
            Q::SerialUnknown { off, .. } => {
                let s = cur.serial.wrapping_add((*off).clamp(1, 0x7FFF_FFFF));
                if src.diff_available(session, s) {
                    // wrapped onto a real serial: cannot happen with <= 4 snapshots
                    return Err(Fail::new("generator: unknown serial is known"));
                }
                (None, "serial query with unknown serial")
            }
            Q::SerialForeign { .. } => (None, "serial query with foreign session"),
            _ => unreachable!(),
        };
        match expect_items {
            None => {
                saw_reset = true;
                let p = it.next().ok_or_else(|| Fail::new(format!("query #{} ({}) got no answer", i, what)))?;
                ensure!(p.typ == 8 && p.version == v, "query #{} ({}): expected Cache Reset version {}, got {:?}", i, what, v, p);
            }
            Some(exp) => {
                saw_data = true;
                let p = it.next().ok_or_else(|| Fail::new(format!("query #{} ({}) got no answer", i, what)))?;
                ensure!(p.typ == 3 && p.version == v && p.field == session,
                    "query #{} ({}): expected Cache Response version {} session {}, got {:?}", i, what, v, session, p);
                let mut got = Vec::new();
                let eod = loop {
                    let p = it.next().ok_or_else(|| Fail::new(format!("query #{} ({}): response not terminated by End of Data", i, what)))?;
                    ensure!(p.version == v, "query #{} ({}): PDU of version {} inside a version {} response: {:?}", i, what, p.version, v, p);
                    if p.typ == 7 {
                        break p;
                    }
                    match p.payload_item() {
                        Some(x) => {
                            ensure!(x.1.min_version() <= v, "query #{} ({}): payload type not defined for version {}: {:?}", i, what, v, p);
                            got.push(x)
                        }
                        None => return Err(Fail::new(format!("query #{} ({}): unexpected PDU inside response: {:?}", i, what, p))),
                    }
                };
                ensure!(sorted(got.clone()) == sorted(exp.clone()),
                    "query #{} ({}) version {}: payload PDUs {:?} differ from the source's {:?}", i, what, v, sorted(got), sorted(exp));
                ensure!(eod.field == session && eod.serial() == Some(cur.serial),
                    "query #{} ({}): End of Data names session {} serial {:?}, source state is {} / {}", i, what, eod.field, eod.serial(), session, cur.serial);
                if v >= 1 {
                    ensure!(eod.timing() == Some(c.src.timing), "query #{} ({}): End of Data timing {:?}, source timing {:?}", i, what, eod.timing(), c.src.timing);
                }
            }
        }
    }
    obs.label_if(saw_reset, "model-cache-reset");
    obs.label_if(saw_data, "model-data-response");
    if complete {
        let rest: Vec<&RawPdu> = it.collect();
        ensure!(rest.is_empty(), "server sent PDUs no query asked for: {:?}", rest);
        obs.label("model-complete");
    }
    Ok((well_formed, followed))
}

//------------ run --------------------------------------------------------------------

fn run_case(c: &Case, obs: &mut Obs) -> CheckResult {
    let src = build_source(&c.src);
    ensure!(!c.pdus.is_empty(), "empty stream");
    let parts: Vec<Vec<u8>> = c.pdus.iter().map(|q| q_bytes(q, &src)).collect();
    let mut bytes: Vec<u8> = parts.concat();
    let last_len = parts.last().unwrap().len();
    let trunc = (c.trunc as usize).min(last_len.saturating_sub(1));
    bytes.truncate(bytes.len() - trunc);
    let c = &Case { trunc: trunc as u8, ..c.clone() };

    // PDU boundaries of the stream as sent
    let mut bounds = Vec::new();
    let mut o = 0usize;
    for p in &parts {
        bounds.push((o, (o + p.len()).min(bytes.len())));
        o += p.len();
    }

    // reference schedule
    let reference = exec(&c.src, &bytes, &[], 0)?;
    let ref_pdus = rtrsim::parse_pdus(&reference.out)
        .map_err(|e| Fail::new(format!("reference output does not parse into PDUs: {} (bytes {:02x?})", e, reference.out)))?;
    ensure!(!ref_pdus.iter().any(|p| p.typ == 0), "Serial Notify without a notification in the reference run");
    let (well_formed, followed) = check_model(c, &src, &ref_pdus, obs)?;
    obs.label_if(well_formed >= 2, "multi-query");
    obs.label_if(!c.src.ready, "not-ready");

    // generated schedule
    let run = exec(&c.src, &bytes, &c.sched, c.out_cap)?;
    obs.label_if(c.out_cap != 0, "back-pressure");
    // classification of the schedule
    let mut fed = 0usize;
    let mut inside = false;
    for ev in &c.sched {
        if let Ev::Chunk(n) = ev {
            fed = (fed + *n as usize).min(bytes.len());
            if fed < bytes.len() && bounds.iter().any(|(a, b)| *a < fed && fed < *b) {
                inside = true;
            }
        }
    }
    // a notification fired while 1..7 octets of a PDU's header had been handed to the
    // server (judged from the schedule, not from how the server happens to read)
    let partial_header = {
        let mut fed = 0usize;
        let mut hit = false;
        for ev in &c.sched {
            match ev {
                Ev::Chunk(n) => fed = (fed + *n as usize).min(bytes.len()),
                Ev::Notify => hit |= bounds.iter().any(|(a, _)| *a < fed && fed < *a + 8),
                Ev::Settle => {}
            }
        }
        hit
    };
    obs.label_if(partial_header, "notify-while-partial-header");
    obs.label_if(run.notify_events > 0, "has-notify");
    obs.label_if(inside, "split-inside-pdu");
    obs.nontrivial_if(inside && run.notify_events > 0);

    let obs_idle_notify = std::cell::Cell::new(false);
    let verdict = (|| -> CheckResult {
        let pdus = rtrsim::parse_pdus(&run.out).map_err(|e| {
            Fail::new(format!("output does not parse into whole PDUs: {}; output {:02x?}; reference {:02x?}", e, run.out, reference.out))
        })?;
        let notifies = pdus.iter().filter(|p| p.typ == 0).count() as u32;
        ensure!(notifies <= run.notify_events, "{} Serial Notify PDUs for {} notify events", notifies, run.notify_events);
        let mut in_response = false;
        for p in &pdus {
            match p.typ {
                3 => in_response = true,
                7 => in_response = false,
                0 => {
                    ensure!(!in_response, "Serial Notify between Cache Response and End of Data: {:?}", pdus);
                    let st = src.current();
                    ensure!(p.field == src.session() && p.serial() == Some(st.serial),
                        "Serial Notify names session {} serial {:?}, source state is {} / {}", p.field, p.serial(), src.session(), st.serial);
                }
                _ => {}
            }
        }
        let stripped: Vec<&RawPdu> = pdus.iter().filter(|p| p.typ != 0).collect();
        let refs: Vec<&RawPdu> = ref_pdus.iter().collect();
        ensure!(stripped == refs,
            "responses depend on the schedule: with schedule {:?} the server sent {:?}, with the reference schedule {:?}", c.sched, stripped, refs);
        // (4) update notifications do appear: a settle point that starts with >= 1 notification
        // outstanding while the connection is alive, in sync and waiting for a query header
        // (everything received so far is a run of queries the model follows plus at most 7
        // octets of the next header) produces at least one Serial Notify
        for &(before, after, fed) in &run.notify_windows {
            let idle = std::iter::once(0usize)
                .chain(bounds.iter().take(followed).map(|b| b.1))
                .any(|b| b <= fed && fed < b + 8);
            if !idle {
                continue;
            }
            obs_idle_notify.set(true);
            let seg = run.out.get(before..after).ok_or_else(|| Fail::new("harness: notify window outside the output"))?;
            let seg_pdus = rtrsim::parse_pdus(seg)
                .map_err(|e| Fail::new(format!("output between two settle points is not made of whole PDUs: {}; {:02x?}", e, seg)))?;
            if !seg_pdus.iter().any(|p| p.typ == 0) {
                return Err(Fail::sig(
                    "c08:notify-lost",
                    format!("notification(s) fired while the connection was waiting for a query ({} stream octets received) \
                        produced no Serial Notify by the next settle point; output in between: {:?}; schedule {:?}", fed, seg_pdus, c.sched),
                ));
            }
        }
        Ok(())
    })();
    obs.label_if(obs_idle_notify.get(), "notify-while-idle");
    match verdict {
        Ok(()) => Ok(()),
        Err(f) if partial_header => Err(Fail::sig(
            "C08:notify-while-partial-header",
            format!("notification while 1..7 bytes of a query header had been read: {}", f.msg),
        )),
        Err(f) => Err(f),
    }
}

//------------ strategies ---------------------------------------------------------------

fn src_strategy() -> BoxedStrategy<SrcSpec> {
    (
        any::<u16>(),
        prop_oneof![3 => prop::sample::select(vec![0u32, 1, u32::MAX, u32::MAX - 1, 0x7FFF_FFFF, 0x8000_0000]), 1 => any::<u32>()],
        prop::collection::vec(strat::item(), 0..7),
        prop::collection::vec(prop::collection::vec(strat::delta(), 1..4), 0..4),
        0u8..4,
        prop::bool::weighted(0.9),
        strat::timing(),
        any::<bool>(),
    )
        .prop_map(|(session, start_serial, initial, updates, retention, ready, timing, flip)| SrcSpec {
            session, start_serial, initial, updates, retention, ready, timing, flip,
        })
        .boxed()
}

fn q_strategy(base: u8) -> BoxedStrategy<Q> {
    let ver = prop_oneof![24 => Just(base), 1 => prop::sample::select(vec![0u8, 1, 2]), 1 => prop::sample::select(vec![3u8, 4, 255])];
    let extra = prop::collection::vec(any::<u8>(), 0..10);
    prop_oneof![
        30 => (ver.clone(), 0u8..4).prop_map(|(version, back)| Q::Serial { version, back }),
        6 => (ver.clone(), prop::sample::select(vec![1u32, 2, 1000, 0x7FFF_FFFF])).prop_map(|(version, off)| Q::SerialUnknown { version, off }),
        6 => ver.clone().prop_map(|version| Q::SerialForeign { version }),
        25 => ver.clone().prop_map(|version| Q::Reset { version }),
        4 => (ver.clone(), 1u8..=2, prop_oneof![
            3 => prop::sample::select(vec![0u32, 7, 8, 9, 11, 12, 13, 16, 24, u32::MAX]),
            // right in the low 8 / 16 / 24 bits only
            2 => prop::sample::select(vec![0x108u32, 0x10c, 0x1_0008, 0x1_000c, 0x2_0008, 0x2_000c, 0x100_0008, 0x100_000c, 0x8000_0008, 0x8000_000c, 0xFFFF_0008, 0xFFFF_000c]),
            1 => any::<u32>(),
        ], extra.clone())
            .prop_map(|(version, typ, len, extra)| Q::WrongLen { version, typ, len, extra }),
        4 => (ver.clone(), prop::sample::select(vec![0u8, 3, 4, 5, 6, 7, 8, 9, 11, 12, 255]), prop::sample::select(vec![8u32, 12, 20, 0]), extra)
            .prop_map(|(version, typ, len, extra)| Q::Unsupported { version, typ, len, extra }),
        2 => (ver, 0u16..12).prop_map(|(version, code)| Q::ErrorReport { version, code }),
        2 => prop::collection::vec(any::<u8>(), 1..20).prop_map(Q::Raw),
    ]
    .boxed()
}

fn sched_strategy() -> BoxedStrategy<Vec<Ev>> {
    let step = (
        prop_oneof![8 => 1u16..=11, 1 => 12u16..=40],
        prop::bool::weighted(0.8),
        prop::bool::weighted(0.35),
        prop::bool::weighted(0.8),
        prop::bool::weighted(0.1),
    );
    prop::collection::vec(step, 0..14)
        .prop_map(|steps| {
            let mut v = Vec::new();
            for (n, s1, notify, s2, before) in steps {
                if before && notify {
                    v.push(Ev::Notify);
                }
                v.push(Ev::Chunk(n));
                if s1 {
                    v.push(Ev::Settle);
                }
                if notify && !before {
                    v.push(Ev::Notify);
                    if s2 {
                        v.push(Ev::Settle);
                    }
                }
            }
            v
        })
        .boxed()
}

fn case_strategy(_: Tier) -> BoxedStrategy<Case> {
    (src_strategy(), 0u8..=2)
        .prop_flat_map(|(src, base)| {
            (
                Just(src),
                prop::collection::vec(q_strategy(base), 1..=8),
                prop_oneof![9 => Just(0u8), 1 => 1u8..12],
                sched_strategy(),
                prop_oneof![6 => Just(0u16), 2 => 1u16..=12, 2 => 13u16..=200],
            )
        })
        .prop_map(|(src, pdus, trunc, sched, out_cap)| Case { src, pdus, trunc, sched, out_cap })
        .boxed()
}

//------------ exhaustive 2-chunk splits --------------------------------------------------

fn single_streams() -> Vec<Q> {
    let mut v = Vec::new();
    for version in 0..=2u8 {
        v.push(Q::Serial { version, back: 0 });
        v.push(Q::Serial { version, back: 1 });
        v.push(Q::Serial { version, back: 2 });
        v.push(Q::SerialUnknown { version, off: 1 });
        v.push(Q::SerialForeign { version });
        v.push(Q::Reset { version });
    }
    v.push(Q::WrongLen { version: 1, typ: 1, len: 8, extra: vec![] });
    v.push(Q::WrongLen { version: 1, typ: 2, len: 12, extra: vec![0, 0, 0, 1] });
    v.push(Q::Unsupported { version: 1, typ: 5, len: 8, extra: vec![] });
    v.push(Q::Unsupported { version: 2, typ: 255, len: 12, extra: vec![1, 2, 3, 4] });
    v.push(Q::Reset { version: 3 });
    v.push(Q::Serial { version: 255, back: 0 });
    v.push(Q::ErrorReport { version: 1, code: 0 });
    v
}

const PLACEMENTS: u64 = 6;

fn enum_src(ready: bool) -> SrcSpec {
    SrcSpec {
        session: 0x1234,
        start_serial: u32::MAX - 1,
        initial: vec![
            Item::V4 { addr: 0x0A00_0000, len: 8, max: 24, asn: 64496 },
            Item::V6 { hi: 0x2001_0db8_0000_0000, lo: 0, len: 32, max: 48, asn: 1 },
            Item::Key { ski: [7; 20], asn: 2, info: vec![0x30, 1, 2] },
            Item::Aspa { customer: 3, providers: vec![4, 5] },
        ],
        updates: vec![
            vec![Delta::Add(Item::V4 { addr: 0xC0A8_0000, len: 16, max: 16, asn: 0 }), Delta::Remove(0)],
            vec![Delta::ReplaceProviders(0, vec![9]), Delta::Add(Item::Key { ski: [8; 20], asn: 2, info: vec![0x30] })],
        ],
        retention: 1,
        ready,
        timing: (3600, 600, 7200),
        flip: false,
    }
}

fn split_len(q: &Q) -> u64 {
    let src = build_source(&enum_src(true));
    q_bytes(q, &src).len() as u64
}

fn split_table() -> Vec<(usize, u64)> {
    // (stream index, number of split positions 0..=len)
    single_streams().iter().enumerate().map(|(i, q)| (i, split_len(q) + 1)).collect()
}

fn count_splits(_: Tier, _: u64) -> u64 {
    split_table().iter().map(|(_, n)| n * PLACEMENTS * 2).sum()
}

fn make_split(_: Tier, _: u64, mut idx: u64) -> Case {
    let streams = single_streams();
    for (i, n) in split_table() {
        let block = n * PLACEMENTS * 2;
        if idx >= block {
            idx -= block;
            continue;
        }
        let ready = idx % 2 == 0;
        idx /= 2;
        let placement = idx % PLACEMENTS;
        let s = (idx / PLACEMENTS) as u16;
        let sched = match placement {
            0 => vec![Ev::Chunk(s), Ev::Settle],
            1 => vec![Ev::Notify, Ev::Settle, Ev::Chunk(s), Ev::Settle],
            2 => vec![Ev::Chunk(s), Ev::Notify, Ev::Settle],
            3 => vec![Ev::Chunk(s), Ev::Settle, Ev::Notify, Ev::Settle],
            4 => vec![Ev::Chunk(s), Ev::Settle, Ev::Notify],
            _ => vec![Ev::Chunk(s), Ev::Settle, Ev::Chunk(u16::MAX), Ev::Settle, Ev::Notify, Ev::Settle],
        };
        return Case { src: enum_src(ready), pdus: vec![streams[i].clone()], trunc: 0, sched, out_cap: 0 };
    }
    unreachable!("index out of range")
}

pub fn property() -> Property {
    Property {
        id: "C08",
        rule: RULE,
        assumptions: vec![
            "single-threaded scheduler owned by the harness (tokio current_thread); arrival order = generated schedule",
            "behaviour after the first malformed PDU is compared only against the reference schedule",
            "the PayloadSource is constant during a connection",
            "the shape 'notify-while-partial-header' is recognised from the schedule (a Notify event after 1..7 octets of a PDU header were fed)",
        ],
        subs: vec![
            PropSub {
                name: "streams",
                strategy: case_strategy,
                cases: |t| t.pick(1_500_000, 10_000_000),
                run: run_case,
                floors: &[("notify-while-partial-header", 0.20), ("multi-query", 0.25), ("model-data-response", 0.3), ("notify-while-idle", 0.15)],
            }
            .boxed(),
            EnumSub { name: "splits", count: count_splits, make: make_split, run: run_case, exhaustive: true }.boxed(),
        ],
    }
}
