//! C08 — stub (not built yet).

use crate::engine::*;

pub fn property() -> Property {
    Property { id: "C08", rule: "", assumptions: vec![], subs: vec![] }
}
