//! C07 helper: in-memory readers/sockets that never return `Pending`, count
//! bytes served and polls at end-of-stream, and a one-poll future driver.

use crate::engine::Fail;
use std::cell::{Cell, RefCell};
use std::future::Future;
use std::io;
use std::pin::Pin;
use std::rc::Rc;
use std::task::{Context, Poll, Waker};
use tokio::io::{AsyncRead, AsyncWrite, ReadBuf};

/// After this many polls at end-of-stream the reader aborts the operation
/// with a marker error so that the run continues.
pub const EOF_ABORT: u32 = 16;
/// The deterministic "no spin" bound: polls of an exhausted reader.
pub const EOF_POLL_LIMIT: u32 = 2;

const MARKER: &str = "harness: reader polled too often at end of stream";

/// Polls `f` exactly once. All harness readers and writers are always ready,
/// so a future that is still pending after one poll is waiting for something
/// that will never happen.
pub fn drive<F: Future>(what: &str, f: F) -> Result<F::Output, Fail> {
    let mut f = std::pin::pin!(f);
    let mut cx = Context::from_waker(Waker::noop());
    match f.as_mut().poll(&mut cx) {
        Poll::Ready(v) => Ok(v),
        Poll::Pending => Err(Fail::sig(
            format!("pending:{}", what),
            format!("{}: future returned Pending although its reader/writer is always ready", what),
        )),
    }
}

/// A byte stream served in the chunk sizes given (0 = as much as fits).
pub struct MemReader<'a> {
    data: &'a [u8],
    pos: usize,
    chunks: &'a [u8],
    ci: usize,
    pub eof_polls: u32,
    pub aborted: bool,
}

impl<'a> MemReader<'a> {
    pub fn new(data: &'a [u8], chunks: &'a [u8]) -> Self {
        MemReader { data, pos: 0, chunks, ci: 0, eof_polls: 0, aborted: false }
    }
    /// Bytes handed out so far.
    pub fn served(&self) -> usize {
        self.pos
    }
}

fn next_chunk(chunks: &[u8], ci: &mut usize) -> usize {
    if chunks.is_empty() {
        return usize::MAX;
    }
    let c = chunks[*ci % chunks.len()];
    *ci += 1;
    if c == 0 { usize::MAX } else { c as usize }
}

/// A writer that is always ready but accepts only the next chunk size worth of
/// octets per call (short writes, as a socket under back-pressure does) and
/// offers vectored writes with the same limit.
pub struct MemWriter<'a> {
    pub out: Vec<u8>,
    chunks: &'a [u8],
    ci: usize,
    pub calls: u32,
}

impl<'a> MemWriter<'a> {
    pub fn new(chunks: &'a [u8]) -> Self {
        MemWriter { out: Vec::new(), chunks, ci: 0, calls: 0 }
    }
}

impl AsyncWrite for MemWriter<'_> {
    fn poll_write(mut self: Pin<&mut Self>, _cx: &mut Context<'_>, buf: &[u8]) -> Poll<io::Result<usize>> {
        let this = &mut *self;
        this.calls += 1;
        let n = next_chunk(this.chunks, &mut this.ci).min(buf.len());
        this.out.extend_from_slice(&buf[..n]);
        Poll::Ready(Ok(n))
    }
    fn poll_write_vectored(mut self: Pin<&mut Self>, _cx: &mut Context<'_>, bufs: &[io::IoSlice<'_>]) -> Poll<io::Result<usize>> {
        let this = &mut *self;
        this.calls += 1;
        let mut room = next_chunk(this.chunks, &mut this.ci);
        let mut n = 0;
        for b in bufs {
            let k = room.min(b.len());
            this.out.extend_from_slice(&b[..k]);
            n += k;
            room -= k;
            if room == 0 {
                break;
            }
        }
        Poll::Ready(Ok(n))
    }
    fn is_write_vectored(&self) -> bool {
        true
    }
    fn poll_flush(self: Pin<&mut Self>, _cx: &mut Context<'_>) -> Poll<io::Result<()>> {
        Poll::Ready(Ok(()))
    }
    fn poll_shutdown(self: Pin<&mut Self>, _cx: &mut Context<'_>) -> Poll<io::Result<()>> {
        Poll::Ready(Ok(()))
    }
}

impl AsyncRead for MemReader<'_> {
    fn poll_read(mut self: Pin<&mut Self>, _cx: &mut Context<'_>, buf: &mut ReadBuf<'_>) -> Poll<io::Result<()>> {
        let me = &mut *self;
        if buf.remaining() == 0 {
            return Poll::Ready(Ok(()));
        }
        if me.pos >= me.data.len() {
            me.eof_polls += 1;
            if me.eof_polls > EOF_ABORT {
                me.aborted = true;
                return Poll::Ready(Err(io::Error::other(MARKER)));
            }
            return Poll::Ready(Ok(()));
        }
        let n = next_chunk(me.chunks, &mut me.ci).min(buf.remaining()).min(me.data.len() - me.pos);
        buf.put_slice(&me.data[me.pos..me.pos + n]);
        me.pos += n;
        Poll::Ready(Ok(()))
    }
}

/// Counters of a `MemSock`, shared with the harness because `rtr::Client`
/// keeps its socket private.
#[derive(Default)]
pub struct SockStats {
    pub served: Cell<usize>,
    pub eof_polls: Cell<u32>,
    pub aborted: Cell<bool>,
    pub written: RefCell<Vec<u8>>,
}

/// Socket: reads come from a fixed byte string, writes are recorded.
pub struct MemSock {
    data: Vec<u8>,
    chunks: Vec<u8>,
    ci: usize,
    pub stats: Rc<SockStats>,
}

impl MemSock {
    pub fn new(data: Vec<u8>, chunks: Vec<u8>) -> (Self, Rc<SockStats>) {
        let stats = Rc::new(SockStats::default());
        (MemSock { data, chunks, ci: 0, stats: stats.clone() }, stats)
    }
}

impl AsyncRead for MemSock {
    fn poll_read(mut self: Pin<&mut Self>, _cx: &mut Context<'_>, buf: &mut ReadBuf<'_>) -> Poll<io::Result<()>> {
        let me = &mut *self;
        if buf.remaining() == 0 {
            return Poll::Ready(Ok(()));
        }
        let pos = me.stats.served.get();
        if pos >= me.data.len() {
            let e = me.stats.eof_polls.get() + 1;
            me.stats.eof_polls.set(e);
            if e > EOF_ABORT {
                me.stats.aborted.set(true);
                return Poll::Ready(Err(io::Error::other(MARKER)));
            }
            return Poll::Ready(Ok(()));
        }
        let n = next_chunk(&me.chunks, &mut me.ci).min(buf.remaining()).min(me.data.len() - pos);
        buf.put_slice(&me.data[pos..pos + n]);
        me.stats.served.set(pos + n);
        Poll::Ready(Ok(()))
    }
}

impl AsyncWrite for MemSock {
    fn poll_write(self: Pin<&mut Self>, _cx: &mut Context<'_>, buf: &[u8]) -> Poll<io::Result<usize>> {
        self.stats.written.borrow_mut().extend_from_slice(buf);
        Poll::Ready(Ok(buf.len()))
    }
    fn poll_flush(self: Pin<&mut Self>, _cx: &mut Context<'_>) -> Poll<io::Result<()>> {
        Poll::Ready(Ok(()))
    }
    fn poll_shutdown(self: Pin<&mut Self>, _cx: &mut Context<'_>) -> Poll<io::Result<()>> {
        Poll::Ready(Ok(()))
    }
}
