//! C03 helpers: plain-data block type, sequence classification, own DER
//! writer/reader for RFC 3779 block lists, text rendering, adapters to the
//! library types and the canonical-form / denotation oracles.

use crate::engine::*;
use crate::gen::U128;
use crate::iset::{self, ISet, NonCanonical};
use bcder::encode::Values;
use bcder::Mode;
use rpki::repository::resources::{
    Addr, AddressFamily, AddressRange, AsBlock, AsBlocks, Asn, IpBlock, IpBlocks, Prefix,
};
use serde::{Deserialize, Serialize};
use std::net::{Ipv4Addr, Ipv6Addr};

//------------ Fam, Blk ---------------------------------------------------------

#[derive(Clone, Copy, Debug, PartialEq, Eq, Serialize, Deserialize)]
pub enum Fam {
    As,
    V4,
    V6,
}

impl Fam {
    /// Largest item in the family's own value space (AS number, IPv4 address
    /// as u32, IPv6 address).
    pub fn max(self) -> u128 {
        match self {
            Fam::V6 => u128::MAX,
            _ => u32::MAX as u128,
        }
    }
    pub fn bits(self) -> u32 {
        match self {
            Fam::V6 => 128,
            _ => 32,
        }
    }
    pub fn label(self) -> &'static str {
        match self {
            Fam::As => "as",
            Fam::V4 => "v4",
            Fam::V6 => "v6",
        }
    }
    pub fn afi(self) -> AddressFamily {
        match self {
            Fam::V4 => AddressFamily::Ipv4,
            _ => AddressFamily::Ipv6,
        }
    }
}

/// A block in the value space of its family. `form` selects how the block is
/// handed to the library (Id / Range / Prefix / tuple) and rendered as text.
#[derive(Clone, Copy, Debug, Serialize, Deserialize)]
pub struct Blk {
    pub lo: U128,
    pub hi: U128,
    pub form: u8,
}

impl Blk {
    pub fn new(lo: u128, hi: u128, form: u8) -> Self {
        Blk { lo: U128(lo), hi: U128(hi), form }
    }
    pub fn pair(&self) -> (u128, u128) {
        (self.lo.0, self.hi.0)
    }
}

pub fn vals(b: &[Blk]) -> Vec<(u128, u128)> {
    b.iter().map(|x| x.pair()).collect()
}

/// Model in the family's value space.
pub fn val_model(b: &[Blk]) -> ISet<u128> {
    ISet::from_ranges(vals(b))
}

pub fn as_model(b: &[Blk]) -> ISet<u32> {
    ISet::from_ranges(b.iter().map(|x| (x.lo.0 as u32, x.hi.0 as u32)))
}

/// Value space -> rpki-rs address space.
pub fn to_addr(fam: Fam, lo: u128, hi: u128) -> (u128, u128) {
    match fam {
        Fam::V4 => iset::v4_embed(lo as u32, hi as u32),
        _ => (lo, hi),
    }
}

pub fn ip_model(fam: Fam, b: &[Blk]) -> ISet<u128> {
    ISet::from_ranges(b.iter().filter(|x| x.lo.0 <= x.hi.0).map(|x| to_addr(fam, x.lo.0, x.hi.0)))
}

/// Address space -> value space (for rendering); misaligned IPv4 values are
/// projected by dropping the low 96 bits.
pub fn from_addr(fam: Fam, lo: u128, hi: u128) -> (u128, u128) {
    match fam {
        Fam::V4 => (lo >> 96, hi >> 96),
        _ => (lo, hi),
    }
}

//------------ classification -------------------------------------------------------

#[derive(Clone, Copy, Debug, Default)]
pub struct SeqClass {
    pub n: usize,
    pub sorted: bool,
    pub reversed: bool,
    pub dup: bool,
    pub overlap: bool,
    pub adjacent: bool,
    pub nested: bool,
    pub bridging: bool,
    pub touch_bound: bool,
    pub nontrivial: bool,
}

fn touches(a: (u128, u128), b: (u128, u128)) -> bool {
    // overlap or adjacency
    let a_hi1 = a.1.checked_add(1).unwrap_or(u128::MAX);
    let b_hi1 = b.1.checked_add(1).unwrap_or(u128::MAX);
    a.0 <= b_hi1 && b.0 <= a_hi1
}

pub fn classify(fam: Fam, v: &[(u128, u128)]) -> SeqClass {
    let mut c = SeqClass { n: v.len(), ..Default::default() };
    c.sorted = v.windows(2).all(|w| w[0].0 <= w[1].0);
    c.reversed = v.len() >= 2 && v.windows(2).all(|w| w[0].0 >= w[1].0) && !c.sorted;
    for i in 0..v.len() {
        if v[i].0 == 0 || v[i].1 == fam.max() {
            c.touch_bound = true;
        }
        for j in 0..v.len() {
            if i == j {
                continue;
            }
            let (a, b) = (v[i], v[j]);
            if i < j {
                if a == b {
                    c.dup = true;
                }
                if a.0 <= b.1 && b.0 <= a.1 {
                    c.overlap = true;
                } else if touches(a, b) {
                    c.adjacent = true;
                }
            }
            if a != b && a.0 <= b.0 && b.1 <= a.1 {
                c.nested = true;
            }
        }
    }
    // bridging: block k touches at least two components of the union of the
    // blocks before it
    for k in 2..v.len() {
        let before = ISet::from_ranges(v[..k].iter().copied());
        let n = before.ranges().iter().filter(|&&r| touches(r, v[k])).count();
        if n >= 2 {
            c.bridging = true;
            break;
        }
    }
    c.nontrivial = c.n >= 3 && !c.sorted && (c.overlap || c.adjacent);
    c
}

pub fn label_class(obs: &mut Obs, fam: Fam, c: &SeqClass) {
    obs.label(fam.label());
    obs.label_if(c.n == 0, "empty");
    obs.label_if(c.n >= 2 && c.sorted, "sorted");
    obs.label_if(c.reversed, "reversed");
    obs.label_if(c.n >= 2 && !c.sorted && !c.reversed, "shuffled");
    obs.label_if(c.dup, "duplicates");
    obs.label_if(c.overlap, "overlap");
    obs.label_if(c.adjacent, "adjacent");
    obs.label_if(c.nested, "nested");
    obs.label_if(c.bridging, "bridging");
    obs.label_if(c.touch_bound, "touching-bound");
    obs.nontrivial_if(c.nontrivial);
}

//------------ own DER writer ------------------------------------------------------------

pub fn tlv(tag: u8, content: &[u8]) -> Vec<u8> {
    let mut out = vec![tag];
    let n = content.len();
    if n < 128 {
        out.push(n as u8);
    } else if n < 256 {
        out.extend_from_slice(&[0x81, n as u8]);
    } else {
        assert!(n < 65536);
        out.extend_from_slice(&[0x82, (n >> 8) as u8, n as u8]);
    }
    out.extend_from_slice(content);
    out
}

pub fn der_seq(items: &[Vec<u8>]) -> Vec<u8> {
    tlv(0x30, &items.concat())
}

pub fn der_uint(v: u32) -> Vec<u8> {
    let b = v.to_be_bytes();
    let mut i = 0;
    while i < 3 && b[i] == 0 {
        i += 1;
    }
    let mut c = Vec::new();
    if b[i] & 0x80 != 0 {
        c.push(0);
    }
    c.extend_from_slice(&b[i..]);
    tlv(0x02, &c)
}

/// BIT STRING holding the first `len` bits of `addr`.
pub fn der_bits(addr: u128, len: u32) -> Vec<u8> {
    assert!(len <= 128);
    let nbytes = len.div_ceil(8) as usize;
    let unused = (nbytes as u32 * 8 - len) as u8;
    let mut c = vec![unused];
    c.extend_from_slice(&addr.to_be_bytes()[..nbytes]);
    if unused > 0 {
        let last = c.len() - 1;
        c[last] &= 0xffu8 << unused;
    }
    tlv(0x03, &c)
}

/// IPAddressRange per RFC 3779: min with trailing zero bits dropped, max with
/// trailing one bits dropped; `keep` retains up to that many of the droppable
/// bits (a non-minimal but equivalent encoding), capped at `bits`.
pub fn der_ip_range(lo: u128, hi: u128, bits: u32, keep: u32) -> Vec<u8> {
    let minlen = (128 - lo.trailing_zeros()).min(128);
    let maxlen = (128 - hi.trailing_ones()).min(128);
    let minlen = if minlen >= bits { minlen } else { (minlen + keep).min(bits) };
    let maxlen = if maxlen >= bits { maxlen } else { (maxlen + keep).min(bits) };
    der_seq(&[der_bits(lo, minlen), der_bits(hi, maxlen)])
}

/// One IPAddressOrRange element for a block given in address space.
pub fn der_ip_elem(fam: Fam, lo: u128, hi: u128, form: u8) -> Vec<u8> {
    match iset::range_prefix_len(lo, hi) {
        Some(len) if lo <= hi && form % 2 == 0 => der_bits(lo, len as u32),
        _ => der_ip_range(lo, hi, fam.bits(), if form & 4 != 0 { (form >> 3) as u32 } else { 0 }),
    }
}

pub fn der_as_elem(lo: u32, hi: u32, form: u8) -> Vec<u8> {
    if lo == hi && form % 2 == 0 {
        der_uint(lo)
    } else {
        der_seq(&[der_uint(lo), der_uint(hi)])
    }
}

/// SEQUENCE OF IPAddressOrRange for blocks given in value space (lo > hi is
/// written as it stands: an inverted range).
pub fn der_ip_list(fam: Fam, b: &[Blk]) -> Vec<u8> {
    let items: Vec<Vec<u8>> = b
        .iter()
        .map(|x| {
            let (lo, hi) = if x.lo.0 <= x.hi.0 {
                to_addr(fam, x.lo.0, x.hi.0)
            } else {
                // inverted: embed each end on its own
                (to_addr(fam, x.lo.0, x.lo.0).0, to_addr(fam, x.hi.0, x.hi.0).1)
            };
            der_ip_elem(fam, lo, hi, x.form)
        })
        .collect();
    der_seq(&items)
}

pub fn der_as_list(b: &[Blk]) -> Vec<u8> {
    let items: Vec<Vec<u8>> = b.iter().map(|x| der_as_elem(x.lo.0 as u32, x.hi.0 as u32, x.form)).collect();
    der_seq(&items)
}

//------------ own DER reader -------------------------------------------------------------

fn rd_tlv(b: &[u8]) -> Result<(u8, &[u8], &[u8]), String> {
    if b.len() < 2 {
        return Err("truncated TLV".into());
    }
    let tag = b[0];
    let (len, hdr) = match b[1] {
        n if n < 0x80 => (n as usize, 2),
        0x81 if b.len() >= 3 => (b[2] as usize, 3),
        0x82 if b.len() >= 4 => (((b[2] as usize) << 8) | b[3] as usize, 4),
        _ => return Err("unsupported length form".into()),
    };
    if b.len() < hdr + len {
        return Err("content exceeds input".into());
    }
    Ok((tag, &b[hdr..hdr + len], &b[hdr + len..]))
}

fn rd_all(mut b: &[u8]) -> Result<Vec<(u8, &[u8])>, String> {
    let mut out = Vec::new();
    while !b.is_empty() {
        let (t, c, rest) = rd_tlv(b)?;
        out.push((t, c));
        b = rest;
    }
    Ok(out)
}

fn rd_one(b: &[u8], tag: u8) -> Result<&[u8], String> {
    let (t, c, rest) = rd_tlv(b)?;
    if t != tag || !rest.is_empty() {
        return Err(format!("expected a single value with tag {:02x}", tag));
    }
    Ok(c)
}

fn rd_bits(c: &[u8]) -> Result<(u128, u32), String> {
    if c.is_empty() || c[0] > 7 || c.len() > 17 || (c.len() == 1 && c[0] != 0) {
        return Err("bad BIT STRING".into());
    }
    let mut a = [0u8; 16];
    a[..c.len() - 1].copy_from_slice(&c[1..]);
    Ok((u128::from_be_bytes(a), (c.len() as u32 - 1) * 8 - c[0] as u32))
}

fn rd_uint(c: &[u8]) -> Result<u32, String> {
    if c.is_empty() || c.len() > 5 || c[0] & 0x80 != 0 || (c.len() == 5 && c[0] != 0) {
        return Err("bad INTEGER".into());
    }
    Ok(c.iter().fold(0u64, |a, &x| (a << 8) | x as u64) as u32)
}

/// Reads a SEQUENCE OF IPAddressOrRange into (min, max) pairs in address space.
pub fn rd_ip_list(der: &[u8]) -> Result<Vec<(u128, u128)>, String> {
    let mut out = Vec::new();
    for (t, c) in rd_all(rd_one(der, 0x30)?)? {
        match t {
            0x03 => {
                let (a, l) = rd_bits(c)?;
                out.push(iset::prefix_range(a, l as u8));
            }
            0x30 => {
                let parts = rd_all(c)?;
                if parts.len() != 2 || parts[0].0 != 0x03 || parts[1].0 != 0x03 {
                    return Err("bad IPAddressRange".into());
                }
                let (a, l) = rd_bits(parts[0].1)?;
                let (b, m) = rd_bits(parts[1].1)?;
                out.push((iset::prefix_range(a, l as u8).0, iset::prefix_range(b, m as u8).1));
            }
            _ => return Err(format!("unexpected tag {:02x}", t)),
        }
    }
    Ok(out)
}

pub fn rd_as_list(der: &[u8]) -> Result<Vec<(u32, u32)>, String> {
    let mut out = Vec::new();
    for (t, c) in rd_all(rd_one(der, 0x30)?)? {
        match t {
            0x02 => {
                let v = rd_uint(c)?;
                out.push((v, v));
            }
            0x30 => {
                let parts = rd_all(c)?;
                if parts.len() != 2 || parts[0].0 != 0x02 || parts[1].0 != 0x02 {
                    return Err("bad ASRange".into());
                }
                out.push((rd_uint(parts[0].1)?, rd_uint(parts[1].1)?));
            }
            _ => return Err(format!("unexpected tag {:02x}", t)),
        }
    }
    Ok(out)
}

pub fn enc<V: Values>(v: V) -> Vec<u8> {
    v.to_captured(Mode::Der).as_slice().to_vec()
}

//------------ text rendering (the harness' own writer) ------------------------------------

pub fn as_text(v: u32, style: u8) -> String {
    match style % 3 {
        0 => format!("AS{}", v),
        1 => format!("as{}", v),
        _ => format!("{}", v),
    }
}

pub fn v6_text(v: u128, style: u8) -> String {
    let g: Vec<u16> = (0..8).map(|i| (v >> (112 - 16 * i)) as u16).collect();
    match style % 4 {
        1 => g.iter().map(|x| format!("{:x}", x)).collect::<Vec<_>>().join(":"),
        2 => g.iter().map(|x| format!("{:04X}", x)).collect::<Vec<_>>().join(":"),
        3 if v >> 32 == 0 => format!("::{}", Ipv4Addr::from(v as u32)),
        3 if v >> 32 == 0xffff => format!("::FFFF:{}", Ipv4Addr::from(v as u32)),
        _ => Ipv6Addr::from(v).to_string(),
    }
}

pub fn addr_text(fam: Fam, v: u128, style: u8) -> String {
    match fam {
        Fam::As => as_text(v as u32, style),
        Fam::V4 => Ipv4Addr::from(v as u32).to_string(),
        Fam::V6 => v6_text(v, style),
    }
}

/// One list element for a block in value space. `lo > hi` renders an
/// inverted range.
pub fn elem_text(fam: Fam, lo: u128, hi: u128, form: u8, style: u8) -> String {
    if fam != Fam::As && lo <= hi && form % 3 == 0 {
        let plen = match fam {
            Fam::V4 => iset::range_prefix_len(lo as u32, hi as u32),
            _ => iset::range_prefix_len(lo, hi),
        };
        if let Some(len) = plen {
            return format!("{}/{}", addr_text(fam, lo, style), len);
        }
    }
    if lo == hi && form % 3 != 2 {
        return addr_text(fam, lo, style);
    }
    format!("{}-{}", addr_text(fam, lo, style), addr_text(fam, hi, style.rotate_right(2)))
}

/// Joins elements with the separator variations the parsers document
/// (comma, optional surrounding whitespace, empty elements are skipped).
pub fn join_elems(elems: &[String], style: u8) -> String {
    let sep = match (style >> 2) % 4 {
        0 => ", ",
        1 => ",",
        2 => " , ",
        _ => ",\t",
    };
    let mut s = String::new();
    if style & 0x10 != 0 {
        s.push(' ');
    }
    for (i, e) in elems.iter().enumerate() {
        if i > 0 {
            s.push_str(sep);
            if style & 0x20 != 0 && i == 1 {
                s.push_str(", ");
            }
        }
        s.push_str(e);
    }
    if style & 0x40 != 0 && !elems.is_empty() {
        s.push_str(", ");
    }
    s
}

pub fn list_text(fam: Fam, b: &[Blk], style: u8) -> String {
    let elems: Vec<String> =
        b.iter().enumerate().map(|(i, x)| elem_text(fam, x.lo.0, x.hi.0, x.form, style.wrapping_add(i as u8))).collect();
    join_elems(&elems, style)
}

//------------ adapters to the library types -------------------------------------------------

pub fn asn(v: u32) -> Asn {
    Asn::from_u32(v)
}

pub fn as_block(b: &Blk) -> AsBlock {
    let (lo, hi) = (b.lo.0 as u32, b.hi.0 as u32);
    match b.form % 3 {
        0 if lo == hi => AsBlock::Id(asn(lo)),
        1 if lo == hi => AsBlock::from(asn(lo)),
        _ => AsBlock::from((asn(lo), asn(hi))),
    }
}

pub fn lib_as(b: &[Blk]) -> AsBlocks {
    b.iter().map(as_block).collect()
}

pub fn addr(v: u128) -> Addr {
    Addr::from_bits(v)
}

pub fn ip_block(fam: Fam, b: &Blk) -> IpBlock {
    let (lo, hi) = to_addr(fam, b.lo.0, b.hi.0);
    match (b.form % 4, iset::range_prefix_len(lo, hi)) {
        (0, Some(len)) => IpBlock::Prefix(Prefix::new(addr(lo), len)),
        (1, _) => IpBlock::from((addr(lo), addr(hi))),
        (2, Some(len)) => IpBlock::from(Prefix::new(addr(lo), len)),
        // also prefix-expressible blocks in the (non-canonical) range form
        _ => IpBlock::Range(AddressRange::new(addr(lo), addr(hi))),
    }
}

pub fn lib_ip(fam: Fam, b: &[Blk]) -> IpBlocks {
    b.iter().map(|x| ip_block(fam, x)).collect()
}

pub fn as_ranges(s: &AsBlocks) -> Vec<(u32, u32)> {
    s.iter().map(|b| (b.min().into_u32(), b.max().into_u32())).collect()
}

pub fn ip_ranges(s: &IpBlocks) -> Vec<(u128, u128)> {
    s.iter().map(|b| (b.min().to_bits(), b.max().to_bits())).collect()
}

pub fn fmt_ip(r: &[(u128, u128)]) -> String {
    let v: Vec<String> = r.iter().map(|(a, b)| format!("{:x}-{:x}", a, b)).collect();
    format!("[{}]", v.join(", "))
}

//------------ oracles: canonical form and denotation ---------------------------------------------

fn canon_sig(e: NonCanonical) -> &'static str {
    match e {
        NonCanonical::Inverted(_) => "canonical:inverted",
        NonCanonical::Unsorted(_) => "canonical:unsorted",
        NonCanonical::Overlap(_) => "canonical:overlap",
        NonCanonical::Adjacent(_) => "canonical:adjacent",
    }
}

/// Canonical form of an AS collection on its own (no model).
pub fn canon_as(what: &str, s: &AsBlocks) -> CheckResult {
    let r = as_ranges(s);
    if let Err(e) = iset::check_canonical(&r) {
        return Err(Fail::sig(canon_sig(e), format!("{}: stored blocks {:?} are not canonical: {:?}", what, r, e)));
    }
    Ok(())
}

pub fn check_as(what: &str, s: &AsBlocks, m: &ISet<u32>) -> CheckResult {
    canon_as(what, s)?;
    let r = as_ranges(s);
    ensure_sig!(r.as_slice() == m.ranges(), "denotation", "{}: library set {:?} but the mathematical set is {:?}", what, r, m.ranges());
    ensure!(s.is_empty() == m.is_empty(), "{}: is_empty() = {} for {:?}", what, s.is_empty(), r);
    Ok(())
}

pub fn canon_ip(what: &str, fam: Fam, s: &IpBlocks) -> CheckResult {
    let r = ip_ranges(s);
    if let Err(e) = iset::check_canonical(&r) {
        return Err(Fail::sig(canon_sig(e), format!("{}: stored blocks {} are not canonical: {:?}", what, fmt_ip(&r), e)));
    }
    for (i, b) in s.iter().enumerate() {
        let (lo, hi) = r[i];
        if fam == Fam::V4 {
            // a v4 set whose ends are not 2^96-aligned is unequal to the same
            // set parsed from its own text (text round-trip clause)
            ensure_sig!(
                iset::v4_project(lo, hi).is_some(),
                "canonical:v4-alignment",
                "{}: IPv4 block {:x}-{:x} is not aligned to the IPv4 representation (differs from its own text form)", what, lo, hi
            );
        }
        let expr = iset::range_prefix_len(lo, hi);
        match b {
            IpBlock::Prefix(p) => {
                ensure_sig!(
                    expr == Some(p.addr_len()) && p.addr_len() as u32 <= fam.bits(),
                    "canonical:prefix-form",
                    "{}: block {:x}-{:x} stored as prefix of length {} (model: {:?})", what, lo, hi, p.addr_len(), expr
                );
            }
            IpBlock::Range(_) => {
                ensure_sig!(
                    expr.is_none(),
                    "canonical:range-is-prefix",
                    "{}: block {:x}-{:x} is the prefix /{} but is stored as a range", what, lo, hi, expr.unwrap_or(0)
                );
            }
        }
    }
    Ok(())
}

pub fn check_ip(what: &str, fam: Fam, s: &IpBlocks, m: &ISet<u128>) -> CheckResult {
    canon_ip(what, fam, s)?;
    let r = ip_ranges(s);
    ensure_sig!(
        r.as_slice() == m.ranges(),
        "denotation",
        "{}: library set {} but the mathematical set is {}", what, fmt_ip(&r), fmt_ip(m.ranges())
    );
    ensure!(s.is_empty() == m.is_empty(), "{}: is_empty() = {}", what, s.is_empty());
    Ok(())
}

/// `to_v4_prefixes` / `to_v6_prefixes` of `[lo, hi]` (address space): prefixes
/// ascending, disjoint, union exactly the range. Returns the number of prefixes.
pub fn check_prefixes(fam: Fam, lo: u128, hi: u128) -> Result<usize, Fail> {
    let r = AddressRange::new(addr(lo), addr(hi));
    let ps: Vec<Prefix> = if fam == Fam::V4 { r.to_v4_prefixes().collect() } else { r.to_v6_prefixes().collect() };
    let name = if fam == Fam::V4 { "to_v4_prefixes" } else { "to_v6_prefixes" };
    let show = |ps: &[Prefix]| {
        ps.iter().map(|p| format!("{:x}/{}", p.min().to_bits(), p.addr_len())).collect::<Vec<_>>().join(" ")
    };
    ensure_sig!(!ps.is_empty(), "prefixes", "{} of {:x}-{:x} is empty", name, lo, hi);
    let mut next = Some(lo);
    for p in &ps {
        let (pl, ph) = (p.min().to_bits(), p.max().to_bits());
        ensure_sig!(
            Some(pl) == next,
            "prefixes",
            "{} of {:x}-{:x}: prefix {:x}/{} does not start where the previous one ended: [{}]", name, lo, hi, pl, p.addr_len(), show(&ps)
        );
        ensure_sig!(
            p.addr_len() as u32 <= fam.bits() && iset::prefix_range(pl, p.addr_len()) == (pl, ph),
            "prefixes",
            "{} of {:x}-{:x}: malformed prefix {:x}/{}", name, lo, hi, pl, p.addr_len()
        );
        ensure_sig!(ph <= hi, "prefixes", "{} of {:x}-{:x}: prefix {:x}/{} overshoots: [{}]", name, lo, hi, pl, p.addr_len(), show(&ps));
        next = ph.checked_add(1);
    }
    let last = ps.last().unwrap().max().to_bits();
    ensure_sig!(last == hi, "prefixes", "{} of {:x}-{:x} ends at {:x}: [{}]", name, lo, hi, last, show(&ps));
    // the decomposition through the iterator's adaptors (at most 2 * 128 prefixes)
    if fam == Fam::V4 {
        crate::iterlaws::check(name, "prefixes", 300, || r.to_v4_prefixes())?;
    } else {
        crate::iterlaws::check(name, "prefixes", 300, || r.to_v6_prefixes())?;
    }
    Ok(ps.len())
}

/// Maps a panic inside `f` to a failure with a stable signature.
pub fn guarded<T>(sig: &'static str, what: &str, f: impl FnOnce() -> T) -> Result<T, Fail> {
    no_panic(what, f).map_err(|e| Fail::sig(sig, e.msg))
}
