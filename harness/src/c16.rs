//! C16 — RTR serial numbers compare and advance per RFC 1982.
//!
//! Complete enumeration: for each base value all 2^32 differences d, all
//! increments n in [0, 2^31-1], all 2^32 wire values.

use crate::engine::*;
use crate::gen::dense_u32;
use proptest::prelude::*;
use rpki::rtr::state::{Serial, State};
use serde::{Deserialize, Serialize};
use serde_json::json;
use std::cmp::Ordering;

pub const RULE: &str = "enumeration, no sampling: sub-check cmp = for each base b (quick: 0,2^31-1,2^31,2^32-1 + 2 seed-derived; \
thorough: 0,1,2^31-1,2^31,2^31+1,2^32-2,2^32-1,0x12345678 + 24 seed-derived) every d in [0,2^32): \
Serial(b) vs Serial(b+d mod 2^32) in both directions and ==, oracle = RFC 1982 table on d; sub-check add = \
every n in [0,2^31-1] per base; sub-check wire = every u32. A case is one chunk of 2^22 consecutive d (or n, \
or values); sub-check pairs = random (a, b, n) from a boundary-dense strategy (b absolute or relative to a), same oracle (partial_cmp and all six operators), so that bases outside the enumerated set are sampled too, plus State::inc == add(1) (session untouched, strictly greater, also from 2^32-1), equal serials hash equally, u32 <-> Serial conversions keep the value; non-trivial = evaluations with d != 0 (n != 0), distinct by construction of the enumeration \
(each (base,d) visited once), counted while enumerating.";

const CHUNK_BITS: u32 = 22;
const CHUNK: u64 = 1 << CHUNK_BITS;

#[derive(Clone, Debug, Serialize, Deserialize)]
pub struct Chunk {
    pub base: u32,
    pub start: u64,
    pub len: u64,
}

fn bases(tier: Tier, seed: u64) -> Vec<u32> {
    let mut b: Vec<u32> = match tier {
        Tier::Quick => vec![0, 0x7FFF_FFFF, 0x8000_0000, 0xFFFF_FFFF],
        Tier::Thorough => vec![
            0, 1, 0x7FFF_FFFF, 0x8000_0000, 0x8000_0001, 0xFFFF_FFFE, 0xFFFF_FFFF, 0x1234_5678,
        ],
    };
    let extra = tier.pick(2, 24);
    for v in seed_values(seed, "C16", "bases", extra) {
        b.push(v as u32);
    }
    b
}

fn expected(d: u32) -> Option<Ordering> {
    // a = b, other = b + d.  RFC 1982: a < other iff 0 < d < 2^31.
    if d == 0 {
        Some(Ordering::Equal)
    } else if d < 0x8000_0000 {
        Some(Ordering::Less)
    } else if d == 0x8000_0000 {
        None
    } else {
        Some(Ordering::Greater)
    }
}

fn run_cmp(c: &Chunk, obs: &mut Obs) -> CheckResult {
    let a = Serial(c.base);
    let mut nt = 0u64;
    for d in c.start..c.start + c.len {
        let d = d as u32;
        let b = Serial(c.base.wrapping_add(d));
        let exp = expected(d);
        let got = a.partial_cmp(&b);
        let rev = b.partial_cmp(&a);
        let eq = a == b;
        if got != exp || rev != exp.map(Ordering::reverse) || eq != (d == 0) {
            return Err(Fail::sig(
                "cmp",
                format!(
                    "Serial({}) vs Serial({}) (d={}): partial_cmp={:?} reverse={:?} eq={} expected {:?}",
                    c.base, b.0, d, got, rev, eq, exp
                ),
            )
            .with_case(json!({"base": c.base, "start": d as u64, "len": 1})));
        }
        // comparison operators derived from partial_cmp
        if (a < b) != (exp == Some(Ordering::Less)) || (a > b) != (exp == Some(Ordering::Greater))
            || (a <= b) != matches!(exp, Some(Ordering::Less | Ordering::Equal))
            || (a >= b) != matches!(exp, Some(Ordering::Greater | Ordering::Equal))
            || (a != b) != (d != 0)
        {
            return Err(Fail::sig("cmp", format!("operators disagree for base {} d {}", c.base, d))
                .with_case(json!({"base": c.base, "start": d as u64, "len": 1})));
        }
        if d != 0 {
            nt += 1;
        }
    }
    obs.evals(c.len.saturating_sub(1));
    obs.bulk_nontrivial = nt;
    obs.label_if(c.start <= 0x8000_0000 && 0x8000_0000 < c.start + c.len, "contains-2^31");
    Ok(())
}

fn run_add(c: &Chunk, obs: &mut Obs) -> CheckResult {
    let b = Serial(c.base);
    let mut nt = 0u64;
    for n in c.start..c.start + c.len {
        let n = n as u32;
        let s = b.add(n);
        let exp_val = ((c.base as u64 + n as u64) % (1u64 << 32)) as u32;
        let ok = s.0 == exp_val
            && if n == 0 {
                s == b && s.partial_cmp(&b) == Some(Ordering::Equal)
            } else {
                s > b && b < s && s != b && !(s < b)
            };
        if !ok {
            return Err(Fail::sig(
                "add",
                format!("Serial({}).add({}) = {:?}: not strictly greater / wrong value", c.base, n, s),
            )
            .with_case(json!({"base": c.base, "start": n as u64, "len": 1})));
        }
        if n != 0 {
            nt += 1;
        }
    }
    obs.evals(c.len.saturating_sub(1));
    obs.bulk_nontrivial = nt;
    obs.label_if(
        (c.base as u64 + c.start + c.len) > (1u64 << 32),
        "crosses-wrap",
    );
    Ok(())
}

fn run_wire(c: &Chunk, obs: &mut Obs) -> CheckResult {
    let mut nt = 0u64;
    for v in c.start..c.start + c.len {
        let v = v as u32;
        let wire = v.to_be_bytes(); // reference: network byte order
        // what a packed struct field holds after reading the 4 wire bytes
        let raw = u32::from_ne_bytes(wire);
        let s = Serial::from_be(raw);
        let back = Serial(v).to_be().to_ne_bytes();
        if s.0 != v || back != wire || Serial::from_be(Serial(v).to_be()) != Serial(v)
            || u32::from(Serial::from(v)) != v
        {
            return Err(Fail::sig(
                "wire",
                format!("wire conversion of {}: from_be -> {:?}, to_be bytes {:?}, expected {:?}", v, s, back, wire),
            )
            .with_case(json!({"base": 0, "start": v as u64, "len": 1})));
        }
        if v != 0 {
            nt += 1;
        }
    }
    obs.evals(c.len.saturating_sub(1));
    obs.bulk_nontrivial = nt;
    Ok(())
}

fn count_cmp(tier: Tier, seed: u64) -> u64 {
    bases(tier, seed).len() as u64 * ((1u64 << 32) / CHUNK)
}
fn make_cmp(tier: Tier, seed: u64, idx: u64) -> Chunk {
    let per = (1u64 << 32) / CHUNK;
    let b = bases(tier, seed);
    Chunk { base: b[(idx / per) as usize], start: (idx % per) * CHUNK, len: CHUNK }
}
fn count_add(tier: Tier, seed: u64) -> u64 {
    bases(tier, seed).len() as u64 * ((1u64 << 31) / CHUNK)
}
fn make_add(tier: Tier, seed: u64, idx: u64) -> Chunk {
    let per = (1u64 << 31) / CHUNK;
    let b = bases(tier, seed);
    Chunk { base: b[(idx / per) as usize], start: (idx % per) * CHUNK, len: CHUNK }
}
fn count_wire(_: Tier, _: u64) -> u64 {
    (1u64 << 32) / CHUNK
}
fn make_wire(_: Tier, _: u64, idx: u64) -> Chunk {
    Chunk { base: 0, start: idx * CHUNK, len: CHUNK }
}

/// Random pairs of arbitrary values: guards against a comparison that is wrong
/// only for bases the enumeration does not visit.
#[derive(Clone, Debug, Serialize, Deserialize)]
pub struct Pair {
    pub a: u32,
    pub b: u32,
    pub n: u32,
}

fn pair_strategy(_: Tier) -> BoxedStrategy<Pair> {
    (dense_u32(), dense_u32(), any::<bool>(), prop_oneof![dense_u32(), Just(0x7FFF_FFFFu32)])
        .prop_map(|(a, d, rel, n)| Pair { a, b: if rel { a.wrapping_add(d) } else { d }, n: n & 0x7FFF_FFFF })
        .boxed()
}

fn run_pair(c: &Pair, obs: &mut Obs) -> CheckResult {
    let (a, b) = (Serial(c.a), Serial(c.b));
    let d = c.b.wrapping_sub(c.a);
    let exp = expected(d);
    ensure!(a.partial_cmp(&b) == exp, "Serial({}) vs Serial({}) (d={}): {:?} expected {:?}", c.a, c.b, d, a.partial_cmp(&b), exp);
    ensure!(b.partial_cmp(&a) == exp.map(Ordering::reverse), "reverse of Serial({}) vs Serial({})", c.a, c.b);
    ensure!((a == b) == (d == 0) && (a == c.b) == (d == 0), "== of Serial({}) and Serial({})", c.a, c.b);
    ensure!((a < b) == (exp == Some(Ordering::Less)) && (a > b) == (exp == Some(Ordering::Greater))
        && (a <= b) == matches!(exp, Some(Ordering::Less | Ordering::Equal))
        && (a >= b) == matches!(exp, Some(Ordering::Greater | Ordering::Equal)),
        "operators disagree with RFC 1982 for Serial({}) vs Serial({})", c.a, c.b);
    let s = a.add(c.n);
    ensure!(s.0 == c.a.wrapping_add(c.n), "Serial({}).add({}) = {:?}", c.a, c.n, s);
    if c.n != 0 {
        ensure!(s > a && a < s && s != a, "Serial({}).add({}) = {:?} is not strictly greater", c.a, c.n, s);
    }
    // the other public way of advancing a serial: State::inc (documented as "increases the serial
    // number by one", wrapping) must agree with add(1) and leave the session alone
    let session = (c.b ^ c.n) as u16;
    let mut st = State::from_parts(session, a);
    st.inc();
    ensure!(st.serial().0 == c.a.wrapping_add(1) && st.session() == session,
        "State::from_parts({}, Serial({})).inc() gives session {} serial {:?}", session, c.a, st.session(), st.serial());
    ensure!(st.serial() > a && a < st.serial() && st.serial() != a && st.serial() == a.add(1),
        "State::inc on Serial({}) is not strictly greater / differs from add(1): {:?}", c.a, st.serial());
    // equal serials are interchangeable (hash), conversions to and from u32 keep the value
    if d == 0 {
        use std::hash::{Hash, Hasher};
        let h = |s: Serial| { let mut h = std::collections::hash_map::DefaultHasher::new(); s.hash(&mut h); h.finish() };
        ensure!(h(a) == h(b), "equal serials {} hash differently", c.a);
    }
    ensure!(u32::from(a) == c.a && Serial::from(c.a) == a && Serial::from(c.a).0 == c.a, "u32 <-> Serial conversion changes {}", c.a);
    obs.nontrivial_if(d != 0);
    obs.label_if(c.a == u32::MAX, "inc-wraps");
    obs.label_if(d == 0x8000_0000, "d=2^31");
    obs.label_if((c.a as u64 + c.n as u64) > u32::MAX as u64, "add-wraps");
    Ok(())
}

pub fn property() -> Property {
    Property {
        id: "C16",
        rule: RULE,
        assumptions: vec![
            "the host is little- or big-endian (wire oracle uses to_be_bytes/from_ne_bytes)",
            "Serial::add is only specified for n <= 2^31-1 (larger n panics by documentation and is not generated)",
        ],
        subs: vec![
            EnumSub { name: "cmp", count: count_cmp, make: make_cmp, run: run_cmp, exhaustive: true }.boxed(),
            EnumSub { name: "add", count: count_add, make: make_add, run: run_add, exhaustive: true }.boxed(),
            EnumSub { name: "wire", count: count_wire, make: make_wire, run: run_wire, exhaustive: true }.boxed(),
            PropSub {
                name: "pairs",
                strategy: pair_strategy,
                cases: |t| t.pick(8_000_000, 200_000_000),
                run: run_pair,
                floors: &[("d=2^31", 0.001), ("add-wraps", 0.02), ("inc-wraps", 0.01)],
            }
            .boxed(),
        ],
    }
}
