//! C06 — RTR: after any completed exchange the client holds exactly the
//! server's data.
//!
//! The real `rtr::Client` talks to the real `rtr::Server` over in-memory
//! sockets on a paused-time current-thread runtime. A generated history drives
//! source updates, notifications, client steps and reconnects; a model of the
//! client's data is maintained from the recorded `PayloadTarget::apply` calls.

use crate::engine::*;
use crate::rtrsim::{self, strat, ApplyRec, CapInfo, CapSock, Data, Delta, Item, MemCtl, MemEnd, RecTarget, RefSource, Tm};
use proptest::prelude::*;
use rpki::rtr::client::Client;
use rpki::rtr::server::{NotifySender, Server};
use rpki::rtr::state::{Serial, State};
use serde::{Deserialize, Serialize};
use std::io;
use std::sync::atomic::{AtomicU32, Ordering};
use std::sync::{Arc, Mutex};
use std::time::Duration;
use tokio::sync::mpsc::UnboundedSender;

pub const RULE: &str = "histories: random history = first connection + vec(op, 1..40) over a reference source (payload sets of \
route origins v4/v6 with max-len, router keys, ASPAs; start serial anywhere incl. next to 2^32-1; diff window 0..5; timing \
changing with updates); ops = Update(add/remove/replace ASPA providers/clear/bulk, optional new timing), Notify, \
ClientStep(optionally with an update fired by the source's iterator in the middle of the response, optionally with a \
notification fired by a timer task n virtual seconds later), NewConnection{initial \
version 0|1|2, initial state none|last|stale|foreign session|future serial, server version cap 0|1|2 (proxy answering \
too-new queries with Error 4), socket buffer 16..65535 bytes}, SetReady. Oracle after every step that returned Ok: exactly \
one apply; model (recorded announcements/withdrawals applied in order, ASPA keyed by customer, reset starts from empty) \
(unrestricted) == source snapshot at Client::state() restricted to the payload types of the version on the wire; \
Client::state() names a state the source issued; for version >= 1 timing passed to apply == source timing. Err steps: no \
apply. Every step must finish within 100000 socket operations and 200000 s of virtual time; a step with a ready source, no \
stray Serial Notify and no notification timer outstanding must succeed. Non-trivial = history with >=1 update between two successful steps on one connection \
where the later step is diff-served or a Cache Reset fallback. Steps are taken through step(), through update() + apply(), or as a caller-forced reset() + apply(); every item handed to the target must be interchangeable (==, hash, cmp) with the same item built through the public constructors with explicit and with implicit max length. The reference source's items include ASPAs with provider lists around 64 and 256 entries and up to 4000, router keys up to 5000 octets and (one update in about 500) tables of 1500..4000 origins, so that single responses carry 64 KiB and more of PDUs with boundaries at every offset modulo 4.";

const SETTLE_TURNS: u32 = 400;
const STEP_BUDGET: u64 = 100_000;
const STEP_VIRTUAL_SECS: u64 = 200_000;

//------------ case ---------------------------------------------------------------

#[derive(Clone, Debug, Serialize, Deserialize)]
pub enum InitState {
    None,
    /// The state verified after the last successful step (of any connection).
    Last,
    /// The state `n` updates before the current one.
    Stale(u8),
    Foreign,
    /// A serial the source has not issued yet (current + n).
    Future(u8),
}

#[derive(Clone, Debug, Serialize, Deserialize)]
pub struct Conn {
    pub initial_version: u8,
    pub state: InitState,
    pub cap: u8,
    pub bufcap: u16,
    /// Capacity of the pipe towards the server (0 = unbounded): with a few
    /// octets only, the server sees the client's queries arrive in pieces, as
    /// from a slow router, and a notification can fall between the pieces.
    #[serde(default)]
    pub upcap: u8,
}

#[derive(Clone, Debug, Serialize, Deserialize)]
pub enum Op {
    Update { deltas: Vec<Delta>, timing: Option<Tm> },
    Notify,
    /// `mid`: update applied by the source while the server iterates the
    /// response (at item `.0`); does not change timing. `notify_after`: a
    /// notification fired by a timer task that many virtual seconds after the
    /// step starts (during the refresh wait, the exchange or a later step).
    ClientStep {
        mid: Option<(u8, Vec<Delta>)>,
        #[serde(default)]
        notify_after: Option<u32>,
        /// 0: `step()`; 1: `update()` then `apply()`; 2: `reset()` then
        /// `apply()` - a full resynchronisation forced by the caller.
        #[serde(default)]
        how: u8,
    },
    NewConnection(Conn),
    SetReady(bool),
}

#[derive(Clone, Debug, Serialize, Deserialize)]
pub struct Case {
    pub session: u16,
    pub start_serial: u32,
    pub retention: u8,
    pub flip: bool,
    pub initial: Vec<Item>,
    pub timing: Tm,
    pub first: Conn,
    pub ops: Vec<Op>,
}

//------------ live connection ------------------------------------------------------

type Cl = Client<CapSock<MemEnd>, RecTarget>;

struct Live {
    conn: Conn,
    ctl: MemCtl,
    info: Arc<Mutex<CapInfo>>,
    sock: Option<CapSock<MemEnd>>,
    client: Option<Cl>,
    /// Model of the data the client's target holds.
    model: Data,
    had_state: bool,
    ok_steps: u32,
    dead: bool,
    update_since_ok: bool,
    /// the client's refresh timer is armed (an `update()` has completed on this client)
    timer_armed: bool,
}

#[derive(Default)]
struct Summary {
    versions: [bool; 3],
    downgrade: bool,
    diff: bool,
    initial_reset: bool,
    fallback: bool,
    wrap: bool,
    notify_woken: bool,
    notify_during_step: bool,
    timer_woken: bool,
    err_step: bool,
    mid_fired: bool,
    forced_reset: bool,
    update_apply: bool,
    nontrivial: bool,
    ok_steps: u32,
    steps: u32,
}

async fn connect(tx: &UnboundedSender<Result<MemEnd, io::Error>>, conn: &Conn) -> Result<Live, Fail> {
    // (only together with an unbounded pipe towards the client: two peers that each block on a
    // full pipe while writing deadlock by construction, whatever the code does)
    let up = if conn.upcap == 0 || conn.bufcap != u16::MAX { usize::MAX } else { conn.upcap as usize };
    let (s_end, c_end, ctl) = rtrsim::mem_pair(up, (conn.bufcap as usize).max(16));
    tx.send(Ok(s_end)).map_err(|_| Fail::new("server listener gone"))?;
    rtrsim::settle(&ctl, SETTLE_TURNS).await.map_err(Fail::new)?;
    let sock = CapSock::new(c_end, conn.cap);
    let info = sock.info.clone();
    Ok(Live {
        conn: conn.clone(),
        ctl,
        info,
        sock: Some(sock),
        client: None,
        model: Data::default(),
        had_state: false,
        ok_steps: 0,
        dead: false,
        update_since_ok: false,
        timer_armed: false,
    })
}

fn garbage() -> Data {
    Data::from_items(&[Item::V4 { addr: 0xDEAD_0000, len: 16, max: 16, asn: 666 }])
}

/// Builds the client of a fresh connection: resolves the initial state against
/// the source as it is now and gives the model the matching data.
fn build_client(live: &mut Live, src: &RefSource, last_ok: Option<(u16, u32)>) {
    let v = live.conn.initial_version.min(live.conn.cap).min(2);
    let cur = src.current();
    let session = src.session();
    let (state, model): (Option<(u16, u32)>, Data) = match live.conn.state {
        InitState::None => (None, Data::default()),
        InitState::Last => match last_ok {
            Some((sess, serial)) => match src.snapshot_at(serial) {
                Some(s) if sess == session => (Some((sess, serial)), s.data.restricted(v)),
                _ => (None, Data::default()),
            },
            None => (None, Data::default()),
        },
        InitState::Stale(n) => match src.back(n.max(1) as usize) {
            Some(s) => (Some((session, s.serial)), s.data.restricted(v)),
            None => {
                // older than anything the source ever issued
                let serial = cur.serial.wrapping_sub(src.history_len() as u32 + n as u32);
                (Some((session, serial)), garbage())
            }
        },
        InitState::Foreign => (Some((session ^ 0x5A5A, cur.serial)), garbage()),
        InitState::Future(n) => (Some((session, cur.serial.wrapping_add(n.max(1) as u32))), garbage()),
    };
    live.had_state = state.is_some();
    live.model = model;
    let sock = live.sock.take().expect("socket present");
    let state = state.map(|(s, n)| State::from_parts(s, Serial(n)));
    // Client::new is the constructor for "the highest version we speak"
    live.client = Some(if live.conn.initial_version == 2 && live.conn.bufcap % 2 == 1 {
        Client::new(sock, RecTarget::default(), state)
    } else {
        Client::with_initial_version(live.conn.initial_version, sock, RecTarget::default(), state)
    });
}

fn describe(rec: &ApplyRec) -> String {
    format!("reset={} {} items timing={:?}", rec.reset, rec.items.len(), rec.timing)
}

//------------ run ----------------------------------------------------------------------

fn run_history(c: &Case, obs: &mut Obs) -> CheckResult {
    let r: Result<Summary, Fail> = rtrsim::block_on(true, async {
        let src = RefSource::new(c.session, c.start_serial, Data::from_items(&c.initial), c.retention as usize, c.timing);
        src.set_flip(c.flip);
        let (tx, mut rx) = tokio::sync::mpsc::unbounded_channel::<Result<MemEnd, io::Error>>();
        let listener = futures_util::stream::poll_fn(move |cx| rx.poll_recv(cx));
        let mut notify = NotifySender::new();
        let server = Server::new(listener, notify.clone(), src.clone());
        let server_task = tokio::spawn(server.run());
        let mut sum = Summary::default();
        let mut last_ok: Option<(u16, u32)> = None;
        let mut ready = true;
        let timers_started = Arc::new(AtomicU32::new(0));
        let timers_fired = Arc::new(AtomicU32::new(0));
        let mut live = connect(&tx, &c.first).await?;

        for (opi, op) in c.ops.iter().enumerate() {
            match op {
                Op::Update { deltas, timing } => {
                    src.update(deltas, *timing);
                    live.update_since_ok = true;
                }
                Op::SetReady(r) => {
                    ready = *r;
                    src.set_ready(ready);
                }
                Op::Notify => {
                    notify.notify();
                    rtrsim::settle(&live.ctl, SETTLE_TURNS).await.map_err(Fail::new)?;
                }
                Op::NewConnection(conn) => {
                    drop(live);
                    live = connect(&tx, conn).await?;
                }
                Op::ClientStep { mid, notify_after, how } => {
                    let how = *how % 3;
                    if live.dead {
                        // what Client::run's caller does after an error: reconnect with the last good state
                        let conn = Conn { state: InitState::Last, ..live.conn.clone() };
                        drop(live);
                        live = connect(&tx, &conn).await?;
                    }
                    if live.client.is_none() {
                        build_client(&mut live, &src, last_ok);
                    }
                    let first_step = live.ok_steps == 0;
                    // Serial Notify PDUs already waiting for the client
                    let pending = match rtrsim::parse_pdus(&live.ctl.pending_to_client()) {
                        Ok(p) => p.len() as u32,
                        Err(_) => 99, // partial PDU in a full buffer
                    };
                    let timers_idle = timers_started.load(Ordering::SeqCst) == timers_fired.load(Ordering::SeqCst)
                        && notify_after.is_none();
                    // A Serial Notify waiting in the socket is taken in by update() only while it waits for
                    // the refresh timer, which is armed by a completed update() - not by a bare reset().
                    let plain = ready && timers_idle && if !live.timer_armed || how == 2 { pending == 0 } else { pending <= 1 };
                    let notify_pending = pending > 0;
                    if let Some(secs) = notify_after {
                        let mut n = notify.clone();
                        let fired = timers_fired.clone();
                        timers_started.fetch_add(1, Ordering::SeqCst);
                        let secs = *secs as u64;
                        tokio::spawn(async move {
                            tokio::time::sleep(Duration::from_secs(secs)).await;
                            n.notify();
                            fired.fetch_add(1, Ordering::SeqCst);
                        });
                    }
                    let fired_timers_before = timers_fired.load(Ordering::SeqCst);
                    if let Some((at, deltas)) = mid {
                        src.arm(*at as usize, deltas.clone());
                    }
                    let fired_before = src.stats().fired;
                    live.ctl.set_budget(STEP_BUDGET);
                    let client = live.client.as_mut().unwrap();
                    let log_before = client.target().log.len();
                    let res = tokio::time::timeout(Duration::from_secs(STEP_VIRTUAL_SECS), async {
                        match how {
                            0 => client.step().await,
                            1 => {
                                let u = client.update().await?;
                                client.apply(u).await
                            }
                            _ => {
                                let u = client.reset().await?;
                                client.apply(u).await
                            }
                        }
                    })
                    .await;
                    sum.steps += 1;
                    let timer_notified = timers_fired.load(Ordering::SeqCst) > fired_timers_before;
                    // a mid-response update that found no response to ride on happens now
                    let fired_in_step = src.stats().fired > fired_before;
                    if src.fire_armed() || fired_in_step {
                        live.update_since_ok = true;
                    }
                    sum.mid_fired |= fired_in_step;
                    ensure!(!live.ctl.exhausted(), "op #{}: client step needed more than {} socket operations", opi, STEP_BUDGET);
                    let res = match res {
                        Ok(r) => r,
                        Err(_) => {
                            return Err(Fail::new(format!(
                                "op #{}: client step did not finish within {} s of virtual time (both sides parked)", opi, STEP_VIRTUAL_SECS
                            )))
                        }
                    };
                    let client = live.client.as_ref().unwrap();
                    let log = &client.target().log;
                    match res {
                        Err(e) => {
                            ensure!(log.len() == log_before, "op #{}: step returned Err({}) but handed an update to the target", opi, e);
                            ensure_sig!(!plain, "C06:plain-step-failed",
                                "op #{}: step failed ({:?}: {}) although the source was ready and no stray Serial Notify was in flight", opi, e.kind(), e);
                            sum.err_step = true;
                            live.dead = true;
                        }
                        Ok(()) => {
                            ensure!(log.len() == log_before + 1, "op #{}: successful step applied {} updates", opi, log.len() - log_before);
                            let rec = log.last().unwrap().clone();
                            ensure_sig!(rec.problems.is_empty(), "c06:item-not-interchangeable", "op #{}: {}", opi, rec.problems.join("; "));
                            ensure!(how != 2 || rec.reset, "op #{}: Client::reset() produced an update that is not a reset", opi);
                            sum.forced_reset |= how == 2;
                            sum.update_apply |= how == 1;
                            rtrsim::apply_rec(&mut live.model, &rec);
                            let info = live.info.lock().unwrap().clone();
                            let v = info.last_forwarded_version
                                .ok_or_else(|| Fail::new(format!("op #{}: step succeeded without any query reaching the server", opi)))?;
                            ensure!(v <= 2 && v <= live.conn.cap && v <= live.conn.initial_version,
                                "op #{}: query version {} on a connection with initial version {} and server cap {}", opi, v, live.conn.initial_version, live.conn.cap);
                            let st = client.state()
                                .ok_or_else(|| Fail::new(format!("op #{}: Client::state() is None after a successful step", opi)))?;
                            let (sess, serial) = (st.session(), u32::from(st.serial()));
                            ensure!(sess == src.session(), "op #{}: client session {} != source session {}", opi, sess, src.session());
                            let snap = src.snapshot_at(serial).ok_or_else(|| {
                                Fail::new(format!("op #{}: Client::state() names serial {} which the source never issued (current {})", opi, serial, src.current().serial))
                            })?;
                            // The statement restricts the *source's* set to the payload types of
                            // the negotiated version; what the client was handed is compared
                            // unrestricted, so a server that sends (or a client that accepts)
                            // payload types the version does not carry is a violation.
                            let have = live.model.clone();
                            let want = snap.data.restricted(v);
                            ensure!(have == want,
                                "op #{}: version {} step ({}): client data after applying the update differs from the source's set for serial {}: \
only client: {:?}; only source: {:?}", opi, v, describe(&rec), serial, have.diff_to(&want).iter().filter(|x| !x.1).collect::<Vec<_>>(),
                                have.diff_to(&want).iter().filter(|x| x.1).collect::<Vec<_>>());
                            if v >= 1 {
                                ensure!(rec.timing == src.timing_now(),
                                    "op #{}: version {} step: timing handed to the target {:?} != source timing {:?}", opi, v, rec.timing, src.timing_now());
                            }
                            // bookkeeping
                            sum.ok_steps += 1;
                            sum.versions[v as usize] = true;
                            sum.downgrade |= v < live.conn.initial_version.min(2);
                            let fallback = rec.reset && (live.had_state || live.ok_steps > 0);
                            sum.diff |= !rec.reset;
                            sum.fallback |= fallback;
                            sum.initial_reset |= rec.reset && !fallback;
                            sum.wrap |= serial < c.start_serial;
                            if !first_step && how != 2 {
                                if notify_pending { sum.notify_woken = true } else if timer_notified { sum.notify_during_step = true } else { sum.timer_woken = true }
                            }
                            if live.ok_steps > 0 && live.update_since_ok && (!rec.reset || fallback) {
                                sum.nontrivial = true;
                            }
                            live.ok_steps += 1;
                            live.timer_armed |= how != 2;
                            live.update_since_ok = false;
                            last_ok = Some((sess, serial));
                        }
                    }
                }
            }
        }
        drop(live);
        drop(tx);
        server_task.abort();
        Ok(sum)
    });
    let sum = r?;
    for (i, l) in ["v0", "v1", "v2"].iter().enumerate() {
        obs.label_if(sum.versions[i], l);
    }
    obs.label_if(sum.downgrade, "downgrade");
    obs.label_if(sum.diff, "diff");
    obs.label_if(sum.initial_reset, "reset");
    obs.label_if(sum.fallback, "fallback");
    obs.label_if(sum.wrap, "wrap");
    obs.label_if(sum.notify_woken, "notify-woken");
    obs.label_if(sum.notify_during_step, "notify-during-step");
    obs.label_if(sum.timer_woken, "timer-woken");
    obs.label_if(sum.err_step, "err-step");
    obs.label_if(sum.mid_fired, "mid-response-update");
    obs.label_if(sum.forced_reset, "forced-reset");
    obs.label_if(sum.update_apply, "update-then-apply");
    obs.label_if(sum.ok_steps >= 2, "two-ok-steps");
    obs.evals(sum.steps.saturating_sub(1) as u64);
    obs.nontrivial_if(sum.nontrivial);
    Ok(())
}

//------------ strategy ---------------------------------------------------------------------

fn conn_strategy() -> BoxedStrategy<Conn> {
    (
        0u8..=2,
        prop_oneof![
            3 => Just(InitState::None),
            4 => Just(InitState::Last),
            3 => (1u8..6).prop_map(InitState::Stale),
            1 => Just(InitState::Foreign),
            1 => (1u8..4).prop_map(InitState::Future),
        ],
        prop_oneof![6 => Just(2u8), 2 => Just(1u8), 2 => Just(0u8)],
        prop_oneof![1 => 16u16..64, 2 => 64u16..1024, 3 => Just(u16::MAX)],
        prop_oneof![5 => Just(0u8), 2 => 1u8..8, 1 => 8u8..20],
    )
        .prop_map(|(initial_version, state, cap, bufcap, upcap)| Conn { initial_version, state, cap, bufcap, upcap })
        .boxed()
}

fn op_strategy() -> BoxedStrategy<Op> {
    let deltas = prop::collection::vec(strat::delta(), 1..4);
    prop_oneof![
        30 => (deltas.clone(), prop::option::weighted(0.4, strat::timing())).prop_map(|(deltas, timing)| Op::Update { deltas, timing }),
        10 => Just(Op::Notify),
        42 => (
            prop::option::weighted(0.2, (0u8..6, deltas)),
            prop::option::weighted(0.15, prop_oneof![
                3 => prop::sample::select(vec![0u32, 1, 2, 3, 600, 3599, 3600, 3601, 86399, 86400, 86401]),
                1 => 0u32..100_000,
            ]),
            prop_oneof![6 => Just(0u8), 2 => Just(1u8), 2 => Just(2u8)],
        ).prop_map(|(mid, notify_after, how)| Op::ClientStep { mid, notify_after, how }),
        10 => conn_strategy().prop_map(Op::NewConnection),
        2 => prop::bool::weighted(0.6).prop_map(Op::SetReady),
    ]
    .boxed()
}

fn case_strategy(_: Tier) -> BoxedStrategy<Case> {
    (
        any::<u16>(),
        prop_oneof![
            3 => (0u32..12).prop_map(|k| u32::MAX - k),
            2 => prop::sample::select(vec![0u32, 1, 0x7FFF_FFFF, 0x8000_0000]),
            2 => any::<u32>(),
        ],
        0u8..=5,
        any::<bool>(),
        prop::collection::vec(strat::item(), 0..10),
        strat::timing(),
        conn_strategy(),
        prop::collection::vec(op_strategy(), 1..40),
    )
        .prop_map(|(session, start_serial, retention, flip, initial, timing, first, ops)| Case {
            session, start_serial, retention, flip, initial, timing, first, ops,
        })
        .boxed()
}

pub fn property() -> Property {
    Property {
        id: "C06",
        rule: RULE,
        assumptions: vec![
            "single-threaded scheduler with paused clock; source updates happen between steps or, for mid-response updates, inside the source's own iterator",
            "a client created with an initial state holds the source's data for that state restricted to the version it will negotiate (documented precondition of Client::new)",
            "after a failed step the connection is abandoned (as Client::run does) and the next step reconnects with the last verified state",
            "timing values stay within the ranges of RFC 8210 section 6; mid-response updates do not change timing",
        ],
        subs: vec![PropSub {
            name: "histories",
            strategy: case_strategy,
            cases: |t| t.pick(750_000, 5_000_000),
            run: run_history,
            floors: &[("v0", 0.15), ("v1", 0.15), ("v2", 0.15), ("downgrade", 0.10), ("fallback", 0.10), ("wrap", 0.05), ("diff", 0.2), ("forced-reset", 0.15), ("update-then-apply", 0.15)],
        }
        .boxed()],
    }
}
