//! C06 — stub (not built yet).

use crate::engine::*;

pub fn property() -> Property {
    Property { id: "C06", rule: "", assumptions: vec![], subs: vec![] }
}
