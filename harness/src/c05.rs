//! C05 — stub (not built yet).

use crate::engine::*;

pub fn property() -> Property {
    Property { id: "C05", rule: "", assumptions: vec![], subs: vec![] }
}
