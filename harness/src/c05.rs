//! C05 — built objects decode back to themselves and look the same either way.
//!
//! Every builder of the library (certificates, CRLs, manifests, ROAs, ASPAs,
//! CSRs, identity certificates, signed protocol messages) is fed with
//! profile-conforming generated input. Oracle per object: the DER decodes and
//! validates, re-encoding the decoded twin reproduces the bytes (outer object,
//! to-be-signed part, inner content), an accessor snapshot (every public
//! accessor / iterator rendered to text, each under `no_panic`) is identical
//! for the built value and its decoded twin, and no builder panics.

use crate::engine::*;
use crate::gen::{dense_u128, dense_u32, U128};
use crate::keys::{self, PoolSigner, POOL_SIZE};
use bcder::encode::Values;
use bcder::Mode;
use bytes::Bytes;
use chrono::{TimeZone, Utc};
use proptest::prelude::*;
use rpki::ca::csr::{BgpsecCsr, Csr, RpkiCaCsr};
use rpki::ca::idcert::IdCert;
use rpki::ca::sigmsg::SignedMessage;
use rpki::crypto::{DigestAlgorithm, PublicKey};
use rpki::repository::aspa::{Aspa, AspaBuilder};
use rpki::repository::cert::{Cert, ExtendedKeyUsage, KeyUsage, Overclaim, ResourceCert, TbsCert};
use rpki::repository::crl::{Crl, CrlEntry, TbsCertList};
use rpki::repository::manifest::{FileAndHash, Manifest, ManifestContent};
use rpki::repository::resources::{Addr, AsBlock, AsResources, Asn, IpBlock, IpResources};
use rpki::repository::roa::{Roa, RoaBuilder};
use rpki::repository::sigobj::{SignedObject, SignedObjectBuilder};
use rpki::repository::tal::TalInfo;
use rpki::repository::x509::{Name, Serial, Time, Validity};
use rpki::uri;
use serde::{Deserialize, Serialize};
use std::net::{Ipv4Addr, Ipv6Addr};
use std::sync::OnceLock;

pub const RULE: &str = "one sub-check per builder, random profile-conforming inputs: serials of 1..20 octets (sign bit clear, \
leading zeros, 0x80 boundaries), names (from key / other key / custom PrintableString CN + serialNumber), whole-second \
times in years 1..9999 dense at the UTCTime/GeneralizedTime switch 1950/2050, rsync/https URIs with and without trailing \
slash and beyond 127 octets, resource block lists in any order with overlaps and adjacency (all families, inherit, \
missing), 0..300 revocation entries unsorted with duplicates, 0..40 (1 in 80: 200..300) manifest files, ROA prefixes with max-length in \
[len, family max] in any order, 1..16380 distinct providers in any order without the customer, CSR SIA triples, IdCert \
TA/EE, signed messages with 0..3000 arbitrary content octets. Oracle: decode(encode(built)) succeeds and validates under \
its issuer (validate_*_at at a time inside the window; Roa/Aspa::process only for windows wide around now), \
encode(decoded) == encode(built), to-be-signed encode_ref of the decoded twin == the signed bytes, inner content \
encode_ref of the decoded twin == eContent, accessor snapshot (each accessor under no_panic) identical for both, no \
builder panic. Non-trivial = object with >= 2 list entries (blocks / prefixes / files / revoked / providers) or >= 2 \
resource families; for the list-less kinds: CSR with rpkiNotify or a repository URI without trailing slash, IdCert EE, \
signed message with >= 128 content octets. Builder routes: ROA prefixes reach RoaBuilder through one of six public routes chosen by the AS number (push_v*_addr, push_v*, extend_v*_from_slice in two portions, push_addr interleaved, v*_mut, with_addresses + set_as_id); every CRL is built a second time from decoy constructor arguments put right through the TbsCertList setters / revoked_certs_mut and must be byte-identical; certificates include detached EE certificates (with and without signedObject SIA) validated through validate_detached_ee_at. big-lists: manifests of 65536 / 65537 / 70001 files through ManifestContent::new -> into_manifest -> decode with the same twin comparison.";

//------------ generic helpers ---------------------------------------------------------

const LOW96: u128 = (1u128 << 96) - 1;
const YEAR1: i64 = -62_135_596_800;
const YEAR9999_END: i64 = 253_402_300_799;

fn hex(b: &[u8]) -> String {
    b.iter().map(|x| format!("{:02x}", x)).collect()
}

fn time_s(secs: i64) -> Result<Time, Fail> {
    Utc.timestamp_opt(secs, 0)
        .single()
        .map(Time::new)
        .ok_or_else(|| Fail::new(format!("generator: time {} s out of range", secs)))
}

fn show_time(t: Time) -> String {
    format!("{}.{:09}", t.timestamp(), t.timestamp_subsec_nanos())
}

fn serial_of(bytes: &[u8]) -> Result<Serial, Fail> {
    Serial::from_slice(bytes).map_err(|e| Fail::new(format!("generator: bad serial {:?}: {}", bytes, e)))
}

fn rsync(s: &str) -> Result<uri::Rsync, Fail> {
    uri::Rsync::from_string(s.to_string()).map_err(|e| Fail::new(format!("generator: bad rsync URI {:?}: {}", s, e)))
}

fn https(s: &str) -> Result<uri::Https, Fail> {
    uri::Https::from_string(s.to_string()).map_err(|e| Fail::new(format!("generator: bad https URI {:?}: {}", s, e)))
}

/// (tag, content start, content end) of the TLV at `pos` (definite lengths).
fn tlv(buf: &[u8], pos: usize) -> Option<(u8, usize, usize)> {
    let tag = *buf.get(pos)?;
    let l0 = *buf.get(pos + 1)? as usize;
    let (len, hdr) = if l0 < 0x80 {
        (l0, 2)
    } else {
        let n = l0 & 0x7f;
        if n == 0 || n > 4 {
            return None;
        }
        let mut l = 0usize;
        for k in 0..n {
            l = (l << 8) | *buf.get(pos + 2 + k)? as usize;
        }
        (l, 2 + n)
    };
    let start = pos + hdr;
    let end = start.checked_add(len)?;
    (end <= buf.len()).then_some((tag, start, end))
}

/// The first element (with its header) of the outer SEQUENCE: the signed part
/// of a certificate, CRL, CSR.
fn signed_part(der: &[u8]) -> Result<&[u8], Fail> {
    let bad = || Fail::new("harness: cannot locate the signed part");
    let (t, s, _) = tlv(der, 0).ok_or_else(bad)?;
    ensure!(t == 0x30, "harness: outer value is not a SEQUENCE");
    let (_, _, e) = tlv(der, s).ok_or_else(bad)?;
    Ok(&der[s..e])
}

fn der_len(n: usize) -> Vec<u8> {
    if n < 128 {
        vec![n as u8]
    } else if n < 256 {
        vec![0x81, n as u8]
    } else {
        vec![0x82, (n >> 8) as u8, n as u8]
    }
}

fn der_tlv(tag: u8, content: &[u8]) -> Vec<u8> {
    let mut v = vec![tag];
    v.extend(der_len(content.len()));
    v.extend_from_slice(content);
    v
}

fn captured<V: Values>(v: V) -> Vec<u8> {
    v.to_captured(Mode::Der).into_bytes().to_vec()
}

/// An accessor snapshot: (accessor name, rendered value).
type Snap = Vec<(String, String)>;

macro_rules! field {
    ($snap:expr, $who:expr, $name:expr, $e:expr) => {
        $snap.push(($name.to_string(), no_panic(&format!("{} twin: {}", $who, $name), || format!("{:?}", $e))?))
    };
}

fn compare_snaps(kind: &str, built: &Snap, decoded: &Snap) -> CheckResult {
    for (b, d) in built.iter().zip(decoded.iter()) {
        ensure!(b.0 == d.0, "harness: snapshot layout differs ({} / {})", b.0, d.0);
        if b.1 != d.1 {
            let cut = |s: &str| if s.len() > 600 { format!("{}…", &s[..s.char_indices().take_while(|x| x.0 < 600).last().map(|x| x.0).unwrap_or(0)]) } else { s.to_string() };
            return Err(Fail::sig(
                format!("c05:{}:twin:{}", kind, b.0),
                format!("{}: accessor {} differs: built = {} / decoded = {}", kind, b.0, cut(&b.1), cut(&d.1)),
            ));
        }
    }
    ensure!(built.len() == decoded.len(), "harness: snapshot lengths differ");
    Ok(())
}

fn ensure_bytes(kind: &str, what: &str, got: &[u8], want: &[u8]) -> CheckResult {
    if got != want {
        let pos = got.iter().zip(want.iter()).position(|(a, b)| a != b).unwrap_or(got.len().min(want.len()));
        return Err(Fail::sig(
            format!("c05:{}:{}", kind, what),
            format!(
                "{}: {}: {} octets instead of {}, first difference at offset {}: got …{} / want …{}",
                kind,
                what,
                got.len(),
                want.len(),
                pos,
                hex(&got[pos.min(got.len())..(pos + 12).min(got.len())]),
                hex(&want[pos.min(want.len())..(pos + 12).min(want.len())])
            ),
        ));
    }
    Ok(())
}

//------------ shared input specs and strategies ---------------------------------------

#[derive(Clone, Debug, PartialEq, Serialize, Deserialize)]
pub enum NameSpec {
    /// what the builder derives itself
    Default,
    /// derived from pool key
    FromKey(u8),
    /// commonName (+ serialNumber) as PrintableString
    Custom { cn: String, sn: Option<String> },
}

fn make_name(spec: &NameSpec) -> Result<Option<Name>, Fail> {
    Ok(match spec {
        NameSpec::Default => None,
        NameSpec::FromKey(k) => Some(PoolSigner::new().info(*k as usize).to_subject_name()),
        NameSpec::Custom { cn, sn } => {
            let rdn = |oid_last: u8, s: &str| {
                der_tlv(0x31, &der_tlv(0x30, &[der_tlv(0x06, &[0x55, 0x04, oid_last]), der_tlv(0x13, s.as_bytes())].concat()))
            };
            let mut body = rdn(3, cn);
            if let Some(sn) = sn {
                body.extend(rdn(5, sn));
            }
            let der = der_tlv(0x30, &body);
            Some(
                Mode::Der
                    .decode(der.as_slice(), Name::take_from)
                    .map_err(|e| Fail::new(format!("generator: custom name does not decode: {}", e)))?,
            )
        }
    })
}

fn name_strategy() -> BoxedStrategy<NameSpec> {
    prop_oneof![
        3 => Just(NameSpec::Default),
        2 => (0u8..8).prop_map(NameSpec::FromKey),
        2 => ("[A-Za-z0-9 '()+,./:=?-]{1,40}", prop::option::of("[A-Za-z0-9]{1,20}")).prop_map(|(cn, sn)| NameSpec::Custom { cn, sn }),
        1 => "[A-Za-z0-9 ]{120,200}".prop_map(|cn| NameSpec::Custom { cn, sn: None }),
    ]
    .boxed()
}

/// 1..=20 octets with the sign bit clear.
fn serial_strategy() -> BoxedStrategy<Vec<u8>> {
    let edge = prop::sample::select(vec![0u8, 1, 0x7f, 0x80, 0x81, 0xff]);
    prop_oneof![
        3 => (1usize..=20, edge.clone(), edge.clone(), any::<u8>()).prop_map(|(len, a, b, fill)| {
            let mut v = vec![fill; len];
            v[0] = a & 0x7f;
            if len > 1 { v[1] = b; }
            v
        }),
        2 => prop::collection::vec(any::<u8>(), 1..=20).prop_map(|mut v| { v[0] &= 0x7f; v }),
        1 => (1usize..=20).prop_map(|len| vec![0u8; len]),
        1 => (0usize..=19, edge).prop_map(|(zeros, b)| { let mut v = vec![0u8; zeros]; v.push(b); if v.len() == 20 { v[0] &= 0x7f; } v }),
        1 => Just({ let mut v = vec![0xffu8; 20]; v[0] = 0x7f; v }),
    ]
    .boxed()
}

/// Whole seconds within years 1..=9999.
fn time_strategy() -> BoxedStrategy<i64> {
    const EDGES: [i64; 14] = [
        YEAR1,
        YEAR9999_END,
        -631_152_000,  // 1950-01-01T00:00:00
        -631_152_001,  // 1949-12-31T23:59:59
        2_524_607_999, // 2049-12-31T23:59:59
        2_524_608_000, // 2050-01-01T00:00:00
        946_684_800,   // 2000-01-01
        946_684_799,
        951_782_400,   // 2000-02-29
        0,
        -1,
        1_767_225_600,               // 2026-01-01
        -62_135_596_800 + 31_536_000 * 998, // year ~999
        32_503_680_000,              // 3000-01-01
    ];
    prop_oneof![
        3 => (prop::sample::select(EDGES.to_vec()), -2i64..=2).prop_map(|(e, d)| (e + d).clamp(YEAR1, YEAR9999_END)),
        3 => -700_000_000i64..2_600_000_000,
        2 => 900_000_000i64..2_000_000_000,
        1 => YEAR1..=YEAR9999_END,
    ]
    .boxed()
}

#[derive(Clone, Copy, Debug, Serialize, Deserialize)]
pub struct Window {
    pub nb: i64,
    pub na: i64,
    /// selects the evaluation time inside [nb, na]
    pub at: u32,
}

impl Window {
    fn validity(self) -> Result<Validity, Fail> {
        Ok(Validity::new(time_s(self.nb)?, time_s(self.na)?))
    }
    fn eval(self) -> Result<Time, Fail> {
        let span = (self.na - self.nb) as u64;
        let off = match self.at % 4 {
            0 => 0,
            1 => span,
            _ => (self.at as u64).wrapping_mul(0x9E37_79B9) % (span + 1),
        };
        time_s(self.nb + off as i64)
    }
    /// wide around any plausible "now" (for entry points that read the clock)
    fn wide(self) -> bool {
        self.nb <= 946_684_800 && self.na >= 7_258_118_400
    }
}

fn window_strategy() -> BoxedStrategy<Window> {
    prop_oneof![
        4 => (time_strategy(), time_strategy(), any::<u32>()).prop_map(|(a, b, at)| Window { nb: a.min(b), na: a.max(b), at }),
        1 => (time_strategy(), any::<u32>()).prop_map(|(a, at)| Window { nb: a, na: a, at }),
        3 => (YEAR1..=946_684_800i64, 7_258_118_400i64..=YEAR9999_END, any::<u32>()).prop_map(|(nb, na, at)| Window { nb, na, at }),
    ]
    .boxed()
}

const SEG: &str = "[A-Za-z0-9._~!$&'()*+,;=:%-]{1,12}";

fn segments() -> BoxedStrategy<Vec<String>> {
    prop_oneof![
        6 => prop::collection::vec(SEG, 0..4),
        1 => ("[A-Za-z0-9]{130,300}", prop::collection::vec(SEG, 0..2)).prop_map(|(long, mut v)| { v.push(long); v }),
    ]
    .prop_map(|v| v.into_iter().filter(|s| s != "." && s != "..").collect())
    .boxed()
}

/// rsync URI text; `dir`: trailing slash.
fn rsync_strategy(dir: Option<bool>) -> BoxedStrategy<String> {
    let auth = prop::sample::select(vec!["example.com", "localhost:4404", "rpki.example.net", "192.0.2.1:873", "a", "RPKI.Example.ORG"]);
    let scheme = prop_oneof![9 => Just("rsync://"), 1 => Just("RSYNC://"), 1 => Just("rSync://")];
    let dir = match dir {
        Some(d) => Just(d).boxed(),
        None => any::<bool>().boxed(),
    };
    (scheme, auth, "[a-zA-Z0-9_-]{1,8}", segments(), dir)
        .prop_map(|(scheme, auth, module, segs, dir)| {
            let mut s = format!("{}{}/{}/", scheme, auth, module);
            s.push_str(&segs.join("/"));
            if dir && !segs.is_empty() {
                s.push('/');
            }
            s
        })
        .boxed()
}

fn https_strategy() -> BoxedStrategy<String> {
    let auth = prop::sample::select(vec!["example.com", "localhost:8443", "rrdp.example.net"]);
    (auth, segments(), any::<bool>())
        .prop_map(|(auth, segs, slash)| {
            let mut s = format!("https://{}/", auth);
            s.push_str(&segs.join("/"));
            if slash && !segs.is_empty() {
                s.push('/');
            }
            s
        })
        .boxed()
}

#[derive(Clone, Debug, PartialEq, Serialize, Deserialize)]
pub enum ResSpec {
    Missing,
    Inherit,
    /// closed ranges (lo <= hi) in any order, overlaps and adjacency allowed;
    /// IPv4 and AS in a 32-bit space
    Blocks(Vec<(U128, U128)>),
}

impl ResSpec {
    fn entries(&self) -> usize {
        match self {
            ResSpec::Blocks(v) => v.len(),
            _ => 0,
        }
    }
    fn present(&self) -> bool {
        !matches!(self, ResSpec::Missing) && !matches!(self, ResSpec::Blocks(v) if v.is_empty())
    }
}

fn blocks_strategy(bits32: bool) -> BoxedStrategy<Vec<(U128, U128)>> {
    let d = if bits32 { dense_u32().prop_map(|x| x as u128).boxed() } else { dense_u128() };
    let max = if bits32 { u32::MAX as u128 } else { u128::MAX };
    let one = (d.clone(), d, 0u8..8, any::<u16>()).prop_map(move |(a, b, shape, r)| {
        let (lo, hi) = (a.min(b), a.max(b));
        match shape {
            0 => (lo, lo),
            1 => (lo, lo.saturating_add(r as u128).min(max)),
            2 => {
                // a prefix-shaped block
                let bits = if max == u128::MAX { 128 } else { 32 };
                let host = (r as u32) % (bits + 1);
                let mask = if host == 0 { 0 } else if host == 128 { u128::MAX } else { (1u128 << host) - 1 };
                ((lo & !mask) & max, ((lo & !mask) | mask) & max)
            }
            _ => (lo, hi),
        }
    });
    prop_oneof![
        5 => prop::collection::vec(one.clone(), 1..6),
        1 => prop::collection::vec(one.clone(), 6..14),
        // neighbours / nested / covering blocks appended after the first ones
        3 => (prop::collection::vec(one, 1..4), any::<u64>()).prop_map(move |(mut v, r)| {
            let (lo, hi) = v[(r % v.len() as u64) as usize];
            match (r >> 8) % 5 {
                0 if hi < max => v.push((hi + 1, (hi + 1).saturating_add((r >> 16) as u128 & 0xff).min(max))),
                1 if lo > 0 => v.push((lo.saturating_sub(1 + ((r >> 16) as u128 & 0xff)), lo - 1)),
                2 => v.push((lo, hi)),
                3 => {
                    let all_lo = v.iter().map(|x| x.0).min().unwrap();
                    let all_hi = v.iter().map(|x| x.1).max().unwrap();
                    v.push((all_lo, all_hi));
                }
                _ => v.push((lo + (hi - lo) / 2, hi)),
            }
            if (r >> 40) % 2 == 0 { v.reverse(); }
            v
        }),
    ]
    .prop_map(|v| v.into_iter().map(|(a, b)| (U128(a), U128(b))).collect())
    .boxed()
}

fn res_strategy(bits32: bool, inherit: bool) -> BoxedStrategy<ResSpec> {
    prop_oneof![
        2 => Just(ResSpec::Missing),
        if inherit { 2 } else { 0 } => Just(ResSpec::Inherit),
        6 => blocks_strategy(bits32).prop_map(ResSpec::Blocks),
    ]
    .boxed()
}

fn ip_blocks(spec: &ResSpec, v4: bool) -> Vec<IpBlock> {
    let ResSpec::Blocks(v) = spec else { return Vec::new() };
    v.iter()
        .map(|&(a, b)| {
            let (lo, hi) = if v4 { (a.0 << 96, (b.0 << 96) | LOW96) } else { (a.0, b.0) };
            IpBlock::from((Addr::from_bits(lo), Addr::from_bits(hi)))
        })
        .collect()
}

fn as_blocks(spec: &ResSpec) -> Vec<AsBlock> {
    let ResSpec::Blocks(v) = spec else { return Vec::new() };
    v.iter()
        .map(|&(a, b)| {
            let (lo, hi) = (Asn::from_u32(a.0 as u32), Asn::from_u32(b.0 as u32));
            if lo == hi {
                AsBlock::Id(lo)
            } else {
                AsBlock::from((lo, hi))
            }
        })
        .collect()
}

/// Number of ASNs in the union of the blocks.
fn as_count(spec: &ResSpec) -> u128 {
    let ResSpec::Blocks(v) = spec else { return 0 };
    let mut v: Vec<(u128, u128)> = v.iter().map(|x| (x.0 .0, x.1 .0)).collect();
    v.sort();
    let mut total = 0u128;
    let mut end: Option<u128> = None;
    for (a, b) in v {
        let from = match end {
            Some(e) if a <= e => e + 1,
            _ => a,
        };
        if b >= from {
            total += b - from + 1;
            end = Some(b);
        }
    }
    total
}

//------------ issuer certificates (cached) --------------------------------------------

const ISSUER_NB: i64 = YEAR1;
const ISSUER_NA: i64 = YEAR9999_END;

/// A trust anchor holding all resources, one per pool key.
fn issuer(key: usize) -> Result<ResourceCert, Fail> {
    static CACHE: OnceLock<Vec<Result<ResourceCert, String>>> = OnceLock::new();
    let all = CACHE.get_or_init(|| {
        (0..POOL_SIZE)
            .map(|k| -> Result<ResourceCert, String> {
                let signer = PoolSigner::new();
                let pk = signer.info(k);
                let val = Validity::new(
                    Time::new(Utc.timestamp_opt(ISSUER_NB, 0).single().ok_or("time")?),
                    Time::new(Utc.timestamp_opt(ISSUER_NA, 0).single().ok_or("time")?),
                );
                let mut tbs = TbsCert::new(1u64.into(), pk.to_subject_name(), val, None, pk, KeyUsage::Ca, Overclaim::Refuse);
                tbs.set_basic_ca(Some(true));
                let u = uri::Rsync::from_string("rsync://example.net/ta/".into()).map_err(|e| e.to_string())?;
                tbs.set_ca_repository(Some(u.clone()));
                tbs.set_rpki_manifest(Some(u.join(b"ta.mft").map_err(|e| e.to_string())?));
                tbs.set_v4_resources(IpResources::blocks(rpki::repository::resources::IpBlocks::all()));
                tbs.set_v6_resources(IpResources::blocks(rpki::repository::resources::IpBlocks::all()));
                tbs.set_as_resources(AsResources::blocks(rpki::repository::resources::AsBlocks::all()));
                let cert = tbs.into_cert(&signer, &signer.key(k)).map_err(|e| e.to_string())?;
                let der = cert.to_captured();
                Cert::decode(der.as_slice())
                    .map_err(|e| e.to_string())?
                    .validate_ta_at(
                        TalInfo::from_name("c05".into()).into_arc(),
                        true,
                        Time::new(Utc.timestamp_opt(1_767_225_600, 0).single().ok_or("time")?),
                    )
                    .map_err(|e| e.to_string())
            })
            .collect()
    });
    all[key % POOL_SIZE].clone().map_err(|e| Fail::new(format!("harness: cannot build the issuer trust anchor: {}", e)))
}

//------------ accessor snapshots shared by several kinds ------------------------------

fn snap_key(s: &mut Snap, who: &str, prefix: &str, k: &PublicKey) -> CheckResult {
    field!(s, who, format!("{}.algorithm", prefix), k.algorithm());
    field!(s, who, format!("{}.bits", prefix), hex(&keys::sha256(k.bits())));
    field!(s, who, format!("{}.bits_bytes", prefix), hex(&keys::sha256(k.bits_bytes().as_ref())));
    field!(s, who, format!("{}.key_identifier", prefix), k.key_identifier());
    field!(s, who, format!("{}.allow_rpki_cert", prefix), k.allow_rpki_cert());
    field!(s, who, format!("{}.allow_router_cert", prefix), k.allow_router_cert());
    field!(s, who, format!("{}.to_info_bytes", prefix), hex(&keys::sha256(k.to_info_bytes().as_ref())));
    Ok(())
}

fn snap_ip(s: &mut Snap, who: &str, name: &str, r: &IpResources, v4: bool) -> CheckResult {
    field!(s, who, format!("{}.is_inherited", name), r.is_inherited());
    field!(s, who, format!("{}.is_present", name), r.is_present());
    field!(s, who, format!("{}.to_blocks", name), r.to_blocks().map(|b| {
        (
            b.is_empty(),
            b.iter().map(|x| format!("{:x}-{:x}{}", x.min().to_bits(), x.max().to_bits(), if x.is_slash_zero() { "/0" } else { "" })).collect::<Vec<_>>(),
            if v4 { b.as_v4().to_string() } else { b.as_v6().to_string() },
        )
    }).map_err(|e| e.to_string()));
    field!(s, who, format!("{}.encoded", name), hex(&captured(r.encode_ref())));
    Ok(())
}

fn snap_as(s: &mut Snap, who: &str, name: &str, r: &AsResources, countable: bool) -> CheckResult {
    field!(s, who, format!("{}.is_inherited", name), r.is_inherited());
    field!(s, who, format!("{}.is_present", name), r.is_present());
    field!(s, who, format!("{}.display", name), r.to_string());
    field!(s, who, format!("{}.to_blocks", name), r.to_blocks().map(|b| {
        (
            b.is_empty(),
            b.iter().map(|x| (x.min().into_u32(), x.max().into_u32(), x.is_whole_range())).collect::<Vec<_>>(),
            b.iter_asns().take(5).collect::<Vec<_>>(),
            // asn_count of all 2^32 ASNs does not fit its u32 (finding F6, owned by C03/C04)
            if countable { Some(b.asn_count()) } else { None },
        )
    }).map_err(|e| e.to_string()));
    field!(s, who, format!("{}.encoded", name), hex(&captured(r.encode_ref())));
    Ok(())
}

/// Every public accessor of a certificate.
fn snap_cert(s: &mut Snap, who: &str, p: &str, c: &TbsCert, as_countable: bool) -> CheckResult {
    field!(s, who, format!("{}serial_number", p), (c.serial_number(), hex(&c.serial_number().into_array())));
    field!(s, who, format!("{}issuer", p), hex(&captured(c.issuer().encode_ref())));
    field!(s, who, format!("{}subject", p), hex(&captured(c.subject().encode_ref())));
    field!(s, who, format!("{}validity", p), (show_time(c.validity().not_before()), show_time(c.validity().not_after())));
    snap_key(s, who, &format!("{}subject_public_key_info", p), c.subject_public_key_info())?;
    field!(s, who, format!("{}basic_ca", p), c.basic_ca());
    field!(s, who, format!("{}subject_key_identifier", p), c.subject_key_identifier());
    field!(s, who, format!("{}authority_key_identifier", p), c.authority_key_identifier());
    field!(s, who, format!("{}key_usage", p), c.key_usage());
    field!(s, who, format!("{}extended_key_usage", p), c.extended_key_usage().map(|e| e.inspect_router().is_ok()));
    field!(s, who, format!("{}crl_uri", p), c.crl_uri().map(|u| u.as_str().to_string()));
    field!(s, who, format!("{}ca_issuer", p), c.ca_issuer().map(|u| u.as_str().to_string()));
    field!(s, who, format!("{}ca_repository", p), c.ca_repository().map(|u| u.as_str().to_string()));
    field!(s, who, format!("{}rpki_manifest", p), c.rpki_manifest().map(|u| u.as_str().to_string()));
    field!(s, who, format!("{}signed_object", p), c.signed_object().map(|u| u.as_str().to_string()));
    field!(s, who, format!("{}rpki_notify", p), c.rpki_notify().map(|u| u.as_str().to_string()));
    field!(s, who, format!("{}overclaim", p), c.overclaim());
    snap_ip(s, who, &format!("{}v4_resources", p), c.v4_resources(), true)?;
    snap_ip(s, who, &format!("{}v6_resources", p), c.v6_resources(), false)?;
    field!(s, who, format!("{}has_ip_resources", p), c.has_ip_resources());
    snap_as(s, who, &format!("{}as_resources", p), c.as_resources(), as_countable)?;
    field!(s, who, format!("{}is_ca", p), c.is_ca());
    field!(s, who, format!("{}is_self_signed", p), c.is_self_signed());
    field!(s, who, format!("{}tbs_encoded", p), hex(&keys::sha256(&captured(c.encode_ref()))));
    Ok(())
}

//------------ sub-check: cert ---------------------------------------------------------

#[derive(Clone, Debug, Serialize, Deserialize)]
pub struct CertCase {
    /// 0 trust anchor, 1 CA, 2 EE, 3 router, 4 detached EE (signed objects kept outside the
    /// repository; the signedObject SIA is optional and present iff `ta_aki`)
    pub kind: u8,
    pub issuer_key: u8,
    pub subject_key: u8,
    pub serial: Vec<u8>,
    pub issuer_name: NameSpec,
    pub subject_name: NameSpec,
    pub window: Window,
    pub trim: bool,
    pub strict: bool,
    pub ta_aki: bool,
    pub v4: ResSpec,
    pub v6: ResSpec,
    pub asn: ResSpec,
    pub crl_uri: String,
    pub ca_issuer: String,
    pub ca_repository: String,
    pub rpki_manifest: String,
    pub signed_object: String,
    pub rpki_notify: Option<String>,
    /// Build a second time through `TbsCert::new` with decoy values followed by
    /// the setters; both ways must give the same certificate.
    #[serde(default)]
    pub via_setters: bool,
}

fn cert_strategy(_: Tier) -> BoxedStrategy<CertCase> {
    (
        (prop::sample::select(vec![0u8, 1, 1, 2, 2, 3, 4]), 0u8..8, 1u8..8, serial_strategy(), name_strategy(), name_strategy()),
        (window_strategy(), any::<bool>(), any::<bool>(), any::<bool>(), any::<bool>()),
        (res_strategy(true, true), res_strategy(false, true), res_strategy(true, true)),
        (rsync_strategy(None), rsync_strategy(None), rsync_strategy(None), rsync_strategy(None), rsync_strategy(None), prop::option::of(https_strategy())),
    )
        .prop_map(|((kind, issuer_key, delta, serial, issuer_name, subject_name), (window, trim, strict, ta_aki, via_setters), (v4, v6, asn), uris)| {
            let mut c = CertCase {
                kind,
                issuer_key,
                subject_key: (issuer_key + delta) % 8,
                serial,
                issuer_name,
                subject_name,
                window,
                trim,
                strict,
                ta_aki,
                v4,
                v6,
                asn,
                crl_uri: uris.0,
                ca_issuer: uris.1,
                ca_repository: uris.2,
                rpki_manifest: uris.3,
                signed_object: uris.4,
                rpki_notify: uris.5,
                via_setters,
            };
            // stay inside the profile
            if c.kind == 0 {
                c.subject_key = c.issuer_key;
                c.subject_name = c.issuer_name.clone();
                for r in [&mut c.v4, &mut c.v6, &mut c.asn] {
                    if *r == ResSpec::Inherit {
                        *r = ResSpec::Missing;
                    }
                }
            }
            if c.kind == 3 {
                c.v4 = ResSpec::Missing;
                c.v6 = ResSpec::Missing;
                if !matches!(c.asn, ResSpec::Blocks(_)) {
                    c.asn = ResSpec::Blocks(vec![(U128(64496), U128(64511))]);
                }
            }
            if !c.v4.present() && !c.v6.present() && !c.asn.present() {
                c.asn = ResSpec::Blocks(vec![(U128(0), U128(u32::MAX as u128))]);
            }
            c
        })
        .boxed()
}

fn run_cert(c: &CertCase, obs: &mut Obs) -> CheckResult {
    let signer = PoolSigner::new();
    let kind = c.kind % 5;
    obs.label(["cert-ta", "cert-ca", "cert-ee", "cert-router", "cert-detached-ee"][kind as usize]);
    let fams = [&c.v4, &c.v6, &c.asn].iter().filter(|r| r.present()).count();
    let entries = c.v4.entries().max(c.v6.entries()).max(c.asn.entries());
    obs.nontrivial_if(fams >= 2 || entries >= 2);
    obs.label_if(entries >= 2, "blocks>=2");
    obs.label_if([&c.v4, &c.v6, &c.asn].iter().any(|r| **r == ResSpec::Inherit), "inherit");
    obs.label_if(c.serial.len() == 20, "serial-20-octets");
    obs.label_if(c.window.nb < -631_152_000 || c.window.na >= 2_524_608_000, "generalized-time");
    obs.label_if(c.window.nb >= -631_152_000 && c.window.nb < 2_524_608_000, "utc-time");

    let issuer_pub = signer.info(c.issuer_key as usize);
    let subject_pub = if kind == 3 { keys::ec_key(c.subject_key as usize) } else { signer.info(c.subject_key as usize) };
    let issuer_name = make_name(&c.issuer_name)?.unwrap_or_else(|| issuer_pub.to_subject_name());
    let subject_name = make_name(&c.subject_name)?;
    let build = |via_setters: bool| -> Result<Cert, Fail> {
        let key_usage = if kind <= 1 { KeyUsage::Ca } else { KeyUsage::Ee };
        let overclaim = if c.trim { Overclaim::Trim } else { Overclaim::Refuse };
        let mut tbs = if !via_setters {
            TbsCert::new(
                serial_of(&c.serial)?,
                issuer_name.clone(),
                c.window.validity()?,
                subject_name.clone(),
                subject_pub.clone(),
                key_usage,
                overclaim,
            )
        } else {
            // every constructor argument starts out as something else and is
            // then put right through the documented setters
            let decoy_pub = signer.info((c.subject_key as usize + 3) % 8);
            let mut tbs = TbsCert::new(
                1u64.into(),
                decoy_pub.to_subject_name(),
                Validity::new(time_s(86_400)?, time_s(172_800)?),
                None,
                decoy_pub,
                if kind <= 1 { KeyUsage::Ee } else { KeyUsage::Ca },
                if c.trim { Overclaim::Refuse } else { Overclaim::Trim },
            );
            tbs.set_serial_number(serial_of(&c.serial)?);
            tbs.set_issuer(issuer_name.clone());
            tbs.set_validity(c.window.validity()?);
            tbs.set_subject_public_key(subject_pub.clone());
            tbs.set_subject(subject_name.clone().unwrap_or_else(|| subject_pub.to_subject_name()));
            tbs.set_key_usage(key_usage);
            tbs.set_overclaim(overclaim);
            tbs
        };
        match kind {
            0 | 1 => {
                tbs.set_basic_ca(Some(true));
                tbs.set_ca_repository(Some(rsync(&c.ca_repository)?));
                tbs.set_rpki_manifest(Some(rsync(&c.rpki_manifest)?));
                if let Some(n) = &c.rpki_notify {
                    tbs.set_rpki_notify(Some(https(n)?));
                }
            }
            2 => tbs.set_signed_object(Some(rsync(&c.signed_object)?)),
            4 => {
                if c.ta_aki {
                    tbs.set_signed_object(Some(rsync(&c.signed_object)?))
                }
            }
            _ => tbs.set_extended_key_usage(Some(ExtendedKeyUsage::create_router())),
        }
        if kind == 0 {
            if c.ta_aki {
                tbs.set_authority_key_identifier(Some(subject_pub.key_identifier()));
            }
        } else {
            tbs.set_authority_key_identifier(Some(issuer_pub.key_identifier()));
            tbs.set_crl_uri(Some(rsync(&c.crl_uri)?));
            tbs.set_ca_issuer(Some(rsync(&c.ca_issuer)?));
        }
        match &c.v4 {
            ResSpec::Missing => {}
            ResSpec::Inherit => tbs.set_v4_resources_inherit(),
            r => tbs.build_v4_resource_blocks(|b| ip_blocks(r, true).into_iter().for_each(|x| b.push(x))),
        }
        match &c.v6 {
            ResSpec::Missing => {}
            ResSpec::Inherit => tbs.set_v6_resources_inherit(),
            // alternate between the two public ways of handing over blocks
            r if c.trim => tbs.v6_resources_from_iter(ip_blocks(r, false)),
            r => tbs.build_v6_resource_blocks(|b| ip_blocks(r, false).into_iter().for_each(|x| b.push(x))),
        }
        match &c.asn {
            ResSpec::Missing => {}
            ResSpec::Inherit => tbs.set_as_resources_inherit(),
            r if c.strict => tbs.as_resources_from_iter(as_blocks(r)),
            r => tbs.build_as_resource_blocks(|b| as_blocks(r).into_iter().for_each(|x| b.push(x))),
        }
        tbs.into_cert(&signer, &signer.key(c.issuer_key as usize)).map_err(|e| Fail::new(format!("signing failed: {}", e)))
    };
    let built = no_panic("certificate builder", || build(false))??;
    obs.label_if(c.via_setters, "via-setters");
    if c.via_setters {
        let alt = no_panic("certificate builder (setters)", || build(true))??;
        let a = no_panic("Cert::to_captured", || built.to_captured().into_bytes().to_vec())?;
        let b = no_panic("Cert::to_captured (setters)", || alt.to_captured().into_bytes().to_vec())?;
        ensure_sig!(
            a == b, "c05:cert:setters-differ",
            "a certificate built through TbsCert::new + setters differs from the one built through the constructor alone \
(subject key identifier built {:?} vs via setters {:?})",
            built.subject_key_identifier(), alt.subject_key_identifier()
        );
    }
    let der = no_panic("Cert::to_captured", || built.to_captured().into_bytes().to_vec())?;

    // (1) decodes and validates
    let decoded = match no_panic("Cert::decode", || Cert::decode(der.as_slice()))? {
        Ok(d) => d,
        Err(e) => return Err(Fail::sig("c05:cert:decode", format!("built certificate does not decode: {}", e))),
    };
    let now = c.window.eval()?;
    let verdict = no_panic("validate", || -> Result<Result<(), String>, Fail> {
        Ok(match kind {
            0 => decoded.clone().validate_ta_at(TalInfo::from_name("c05".into()).into_arc(), c.strict, now).map(|_| ()).map_err(|e| e.to_string()),
            1 => decoded.clone().validate_ca_at(&issuer(c.issuer_key as usize)?, c.strict, now).map(|_| ()).map_err(|e| e.to_string()),
            2 => decoded.clone().validate_ee_at(&issuer(c.issuer_key as usize)?, c.strict, now).map(|_| ()).map_err(|e| e.to_string()),
            4 => decoded.clone().validate_detached_ee_at(&issuer(c.issuer_key as usize)?, c.strict, now).map(|_| ()).map_err(|e| e.to_string()),
            _ => decoded.validate_router_at(&issuer(c.issuer_key as usize)?, c.strict, now).map_err(|e| e.to_string()),
        })
    })??;
    if let Err(e) = verdict {
        return Err(Fail::sig("c05:cert:validate", format!("built certificate does not validate under its issuer: {}", e)));
    }

    // (2) bytes
    ensure_bytes("cert", "reencode", &captured(decoded.encode_ref()), &der)?;
    let signed = signed_part(&der)?;
    let tbs: &TbsCert = decoded.as_ref();
    ensure_bytes("cert", "tbs-reencode", &captured(tbs.encode_ref()), signed)?;
    let tbs_b: &TbsCert = built.as_ref();
    ensure_bytes("cert", "tbs-built", &captured(tbs_b.encode_ref()), signed)?;

    // (3) accessors
    let raw_sum: u128 = match &c.asn {
        ResSpec::Blocks(v) => v.iter().map(|x| x.1 .0 - x.0 .0 + 1).sum(),
        _ => 0,
    };
    let cnt = raw_sum <= u32::MAX as u128 && as_count(&c.asn) <= u32::MAX as u128;
    let mut sb = Snap::new();
    snap_cert(&mut sb, "built", "", tbs_b, cnt)?;
    let mut sd = Snap::new();
    snap_cert(&mut sd, "decoded", "", tbs, cnt)?;
    compare_snaps("cert", &sb, &sd)
}

//------------ sub-check: crl ----------------------------------------------------------

#[derive(Clone, Debug, Serialize, Deserialize)]
pub struct CrlCase {
    pub issuer_key: u8,
    pub issuer_name: NameSpec,
    pub this_update: i64,
    pub next_update: i64,
    pub crl_number: Vec<u8>,
    /// (serial, revocation time): unsorted, duplicates allowed
    pub entries: Vec<(Vec<u8>, i64)>,
    pub probes: Vec<Vec<u8>>,
}

fn crl_strategy(_: Tier) -> BoxedStrategy<CrlCase> {
    let entry = (serial_strategy(), time_strategy());
    let entries = prop_oneof![
        1 => Just(Vec::new()),
        5 => prop::collection::vec(entry.clone(), 1..8),
        2 => (prop::collection::vec(entry.clone(), 1..6), any::<u64>()).prop_map(|(mut v, r)| {
            // duplicates
            let k = (r % v.len() as u64) as usize;
            let e = v[k].clone();
            v.push(e);
            v
        }),
        1 => prop::collection::vec(entry, 8..301),
    ];
    (0u8..8, name_strategy(), time_strategy(), time_strategy(), serial_strategy(), entries, prop::collection::vec(serial_strategy(), 0..3))
        .prop_map(|(issuer_key, issuer_name, a, b, crl_number, entries, probes)| CrlCase {
            issuer_key,
            issuer_name,
            this_update: a.min(b),
            next_update: a.max(b),
            crl_number,
            entries,
            probes,
        })
        .boxed()
}

fn snap_crl(s: &mut Snap, who: &str, crl: &Crl, probes: &[Serial]) -> CheckResult {
    field!(s, who, "signature", hex(&captured(crl.signature().x509_encode())));
    field!(s, who, "issuer", hex(&captured(crl.issuer().encode_ref())));
    field!(s, who, "this_update", show_time(crl.this_update()));
    field!(s, who, "next_update", show_time(crl.next_update()));
    field!(s, who, "authority_key_identifier", crl.authority_key_identifier());
    field!(s, who, "crl_number", (crl.crl_number(), hex(&crl.crl_number().into_array())));
    field!(s, who, "revoked_certs.iter", crl.revoked_certs().iter().map(|e| format!("{}@{}", e.user_certificate, show_time(e.revocation_date))).collect::<Vec<_>>());
    field!(s, who, "revoked_certs.encoded", hex(&captured(crl.revoked_certs().encode_ref())));
    field!(s, who, "contains", probes.iter().map(|p| crl.contains(*p)).collect::<Vec<_>>());
    field!(s, who, "revoked_certs.contains", probes.iter().map(|p| crl.revoked_certs().contains(*p)).collect::<Vec<_>>());
    field!(s, who, "contains (cached)", {
        let mut c = crl.clone();
        c.cache_serials();
        probes.iter().map(|p| c.contains(*p)).collect::<Vec<_>>()
    });
    field!(s, who, "signed_data", (hex(&keys::sha256(crl.signed_data().data().as_slice())), hex(&keys::sha256(crl.signed_data().signature().value()))));
    field!(s, who, "tbs_encoded", hex(&keys::sha256(&captured(crl.as_cert_list().encode_ref()))));
    Ok(())
}

fn run_crl(c: &CrlCase, obs: &mut Obs) -> CheckResult {
    let signer = PoolSigner::new();
    obs.nontrivial_if(c.entries.len() >= 2);
    obs.label(match c.entries.len() {
        0 => "revoked-0",
        1 => "revoked-1",
        2..=7 => "revoked-2..7",
        _ => "revoked-8..300",
    });
    let issuer_pub = signer.info(c.issuer_key as usize);
    let name = make_name(&c.issuer_name)?.unwrap_or_else(|| issuer_pub.to_subject_name());
    let mut entries = Vec::new();
    for (s, t) in &c.entries {
        entries.push(CrlEntry::new(serial_of(s)?, time_s(*t)?));
    }
    let built = no_panic("CRL builder", || -> Result<Crl, Fail> {
        TbsCertList::new(
            Default::default(),
            name.clone(),
            time_s(c.this_update)?,
            time_s(c.next_update)?,
            entries.clone(),
            issuer_pub.key_identifier(),
            serial_of(&c.crl_number)?,
        )
        .into_crl(&signer, &signer.key(c.issuer_key as usize))
        .map_err(|e| Fail::new(format!("signing failed: {}", e)))
    })??;
    let der = no_panic("Crl::to_captured", || built.to_captured().into_bytes().to_vec())?;
    // the same list built a second time: constructor fed with decoy values, every field then put
    // right through its setter (signatures are deterministic, so the two must be identical)
    {
        let via_setters = no_panic("CRL builder (setters)", || -> Result<Vec<u8>, Fail> {
            let decoy_key = signer.info((c.issuer_key as usize + 1) % POOL_SIZE);
            let mut t = TbsCertList::new(
                Default::default(),
                decoy_key.to_subject_name(),
                time_s(c.next_update)?,
                time_s(c.this_update)?,
                vec![CrlEntry::new(Serial::from(77u64), time_s(c.this_update)?)],
                decoy_key.key_identifier(),
                Serial::from(4711u64),
            );
            t.set_signature(Default::default());
            t.set_issuer(name.clone());
            t.set_this_update(time_s(c.this_update)?);
            t.set_next_update(time_s(c.next_update)?);
            if c.entries.len() % 2 == 0 {
                t.set_revoked_certs(entries.clone());
            } else {
                let l = t.revoked_certs_mut();
                l.clear();
                l.extend(entries.iter().cloned());
            }
            t.set_authority_key_identifier(issuer_pub.key_identifier());
            t.set_crl_number(serial_of(&c.crl_number)?);
            ensure!(
                *t.issuer() == name && t.this_update() == time_s(c.this_update)? && t.next_update() == time_s(c.next_update)?
                    && *t.authority_key_identifier() == issuer_pub.key_identifier() && t.crl_number() == serial_of(&c.crl_number)?
                    && t.revoked_certs().len() == entries.len(),
                "TbsCertList getters do not return what the setters were given"
            );
            let crl = t.into_crl(&signer, &signer.key(c.issuer_key as usize)).map_err(|e| Fail::new(format!("signing failed: {}", e)))?;
            Ok(crl.to_captured().into_bytes().to_vec())
        })??;
        ensure_sig!(via_setters == der, "c05:crl:setters", "a CRL built through TbsCertList::new differs from the same CRL built through the setters ({} vs {} octets)", der.len(), via_setters.len());
    }
    let decoded = match no_panic("Crl::decode", || Crl::decode(der.as_slice()))? {
        Ok(d) => d,
        Err(e) => return Err(Fail::sig("c05:crl:decode", format!("built CRL does not decode: {}", e))),
    };
    if let Err(e) = no_panic("Crl::verify_signature", || decoded.verify_signature(&issuer_pub))? {
        return Err(Fail::sig("c05:crl:validate", format!("built CRL does not verify under its issuer key: {}", e)));
    }
    ensure_bytes("crl", "reencode", &captured(decoded.encode_ref()), &der)?;
    let signed = signed_part(&der)?;
    ensure_bytes("crl", "tbs-reencode", &captured(decoded.as_cert_list().encode_ref()), signed)?;
    ensure_bytes("crl", "tbs-built", &captured(built.as_cert_list().encode_ref()), signed)?;
    // RFC 5280 5.1.2.6: "When there are no revoked certificates, the revoked certificates list
    // MUST be absent" (independent walk over the TBSCertList elements)
    {
        let (_, mut pos, end) = tlv(signed, 0).ok_or_else(|| Fail::new("harness: TBSCertList"))?;
        let mut tags = Vec::new();
        while pos < end {
            let (t, _, e) = tlv(signed, pos).ok_or_else(|| Fail::new("harness: TBSCertList element"))?;
            tags.push(t);
            pos = e;
        }
        let has_list = tags.len() == 7 && tags[5] == 0x30;
        ensure_sig!(
            tags.len() >= 6 && has_list == !entries.is_empty(),
            "c05:crl:revoked-list-presence",
            "TBSCertList element tags {:02x?}: revokedCertificates present = {}, {} entries were given",
            tags,
            has_list,
            entries.len()
        );
    }

    let mut probes: Vec<Serial> = entries.iter().map(|e| e.user_certificate).collect();
    probes.truncate(12);
    for p in &c.probes {
        probes.push(serial_of(p)?);
    }
    let mut sb = Snap::new();
    snap_crl(&mut sb, "built", &built, &probes)?;
    let mut sd = Snap::new();
    snap_crl(&mut sd, "decoded", &decoded, &probes)?;
    compare_snaps("crl", &sb, &sd)?;
    // what went in comes out, independent of the twin — as a multiset: the
    // statement lets the builder choose the order of the entries (RFC 5280 does
    // not define one), it only asks the twins to agree (checked above)
    let key = |e: &(Serial, Time)| (e.0.into_array(), e.1.timestamp());
    let mut listed: Vec<(Serial, Time)> = decoded.revoked_certs().iter().map(|e| (e.user_certificate, e.revocation_date)).collect();
    let mut want: Vec<(Serial, Time)> = entries.iter().map(|e| (e.user_certificate, e.revocation_date)).collect();
    listed.sort_by_key(key);
    want.sort_by_key(key);
    ensure_sig!(listed == want, "c05:crl:entries", "decoded CRL lists {} entries, {} were given, or they differ as multisets", listed.len(), want.len());
    // revocation lookups answer membership in the list that went in — with and
    // without the serial cache, on both twins (the twins agreeing with each
    // other is not enough: both could be wrong in the same way)
    let given: std::collections::BTreeSet<[u8; 20]> = entries.iter().map(|e| e.user_certificate.into_array()).collect();
    let mut all_probes: Vec<Serial> = entries.iter().map(|e| e.user_certificate).collect();
    all_probes.extend(probes.iter().copied());
    for (who, crl) in [("built", &built), ("decoded", &decoded)] {
        let mut cached = crl.clone();
        no_panic("Crl::cache_serials", || cached.cache_serials())?;
        for p in &all_probes {
            let exp = given.contains(&p.into_array());
            let plain = no_panic("Crl::contains", || crl.contains(*p))?;
            let list = no_panic("RevokedCertificates::contains", || crl.revoked_certs().contains(*p))?;
            let with_cache = no_panic("Crl::contains (cached)", || cached.contains(*p))?;
            ensure_sig!(
                plain == exp && list == exp && with_cache == exp,
                "c05:crl:lookup",
                "{} CRL: lookup of serial {} gives contains={} revoked_certs().contains={} cached contains={}, the list {} it ({} entries)",
                who, p, plain, list, with_cache, if exp { "holds" } else { "does not hold" }, entries.len()
            );
        }
    }
    Ok(())
}

//------------ signed-object scaffolding shared by manifest / ROA / ASPA ----------------

#[derive(Clone, Debug, Serialize, Deserialize)]
pub struct EeSpec {
    pub issuer_key: u8,
    /// one-off key (differs from the issuer key)
    pub ee_key: u8,
    pub serial: Vec<u8>,
    pub window: Window,
    pub signing_time: i64,
    pub issuer_name: NameSpec,
    pub subject_name: NameSpec,
    pub crl_uri: String,
    pub ca_issuer: String,
    pub signed_object: String,
    pub strict: bool,
}

fn ee_strategy() -> BoxedStrategy<EeSpec> {
    (
        (0u8..8, 1u8..8, serial_strategy(), window_strategy(), time_strategy()),
        (name_strategy(), name_strategy(), rsync_strategy(None), rsync_strategy(None), rsync_strategy(Some(false)), any::<bool>()),
    )
        .prop_map(|((issuer_key, delta, serial, window, signing_time), (issuer_name, subject_name, crl_uri, ca_issuer, signed_object, strict))| EeSpec {
            issuer_key,
            ee_key: (issuer_key + delta) % 8,
            serial,
            window,
            signing_time,
            issuer_name,
            subject_name,
            crl_uri,
            ca_issuer,
            signed_object,
            strict,
        })
        .boxed()
}

fn sigobj_builder(e: &EeSpec) -> Result<SignedObjectBuilder, Fail> {
    let mut b = SignedObjectBuilder::new(serial_of(&e.serial)?, e.window.validity()?, rsync(&e.crl_uri)?, rsync(&e.ca_issuer)?, rsync(&e.signed_object)?);
    b.set_issuer(make_name(&e.issuer_name)?);
    b.set_subject(make_name(&e.subject_name)?);
    b.set_signing_time(time_s(e.signing_time)?);
    Ok(b)
}

fn ee_signer(e: &EeSpec) -> PoolSigner {
    PoolSigner::with_first(e.ee_key as usize, 0)
}

/// Decodes the DER as a generic signed object, validates it under the issuer
/// and returns the eContent octets.
fn check_signed_object(kind: &str, e: &EeSpec, der: &[u8]) -> Result<Vec<u8>, Fail> {
    let so = match no_panic("SignedObject::decode", || SignedObject::decode(der, true))? {
        Ok(s) => s,
        Err(err) => return Err(Fail::sig(format!("c05:{}:decode", kind), format!("built {} does not decode as a signed object: {}", kind, err))),
    };
    let content = so.content().to_bytes().to_vec();
    ensure_bytes(kind, "sigobj-reencode", &captured(so.encode_ref()), der)?;
    let iss = issuer(e.issuer_key as usize)?;
    let now = e.window.eval()?;
    if let Err(err) = no_panic("SignedObject::validate_at", || so.validate_at(&iss, e.strict, now))? {
        return Err(Fail::sig(format!("c05:{}:validate", kind), format!("built {} does not validate under its issuer: {}", kind, err)));
    }
    Ok(content)
}

//------------ sub-check: manifest -----------------------------------------------------

#[derive(Clone, Debug, Serialize, Deserialize)]
pub struct MftCase {
    pub ee: EeSpec,
    pub number: Vec<u8>,
    pub this_update: i64,
    pub next_update: i64,
    pub files: Vec<(String, Vec<u8>)>,
}

fn mft_strategy(_: Tier) -> BoxedStrategy<MftCase> {
    let file = ("[A-Za-z0-9_-]{1,24}", prop::sample::select(vec!["cer", "crl", "roa", "mft", "asa", "gbr", "tak", "sig", "ABC", "xyz"]), prop::collection::vec(any::<u8>(), 32..=32), any::<u8>())
        .prop_map(|(stem, ext, mut hash, r)| {
            if r % 8 == 0 {
                hash = vec![0; 32];
            }
            (format!("{}.{}", stem, ext), hash)
        });
    let files = prop_oneof![
        10 => Just(Vec::new()),
        60 => prop::collection::vec(file.clone(), 1..8),
        10 => prop::collection::vec(file.clone(), 8..41),
        // past 255 / 256 entries
        1 => prop::collection::vec(file, 250..300),
    ];
    (ee_strategy(), serial_strategy(), time_strategy(), time_strategy(), files)
        .prop_map(|(ee, number, a, b, mut files)| {
            // file names are unique on a manifest
            let mut seen = std::collections::BTreeSet::new();
            files.retain(|f| seen.insert(f.0.clone()));
            MftCase { ee, number, this_update: a.min(b), next_update: a.max(b), files }
        })
        .boxed()
}

fn snap_mft(s: &mut Snap, who: &str, m: &Manifest) -> CheckResult {
    let c = m.content();
    field!(s, who, "manifest_number", (c.manifest_number(), hex(&c.manifest_number().into_array())));
    field!(s, who, "this_update", show_time(c.this_update()));
    field!(s, who, "next_update", show_time(c.next_update()));
    field!(s, who, "file_hash_alg", c.file_hash_alg());
    field!(s, who, "len", c.len());
    field!(s, who, "is_empty", c.is_empty());
    field!(s, who, "iter", c.iter().map(|f| format!("{}={}", String::from_utf8_lossy(f.file()), hex(f.hash()))).collect::<Vec<_>>());
    let base = uri::Rsync::from_string("rsync://example.net/repo/ca/".into()).map_err(|e| Fail::new(e.to_string()))?;
    field!(s, who, "iter_uris", c.iter_uris(&base).map(|(u, h)| format!("{}={}/{:?}", u, hex(h.as_slice()), h.algorithm())).collect::<Vec<_>>());
    field!(s, who, "content_encoded", hex(&captured(c.encode_ref())));
    field!(s, who, "deref.len", { let d: &ManifestContent = m; d.len() });
    snap_cert(s, who, "cert.", m.cert(), true)
}

fn run_mft(c: &MftCase, obs: &mut Obs) -> CheckResult {
    obs.nontrivial_if(c.files.len() >= 2);
    obs.label(match c.files.len() {
        0 => "files-0",
        1 => "files-1",
        2..=7 => "files-2..7",
        8..=40 => "files-8..40",
        _ => "files-over-200",
    });
    let signer = ee_signer(&c.ee);
    let built = no_panic("manifest builder", || -> Result<Manifest, Fail> {
        // The file list is handed over as an iterator; every other case uses one
        // whose size_hint is not tight (entries filtered out after a chain), as
        // a caller filtering a table of objects would.
        let n = c.files.len();
        let content = if n % 2 == 1 {
            ManifestContent::new(
                serial_of(&c.number)?,
                time_s(c.this_update)?,
                time_s(c.next_update)?,
                DigestAlgorithm::sha256(),
                c.files
                    .iter()
                    .chain(c.files.iter().take(3))
                    .enumerate()
                    .filter(|(i, _)| *i < n)
                    .map(|(_, (n, h))| FileAndHash::new(n.as_bytes().to_vec(), h.clone())),
            )
        } else {
            ManifestContent::new(
                serial_of(&c.number)?,
                time_s(c.this_update)?,
                time_s(c.next_update)?,
                DigestAlgorithm::sha256(),
                c.files.iter().map(|(n, h)| FileAndHash::new(n.as_bytes().to_vec(), h.clone())),
            )
        };
        ensure_sig!(
            content.len() == n && content.iter().count() == n && content.is_empty() == (n == 0),
            "c05:manifest:built-len",
            "ManifestContent::new given {} entries reports len() {} and iterates {}", n, content.len(), content.iter().count()
        );
        content
            .into_manifest(sigobj_builder(&c.ee)?, &signer, &signer.key(c.ee.issuer_key as usize))
            .map_err(|e| Fail::new(format!("signing failed: {}", e)))
    })??;
    let der = no_panic("Manifest::to_captured", || built.to_captured().into_bytes().to_vec())?;
    let decoded = match no_panic("Manifest::decode", || Manifest::decode(der.as_slice(), true))? {
        Ok(d) => d,
        Err(e) => return Err(Fail::sig("c05:manifest:decode", format!("built manifest does not decode: {}", e))),
    };
    let econtent = check_signed_object("manifest", &c.ee, &der)?;
    let iss = issuer(c.ee.issuer_key as usize)?;
    let now = c.ee.window.eval()?;
    if let Err(e) = no_panic("Manifest::validate_at", || decoded.clone().validate_at(&iss, c.ee.strict, now))? {
        return Err(Fail::sig("c05:manifest:validate", format!("built manifest does not validate: {}", e)));
    }
    ensure_bytes("manifest", "reencode", &captured(decoded.encode_ref()), &der)?;
    ensure_bytes("manifest", "content-reencode", &captured(decoded.content().encode_ref()), &econtent)?;
    ensure_bytes("manifest", "content-built", &captured(built.content().encode_ref()), &econtent)?;
    ensure_bytes("manifest", "tbs-reencode", &captured({ let t: &TbsCert = decoded.cert().as_ref(); t.encode_ref() }), signed_part(&captured(decoded.cert().encode_ref()))?)?;
    let mut sb = Snap::new();
    snap_mft(&mut sb, "built", &built)?;
    let mut sd = Snap::new();
    snap_mft(&mut sd, "decoded", &decoded)?;
    compare_snaps("manifest", &sb, &sd)?;
    // as multisets: the statement leaves the order of the entries to the builder
    let mut listed: Vec<(Vec<u8>, Vec<u8>)> = decoded.content().iter().map(|f| (f.file().to_vec(), f.hash().to_vec())).collect();
    let mut want: Vec<(Vec<u8>, Vec<u8>)> = c.files.iter().map(|(n, h)| (n.as_bytes().to_vec(), h.clone())).collect();
    listed.sort();
    want.sort();
    ensure_sig!(listed == want, "c05:manifest:entries", "decoded manifest lists {} files, {} were given, or they differ", listed.len(), want.len());
    Ok(())
}

//------------ sub-check: roa ----------------------------------------------------------

#[derive(Clone, Debug, Serialize, Deserialize)]
pub struct RoaCase {
    pub ee: EeSpec,
    pub asn: u32,
    /// (address, length, max length)
    pub v4: Vec<(u32, u8, Option<u8>)>,
    pub v6: Vec<(U128, u8, Option<u8>)>,
}

fn roa_strategy(_: Tier) -> BoxedStrategy<RoaCase> {
    let p4 = (dense_u32(), 0u8..=32, prop::option::of(0u8..=32), any::<bool>()).prop_map(|(a, len, extra, keep_host)| {
        let mask = if len == 0 { 0 } else { u32::MAX << (32 - len as u32) };
        let addr = if keep_host { a } else { a & mask };
        (addr, len, extra.map(|e| (len as u32 + e as u32).min(32) as u8))
    });
    let p6 = (dense_u128(), prop_oneof![0u8..=128, prop::sample::select(vec![0u8, 1, 7, 8, 9, 32, 48, 64, 127, 128])], prop::option::of(0u8..=128), any::<bool>()).prop_map(|(a, len, extra, keep_host)| {
        let mask = if len == 0 { 0 } else { u128::MAX << (128 - len as u32) };
        let addr = if keep_host { a } else { a & mask };
        (U128(addr), len, extra.map(|e| (len as u32 + e as u32).min(128) as u8))
    });
    // lists where later entries nest in / cover / neighbour earlier ones
    let l4 = prop_oneof![
        2 => Just(Vec::new()),
        5 => prop::collection::vec(p4.clone(), 1..6),
        2 => (prop::collection::vec(p4.clone(), 2..5), any::<u64>()).prop_map(|(mut v, r)| {
            let (a, len, _) = v[(r % v.len() as u64) as usize];
            let shorter = (len as u64).saturating_sub(1 + (r >> 8) % 8) as u8;
            v.push((a, shorter, None));
            if (r >> 20) % 2 == 0 { v.push((a, len, Some(32))); }
            v
        }),
        1 => prop::collection::vec(p4, 6..30),
    ];
    let l6 = prop_oneof![
        3 => Just(Vec::new()),
        5 => prop::collection::vec(p6.clone(), 1..6),
        2 => (prop::collection::vec(p6.clone(), 2..5), any::<u64>()).prop_map(|(mut v, r)| {
            let (a, len, _) = v[(r % v.len() as u64) as usize];
            let shorter = (len as u64).saturating_sub(1 + (r >> 8) % 16) as u8;
            v.push((a, shorter, None));
            v
        }),
        1 => prop::collection::vec(p6, 6..30),
    ];
    (ee_strategy(), dense_u32(), l4, l6)
        .prop_map(|(ee, asn, mut v4, v6)| {
            if v4.is_empty() && v6.is_empty() {
                v4.push((0xC000_0200, 24, None));
            }
            RoaCase { ee, asn, v4, v6 }
        })
        .boxed()
}

fn snap_roa(s: &mut Snap, who: &str, r: &Roa) -> CheckResult {
    let c = r.content();
    field!(s, who, "as_id", c.as_id());
    field!(s, who, "v4_addrs.is_empty", c.v4_addrs().is_empty());
    field!(s, who, "v6_addrs.is_empty", c.v6_addrs().is_empty());
    field!(s, who, "v4_addrs.iter", c.v4_addrs().iter().map(|a| format!("{:x}/{}-{:?} {:?}", a.prefix().addr().to_bits(), a.prefix().addr_len(), a.max_length(), a.range())).collect::<Vec<_>>());
    field!(s, who, "v6_addrs.iter", c.v6_addrs().iter().map(|a| format!("{:x}/{}-{:?} {:?}", a.prefix().addr().to_bits(), a.prefix().addr_len(), a.max_length(), a.range())).collect::<Vec<_>>());
    field!(s, who, "iter", c.iter().map(|a| format!("{} {} {} {} {} {:?}", a, a.address(), a.address_length(), a.max_length(), a.is_v4(), a.prefix())).collect::<Vec<_>>());
    field!(s, who, "iter_origins", c.iter_origins().map(|o| format!("{:?}", o)).collect::<Vec<_>>());
    field!(s, who, "content_encoded", hex(&captured(c.encode_ref())));
    snap_cert(s, who, "cert.", r.cert(), true)
}

fn run_roa(c: &RoaCase, obs: &mut Obs) -> CheckResult {
    let n = c.v4.len() + c.v6.len();
    obs.nontrivial_if(n >= 2);
    obs.label_if(n >= 2, "prefixes>=2");
    obs.label_if(!c.v4.is_empty() && !c.v6.is_empty(), "both-families");
    obs.label_if(c.ee.window.wide(), "processed");
    let signer = ee_signer(&c.ee);
    let built = no_panic("ROA builder", || -> Result<Roa, Fail> {
        // the prefixes reach the builder through one of its public routes (chosen by the AS
        // number, so it is part of the case); all of them must build the same attestation
        use rpki::repository::roa::{RoaIpAddress, RoaIpAddressesBuilder};
        use std::net::IpAddr;
        let asn = Asn::from_u32(c.asn);
        let a4: Vec<RoaIpAddress> = c.v4.iter().map(|&(a, len, ml)| RoaIpAddress::new_addr(IpAddr::V4(Ipv4Addr::from(a)), len, ml)).collect();
        let a6: Vec<RoaIpAddress> = c.v6.iter().map(|&(a, len, ml)| RoaIpAddress::new_addr(IpAddr::V6(Ipv6Addr::from(a.0)), len, ml)).collect();
        let mut b = RoaBuilder::new(asn);
        match c.asn % 6 {
            0 => {
                for &(a, len, ml) in &c.v4 {
                    b.push_v4_addr(Ipv4Addr::from(a), len, ml);
                }
                for &(a, len, ml) in &c.v6 {
                    b.push_v6_addr(Ipv6Addr::from(a.0), len, ml);
                }
            }
            1 => {
                a4.iter().for_each(|x| b.push_v4(*x));
                a6.iter().for_each(|x| b.push_v6(*x));
            }
            2 => {
                // in two portions each, so that extending an already filled list is covered
                b.extend_v4_from_slice(&a4[..a4.len() / 2]);
                b.extend_v6_from_slice(&a6[..a6.len() / 2]);
                b.extend_v4_from_slice(&a4[a4.len() / 2..]);
                b.extend_v6_from_slice(&a6[a6.len() / 2..]);
            }
            3 => {
                // interleaved, family decided by the address
                let (mut i, mut j) = (0, 0);
                while i < c.v4.len() || j < c.v6.len() {
                    if i < c.v4.len() {
                        let (a, len, ml) = c.v4[i];
                        b.push_addr(IpAddr::V4(Ipv4Addr::from(a)), len, ml);
                        i += 1;
                    }
                    if j < c.v6.len() {
                        let (a, len, ml) = c.v6[j];
                        b.push_addr(IpAddr::V6(Ipv6Addr::from(a.0)), len, ml);
                        j += 1;
                    }
                }
            }
            4 => {
                a4.iter().for_each(|x| b.v4_mut().push(*x));
                b.v6_mut().extend_from_slice(&a6);
            }
            _ => {
                let (mut l4, mut l6) = (RoaIpAddressesBuilder::new(), RoaIpAddressesBuilder::new());
                for &(a, len, ml) in &c.v4 {
                    l4.push_addr(IpAddr::V4(Ipv4Addr::from(a)), len, ml);
                }
                l6.extend_from_slice(&a6);
                b = RoaBuilder::with_addresses(Asn::from_u32(!c.asn), l4, l6);
                b.set_as_id(asn);
            }
        }
        ensure!(b.as_id() == asn, "RoaBuilder::as_id() = {} after construction with {}", b.as_id(), asn);
        b.finalize(sigobj_builder(&c.ee)?, &signer, &signer.key(c.ee.issuer_key as usize))
            .map_err(|e| Fail::new(format!("signing failed: {}", e)))
    })??;
    let der = no_panic("Roa::to_captured", || built.to_captured().into_bytes().to_vec())?;
    let decoded = match no_panic("Roa::decode", || Roa::decode(der.as_slice(), true))? {
        Ok(d) => d,
        Err(e) => return Err(Fail::sig("c05:roa:decode", format!("built ROA does not decode: {}", e))),
    };
    let econtent = check_signed_object("roa", &c.ee, &der)?;
    if c.ee.window.wide() {
        let iss = issuer(c.ee.issuer_key as usize)?;
        if let Err(e) = no_panic("Roa::process", || decoded.clone().process(&iss, c.ee.strict, |_| Ok(())))? {
            return Err(Fail::sig("c05:roa:validate", format!("built ROA is not accepted by Roa::process: {}", e)));
        }
    }
    ensure_bytes("roa", "reencode", &captured(decoded.encode_ref()), &der)?;
    ensure_bytes("roa", "content-reencode", &no_panic("decoded content encode_ref", || captured(decoded.content().encode_ref()))?, &econtent)?;
    ensure_bytes("roa", "content-built", &captured(built.content().encode_ref()), &econtent)?;
    ensure_bytes("roa", "tbs-reencode", &captured({ let t: &TbsCert = decoded.cert().as_ref(); t.encode_ref() }), signed_part(&captured(decoded.cert().encode_ref()))?)?;
    let mut sd = Snap::new();
    snap_roa(&mut sd, "decoded", &decoded)?;
    let mut sb = Snap::new();
    snap_roa(&mut sb, "built", &built)?;
    compare_snaps("roa", &sb, &sd)?;
    // the decoded prefixes are the ones handed to the builder (host bits cleared), in order
    let want: Vec<(u128, u8, Option<u8>)> = c
        .v4
        .iter()
        .map(|&(a, l, m)| ((if l == 0 { 0 } else { (a & (u32::MAX << (32 - l as u32))) as u128 }) << 96, l, m))
        .chain(c.v6.iter().map(|&(a, l, m)| (if l == 0 { 0 } else { a.0 & (u128::MAX << (128 - l as u32)) }, l, m)))
        .collect();
    let got: Vec<(u128, u8, Option<u8>)> = decoded
        .content()
        .v4_addrs()
        .iter()
        .chain(decoded.content().v6_addrs().iter())
        .map(|a| (a.prefix().addr().to_bits(), a.prefix().addr_len(), a.max_length()))
        .collect();
    // as sets of (address, length, *effective* max length): the order of the
    // entries, repeated entries and whether a max length equal to the prefix
    // length is written out or left implicit are the builder's choice (the
    // statement asks the twins to agree, checked above, and RFC 9582 even
    // recommends the canonical choices)
    let canon = |v: Vec<(u128, u8, Option<u8>)>| {
        let mut v: Vec<(u128, u8, u8)> = v.into_iter().map(|(a, l, m)| (a, l, m.unwrap_or(l))).collect();
        v.sort();
        v.dedup();
        v
    };
    let (got, want) = (canon(got), canon(want));
    ensure_sig!(got == want, "c05:roa:entries", "decoded ROA lists {:x?}, the builder was given {:x?}", got, want);
    Ok(())
}

//------------ sub-check: aspa ---------------------------------------------------------

#[derive(Clone, Debug, Serialize, Deserialize)]
pub struct AspaCase {
    pub ee: EeSpec,
    pub customer: u32,
    /// distinct, without the customer, any order
    pub providers: Vec<u32>,
    /// add the providers one by one instead of handing over the list
    pub one_by_one: bool,
}

fn aspa_strategy(tier: Tier) -> BoxedStrategy<AspaCase> {
    let big = tier.pick(2000usize, 16381usize);
    let providers = prop_oneof![
        3 => prop::collection::vec(dense_u32(), 1..2),
        6 => prop::collection::vec(dense_u32(), 2..10),
        2 => prop::collection::vec(any::<u32>(), 10..130),
        1 => (0u32..4_000_000_000, 100usize..big, 1u32..70_000).prop_map(|(start, n, step)| (0..n as u32).map(|k| start.wrapping_add(k.wrapping_mul(step))).collect::<Vec<u32>>()),
    ];
    (ee_strategy(), dense_u32(), providers, any::<bool>(), any::<u64>())
        .prop_map(|(ee, customer, mut providers, one_by_one, r)| {
            let mut seen = std::collections::BTreeSet::new();
            providers.retain(|p| *p != customer && seen.insert(*p));
            if providers.is_empty() {
                providers.push(customer.wrapping_add(1));
            }
            providers.truncate(16380);
            if r % 3 == 0 {
                providers.reverse();
            }
            AspaCase { ee, customer, providers, one_by_one }
        })
        .boxed()
}

fn snap_aspa(s: &mut Snap, who: &str, a: &Aspa) -> CheckResult {
    let c = a.content();
    field!(s, who, "customer_as", c.customer_as());
    field!(s, who, "provider_as_set.len", c.provider_as_set().len());
    field!(s, who, "provider_as_set.iter", c.provider_as_set().iter().collect::<Vec<_>>());
    field!(s, who, "provider_as_set.to_set", c.provider_as_set().to_set().iter().collect::<Vec<_>>());
    field!(s, who, "as_resources", c.as_resources().to_string());
    field!(s, who, "content_encoded", hex(&captured(c.encode_ref())));
    snap_cert(s, who, "cert.", a.cert(), true)
}

fn run_aspa(c: &AspaCase, obs: &mut Obs) -> CheckResult {
    obs.nontrivial_if(c.providers.len() >= 2);
    obs.label(match c.providers.len() {
        1 => "providers-1",
        2..=9 => "providers-2..9",
        10..=129 => "providers-10..129",
        _ => "providers-130..",
    });
    obs.label_if(c.ee.window.wide(), "processed");
    let signer = ee_signer(&c.ee);
    let built = no_panic("ASPA builder", || -> Result<Aspa, Fail> {
        let customer = Asn::from_u32(c.customer);
        let b = if c.one_by_one {
            let mut b = AspaBuilder::empty(customer);
            for p in &c.providers {
                b.add_provider(Asn::from_u32(*p)).map_err(|e| Fail::new(format!("generator: {}", e)))?;
            }
            b
        } else {
            AspaBuilder::new(customer, c.providers.iter().map(|p| Asn::from_u32(*p)).collect::<Vec<_>>())
                .map_err(|e| Fail::new(format!("generator: {}", e)))?
        };
        b.finalize(sigobj_builder(&c.ee)?, &signer, &signer.key(c.ee.issuer_key as usize))
            .map_err(|e| Fail::new(format!("signing failed: {}", e)))
    })??;
    let der = no_panic("Aspa::to_captured", || built.to_captured().into_bytes().to_vec())?;
    let decoded = match no_panic("Aspa::decode", || Aspa::decode(der.as_slice(), true))? {
        Ok(d) => d,
        Err(e) => return Err(Fail::sig("c05:aspa:decode", format!("built ASPA does not decode: {}", e))),
    };
    let econtent = check_signed_object("aspa", &c.ee, &der)?;
    if c.ee.window.wide() {
        let iss = issuer(c.ee.issuer_key as usize)?;
        if let Err(e) = no_panic("Aspa::process", || decoded.clone().process(&iss, c.ee.strict, |_| Ok(())))? {
            return Err(Fail::sig("c05:aspa:validate", format!("built ASPA is not accepted by Aspa::process: {}", e)));
        }
    }
    ensure_bytes("aspa", "reencode", &captured(decoded.encode_ref()), &der)?;
    ensure_bytes("aspa", "content-reencode", &no_panic("decoded content encode_ref", || captured(decoded.content().encode_ref()))?, &econtent)?;
    ensure_bytes("aspa", "content-built", &captured(built.content().encode_ref()), &econtent)?;
    ensure_bytes("aspa", "tbs-reencode", &captured({ let t: &TbsCert = decoded.cert().as_ref(); t.encode_ref() }), signed_part(&captured(decoded.cert().encode_ref()))?)?;
    let mut sd = Snap::new();
    snap_aspa(&mut sd, "decoded", &decoded)?;
    let mut sb = Snap::new();
    snap_aspa(&mut sb, "built", &built)?;
    compare_snaps("aspa", &sb, &sd)?;
    let mut want: Vec<u32> = c.providers.clone();
    want.sort_unstable();
    let got: Vec<u32> = decoded.content().provider_as_set().iter().map(|a| a.into_u32()).collect();
    ensure_sig!(got == want, "c05:aspa:entries", "decoded ASPA lists {} providers, {} were given, or they differ", got.len(), want.len());
    Ok(())
}

//------------ sub-check: csr ----------------------------------------------------------

#[derive(Clone, Debug, Serialize, Deserialize)]
pub struct CsrCase {
    pub key: u8,
    pub ca_repository: String,
    pub rpki_manifest: String,
    pub rpki_notify: Option<String>,
}

fn csr_strategy(_: Tier) -> BoxedStrategy<CsrCase> {
    (0u8..8, rsync_strategy(None), rsync_strategy(Some(false)), prop::option::of(https_strategy()))
        .prop_map(|(key, ca_repository, rpki_manifest, rpki_notify)| CsrCase { key, ca_repository, rpki_manifest, rpki_notify })
        .boxed()
}

fn run_csr(c: &CsrCase, obs: &mut Obs) -> CheckResult {
    let signer = PoolSigner::new();
    let repo = rsync(&c.ca_repository)?;
    let mft = rsync(&c.rpki_manifest)?;
    let notify = match &c.rpki_notify {
        Some(n) => Some(https(n)?),
        None => None,
    };
    let is_dir = repo.path_is_dir();
    obs.label(if is_dir { "repo-dir" } else { "repo-no-trailing-slash" });
    obs.label_if(notify.is_some(), "notify");
    obs.nontrivial_if(!is_dir || notify.is_some());
    let der = match no_panic("Csr::construct_rpki_ca", || Csr::construct_rpki_ca(&signer, &signer.key(c.key as usize), &repo, &mft, notify.as_ref()))? {
        Ok(cap) => cap.into_bytes().to_vec(),
        Err(e) => return Err(Fail::new(format!("signing failed: {}", e))),
    };
    let decoded = match no_panic("RpkiCaCsr::decode", || RpkiCaCsr::decode(der.as_slice()))? {
        Ok(d) => d,
        Err(e) => return Err(Fail::sig("c05:csr:decode", format!("built CSR does not decode: {}", e))),
    };
    if let Err(e) = no_panic("Csr::verify_signature", || decoded.verify_signature())? {
        return Err(Fail::sig("c05:csr:validate", format!("built CSR does not verify under its own key: {}", e)));
    }
    ensure_bytes("csr", "reencode", &captured(decoded.encode_ref()), &der)?;
    ensure_bytes("csr", "reencode", no_panic("Csr::to_captured", || decoded.to_captured())?.as_slice(), &der)?;
    // the builder returns bytes only: the decoded accessors are compared with the builder's input
    let mut s = Snap::new();
    snap_key(&mut s, "decoded", "public_key", decoded.public_key())?;
    field!(s, "decoded", "subject", hex(&captured(decoded.subject().encode_ref())));
    field!(s, "decoded", "basic_ca", decoded.basic_ca());
    field!(s, "decoded", "key_usage", decoded.key_usage());
    field!(s, "decoded", "extended_key_usage", decoded.extended_key_usage().is_some());
    field!(s, "decoded", "ca_repository", decoded.ca_repository().map(|u| u.as_str().to_string()));
    field!(s, "decoded", "rpki_manifest", decoded.rpki_manifest().map(|u| u.as_str().to_string()));
    field!(s, "decoded", "rpki_notify", decoded.rpki_notify().map(|u| u.as_str().to_string()));
    ensure_sig!(*decoded.public_key() == signer.info(c.key as usize), "c05:csr:twin:public_key", "decoded CSR carries another public key");
    ensure_sig!(decoded.basic_ca() && decoded.key_usage() == KeyUsage::Ca, "c05:csr:twin:basic_ca", "decoded CSR is not a CA request");
    ensure_sig!(
        decoded.rpki_manifest().map(|u| u.as_str()) == Some(c.rpki_manifest.as_str()),
        "c05:csr:twin:rpki_manifest",
        "decoded rpkiManifest {:?}, given {:?}",
        decoded.rpki_manifest(),
        c.rpki_manifest
    );
    ensure_sig!(
        decoded.rpki_notify().map(|u| u.as_str()) == c.rpki_notify.as_deref(),
        "c05:csr:twin:rpki_notify",
        "decoded rpkiNotify {:?}, given {:?}",
        decoded.rpki_notify(),
        c.rpki_notify
    );
    let got_repo = decoded.ca_repository().map(|u| u.as_str().to_string()).unwrap_or_default();
    ensure_sig!(
        if is_dir { got_repo == c.ca_repository } else { got_repo.starts_with(c.ca_repository.as_str()) && got_repo.ends_with('/') },
        "c05:csr:twin:ca_repository",
        "decoded caRepository {:?}, given {:?}",
        got_repo,
        c.ca_repository
    );
    Ok(())
}

//------------ sub-check: idcert -------------------------------------------------------

#[derive(Clone, Debug, Serialize, Deserialize)]
pub struct IdCertCase {
    pub ta_key: u8,
    /// None: trust anchor certificate; Some: EE certificate for that key
    pub ee_key: Option<u8>,
    pub window: Window,
    pub rng: u64,
}

fn idcert_strategy(_: Tier) -> BoxedStrategy<IdCertCase> {
    (0u8..8, prop::option::of(1u8..8), window_strategy(), prop_oneof![Just(0u64), any::<u64>()])
        .prop_map(|(ta_key, delta, window, rng)| IdCertCase { ta_key, ee_key: delta.map(|d| (ta_key + d) % 8), window, rng })
        .boxed()
}

fn snap_idcert(s: &mut Snap, who: &str, p: &str, c: &IdCert) -> CheckResult {
    snap_key(s, who, &format!("{}public_key", p), c.public_key())?;
    snap_key(s, who, &format!("{}subject_public_key_info", p), c.subject_public_key_info())?;
    field!(s, who, format!("{}subject_key_identifier", p), c.subject_key_identifier());
    field!(s, who, format!("{}subject_key_id", p), c.subject_key_id());
    field!(s, who, format!("{}authority_key_id", p), c.authority_key_id());
    field!(s, who, format!("{}serial_number", p), (c.serial_number(), hex(&c.serial_number().into_array())));
    field!(s, who, format!("{}subject", p), hex(&captured(c.subject().encode_ref())));
    field!(s, who, format!("{}validity", p), (show_time(c.validity().not_before()), show_time(c.validity().not_after())));
    field!(s, who, format!("{}to_bytes", p), hex(&keys::sha256(c.to_bytes().as_ref())));
    field!(s, who, format!("{}tbs_encoded", p), hex(&keys::sha256(&captured({ let t: &rpki::ca::idcert::TbsIdCert = c.as_ref(); t.encode_ref() }))));
    Ok(())
}

fn run_idcert(c: &IdCertCase, obs: &mut Obs) -> CheckResult {
    let signer = PoolSigner::with_first(0, c.rng);
    let key = signer.key(c.ta_key as usize);
    obs.label(if c.ee_key.is_some() { "idcert-ee" } else { "idcert-ta" });
    obs.nontrivial_if(c.ee_key.is_some());
    let validity = c.window.validity()?;
    let built = match no_panic("IdCert builder", || match c.ee_key {
        None => IdCert::new_ta(validity, &key, &signer),
        Some(k) => IdCert::new_ee(&signer.info(k as usize), validity, &key, &signer),
    })? {
        Ok(b) => b,
        Err(e) => return Err(Fail::new(format!("signing failed: {}", e))),
    };
    let der = no_panic("IdCert::to_captured", || built.to_captured().into_bytes().to_vec())?;
    let decoded = match no_panic("IdCert::decode", || IdCert::decode(der.as_slice()))? {
        Ok(d) => d,
        Err(e) => return Err(Fail::sig("c05:idcert:decode", format!("built identity certificate does not decode: {}", e))),
    };
    let now = c.window.eval()?;
    let verdict = no_panic("IdCert validate", || match c.ee_key {
        None => decoded.validate_ta_at(now),
        Some(_) => decoded.validate_ee_at(&signer.info(c.ta_key as usize), now),
    })?;
    if let Err(e) = verdict {
        return Err(Fail::sig("c05:idcert:validate", format!("built identity certificate does not validate: {}", e)));
    }
    ensure_bytes("idcert", "reencode", &captured(decoded.encode_ref()), &der)?;
    let signed = signed_part(&der)?;
    ensure_bytes("idcert", "tbs-reencode", &captured({ let t: &rpki::ca::idcert::TbsIdCert = decoded.as_ref(); t.encode_ref() }), signed)?;
    let mut sb = Snap::new();
    snap_idcert(&mut sb, "built", "", &built)?;
    let mut sd = Snap::new();
    snap_idcert(&mut sd, "decoded", "", &decoded)?;
    compare_snaps("idcert", &sb, &sd)?;
    ensure_sig!(built == decoded, "c05:idcert:twin:eq", "built and decoded identity certificate are not equal");
    Ok(())
}

//------------ sub-check: sigmsg -------------------------------------------------------

#[derive(Clone, Debug, Serialize, Deserialize)]
pub struct SigMsgCase {
    pub ta_key: u8,
    pub ee_key: u8,
    pub window: Window,
    pub rng: u64,
    pub content: Vec<u8>,
}

fn sigmsg_strategy(_: Tier) -> BoxedStrategy<SigMsgCase> {
    let content = prop_oneof![
        1 => Just(Vec::new()),
        3 => prop::collection::vec(any::<u8>(), 1..128),
        3 => prop::collection::vec(any::<u8>(), 128..3000),
        2 => "<msg xmlns=\"http://www.hactrn.net/uris/rpki/publication-spec/\" version=\"4\" type=\"query\">[a-z<>/ ]{0,200}</msg>".prop_map(|s| s.into_bytes()),
    ];
    (0u8..8, 1u8..8, window_strategy(), any::<u64>(), content)
        .prop_map(|(ta_key, delta, window, rng, content)| SigMsgCase { ta_key, ee_key: (ta_key + delta) % 8, window, rng, content })
        .boxed()
}

fn snap_sigmsg(s: &mut Snap, who: &str, m: &SignedMessage) -> CheckResult {
    field!(s, who, "content_type", m.content_type().to_string());
    field!(s, who, "content", hex(m.content().to_bytes().as_ref()));
    field!(s, who, "content.len", m.content().len());
    Ok(())
}

fn run_sigmsg(c: &SigMsgCase, obs: &mut Obs) -> CheckResult {
    let signer = PoolSigner::with_first(c.ee_key as usize, c.rng);
    let key = signer.key(c.ta_key as usize);
    obs.nontrivial_if(c.content.len() >= 128);
    obs.label(if c.content.len() >= 128 { "content>=128" } else { "content<128" });
    let built = match no_panic("SignedMessage::create", || SignedMessage::create(Bytes::from(c.content.clone()), c.window.validity()?, &key, &signer).map_err(|e| Fail::new(format!("signing failed: {}", e))))? {
        Ok(b) => b,
        Err(e) => return Err(e),
    };
    let der = no_panic("SignedMessage::to_captured", || built.to_captured().into_bytes().to_vec())?;
    let decoded = match no_panic("SignedMessage::decode", || SignedMessage::decode(der.as_slice(), true))? {
        Ok(d) => d,
        Err(e) => return Err(Fail::sig("c05:sigmsg:decode", format!("built signed message does not decode: {}", e))),
    };
    let now = c.window.eval()?;
    if let Err(e) = no_panic("SignedMessage::validate_at", || decoded.validate_at(&signer.info(c.ta_key as usize), now))? {
        return Err(Fail::sig("c05:sigmsg:validate", format!("built signed message does not validate under the issuing key: {}", e)));
    }
    ensure_bytes("sigmsg", "reencode", &captured(decoded.encode_ref()), &der)?;
    // relaxed decoding of the same (DER) bytes gives the same object (it cannot be re-encoded in
    // DER mode: bcder refuses to write BER-mode captures, so only the accessors are compared)
    let relaxed = match no_panic("SignedMessage::decode relaxed", || SignedMessage::decode(der.as_slice(), false))? {
        Ok(d) => d,
        Err(e) => return Err(Fail::sig("c05:sigmsg:decode", format!("built signed message does not decode in relaxed mode: {}", e))),
    };
    ensure_sig!(relaxed.content().to_bytes() == decoded.content().to_bytes() && relaxed.content_type() == decoded.content_type(),
        "c05:sigmsg:twin:relaxed", "relaxed and strict decoding disagree");
    let mut sb = Snap::new();
    snap_sigmsg(&mut sb, "built", &built)?;
    let mut sd = Snap::new();
    snap_sigmsg(&mut sd, "decoded", &decoded)?;
    compare_snaps("sigmsg", &sb, &sd)?;
    ensure_sig!(decoded.content().to_bytes().as_ref() == c.content.as_slice(), "c05:sigmsg:entries", "decoded content differs from what was signed");
    Ok(())
}

//------------ sub-check: fixtures (objects without a builder) ---------------------------

#[derive(Clone, Debug, Serialize, Deserialize)]
pub struct Fixture {
    pub idx: u64,
}

const ROUTER_CSR: &[u8] = include_bytes!("/repo/test-data/ca/router-csr.der");
const CA_CSR: &[u8] = include_bytes!("/repo/test-data/ca/drl-csr.der");

fn run_fixture(f: &Fixture, obs: &mut Obs) -> CheckResult {
    obs.nontrivial();
    match f.idx {
        0 => {
            // the library has no builder for BGPsec CSRs: decode / encode twin of the shipped example
            let d = BgpsecCsr::decode(ROUTER_CSR).map_err(|e| Fail::sig("c05:csr:decode", format!("router CSR example does not decode: {}", e)))?;
            ensure_sig!(d.verify_signature().is_ok(), "c05:csr:validate", "router CSR example does not verify");
            ensure_bytes("csr", "reencode", d.to_captured().as_slice(), ROUTER_CSR)?;
            let mut s = Snap::new();
            snap_key(&mut s, "decoded", "public_key", d.public_key())?;
            field!(s, "decoded", "eku", d.attributes().extended_key_usage().map(|e| e.inspect_router().is_ok()));
            Ok(())
        }
        _ => {
            let d = RpkiCaCsr::decode(CA_CSR).map_err(|e| Fail::sig("c05:csr:decode", format!("CA CSR example does not decode: {}", e)))?;
            ensure_sig!(d.verify_signature().is_ok(), "c05:csr:validate", "CA CSR example does not verify");
            ensure_bytes("csr", "reencode", d.to_captured().as_slice(), CA_CSR)
        }
    }
}

//------------ sub-check: big lists ---------------------------------------------------------

/// Builders handed lists longer than a counter of 8 or 16 bits can count: a manifest with
/// 65 536 / 65 537 / 70 001 files goes through the same twin comparison as the generated
/// cases. (A CRL of that size is left out: the membership oracle asks `contains`, which is
/// linear by design, for every entry.)
#[derive(Clone, Debug, Serialize, Deserialize)]
pub struct BigList {
    pub idx: u64,
}

fn template<T: std::fmt::Debug>(s: BoxedStrategy<T>) -> Result<T, Fail> {
    use proptest::strategy::ValueTree;
    let mut runner = proptest::test_runner::TestRunner::deterministic();
    let mut tree = s.new_tree(&mut runner).map_err(|e| Fail::new(format!("harness: no template case: {}", e)))?;
    while tree.simplify() {}
    Ok(tree.current())
}

fn run_big_list(b: &BigList, obs: &mut Obs) -> CheckResult {
    obs.nontrivial();
    match b.idx {
        0..=2 => {
            let n = [65_536usize, 65_537, 70_001][b.idx as usize];
            let mut c = template(mft_strategy(Tier::Quick))?;
            c.files = (0..n).map(|i| (format!("f{:x}.roa", i), keys::sha256(&(i as u64).to_be_bytes()).to_vec())).collect();
            run_mft(&c, obs)
        }
        _ => Err(Fail::new("malformed case")),
    }
}

pub fn property() -> Property {
    Property {
        id: "C05",
        rule: RULE,
        assumptions: vec![
            "inputs conform to the object profiles: whole-second times in years 1..9999, thisUpdate <= nextUpdate, notBefore <= notAfter, ROA max-length within [length, family max], non-empty duplicate-free provider sets without the customer AS, unique RFC 9286 manifest file names, range blocks with min <= max",
            "AsBlocks::asn_count is not called on sets holding all 2^32 ASNs (finding F6 is decided by C03/C04)",
            "SignedMessage::create reads the clock for the signing time and CRL number; no verdict depends on them",
            "Roa::process / Aspa::process read the clock and are only exercised for validity windows covering 2000-01-01..2200-01-01",
            "the library has no builder for BGPsec CSRs; that kind is represented by the shipped example file only",
        ],
        subs: vec![
            PropSub { name: "cert", strategy: cert_strategy, cases: |t| t.pick(48_000, 500_000), run: run_cert,
                floors: &[("cert-ta", 0.08), ("cert-ca", 0.15), ("cert-ee", 0.15), ("cert-router", 0.08), ("cert-detached-ee", 0.08), ("blocks>=2", 0.3), ("inherit", 0.1), ("generalized-time", 0.2), ("utc-time", 0.2)] }.boxed(),
            PropSub { name: "crl", strategy: crl_strategy, cases: |t| t.pick(18_000, 150_000), run: run_crl,
                floors: &[("revoked-0", 0.05), ("revoked-2..7", 0.3), ("revoked-8..300", 0.05)] }.boxed(),
            PropSub { name: "manifest", strategy: mft_strategy, cases: |t| t.pick(18_000, 150_000), run: run_mft,
                floors: &[("files-0", 0.05), ("files-2..7", 0.3), ("files-8..40", 0.05)] }.boxed(),
            PropSub { name: "roa", strategy: roa_strategy, cases: |t| t.pick(24_000, 200_000), run: run_roa,
                floors: &[("prefixes>=2", 0.4), ("both-families", 0.2), ("processed", 0.15)] }.boxed(),
            PropSub { name: "aspa", strategy: aspa_strategy, cases: |t| t.pick(15_000, 100_000), run: run_aspa,
                floors: &[("providers-1", 0.1), ("providers-2..9", 0.25), ("providers-10..129", 0.08), ("providers-130..", 0.03), ("processed", 0.15)] }.boxed(),
            PropSub { name: "csr", strategy: csr_strategy, cases: |t| t.pick(12_000, 80_000), run: run_csr,
                floors: &[("repo-dir", 0.2), ("repo-no-trailing-slash", 0.15), ("notify", 0.2)] }.boxed(),
            PropSub { name: "idcert", strategy: idcert_strategy, cases: |t| t.pick(12_000, 80_000), run: run_idcert,
                floors: &[("idcert-ta", 0.2), ("idcert-ee", 0.2)] }.boxed(),
            PropSub { name: "sigmsg", strategy: sigmsg_strategy, cases: |t| t.pick(9_000, 60_000), run: run_sigmsg,
                floors: &[("content>=128", 0.2), ("content<128", 0.2)] }.boxed(),
            EnumSub { name: "fixtures", count: |_, _| 2, make: |_, _, idx| Fixture { idx }, run: run_fixture, exhaustive: false }.boxed(),
            EnumSub { name: "big-lists", count: |_, _| 3, make: |_, _, idx| BigList { idx }, run: run_big_list, exhaustive: false }.boxed(),
        ],
    }
}
