//! Runner: seeding, sharding, counting, shrinking, replay, evidence.
//!
//! Every property module provides a `Property` made of sub-checks. A
//! sub-check is either a proptest-driven `PropSub<C>` (random generation and
//! shrinking over a plain-data, serde-able case type `C`) or an `EnumSub<C>`
//! (complete enumeration of a finite domain, indexed by `u64`). Both decide
//! each case through a `run(&C, &mut Obs) -> CheckResult` function holding the
//! explicit oracle; `run` is also what `--replay` calls, bypassing the
//! generator library.

use std::cell::RefCell;
use std::collections::{BTreeMap, HashSet};
use std::hash::{Hash, Hasher};
use std::panic::{self, AssertUnwindSafe};
use std::sync::atomic::{AtomicBool, AtomicU64, Ordering};
use std::sync::{Arc, Mutex};
use std::time::Instant;

use proptest::strategy::BoxedStrategy;
use proptest::test_runner::{
    Config, RngAlgorithm, TestCaseError, TestError, TestRng, TestRunner,
};
use serde::{de::DeserializeOwned, Serialize};
use serde_json::{json, Value};

//------------ Tier ----------------------------------------------------------

#[derive(Clone, Copy, Debug, PartialEq, Eq)]
pub enum Tier {
    Quick,
    Thorough,
}

impl Tier {
    pub fn pick<T>(self, quick: T, thorough: T) -> T {
        match self {
            Tier::Quick => quick,
            Tier::Thorough => thorough,
        }
    }
    pub fn as_str(self) -> &'static str {
        self.pick("quick", "thorough")
    }
}

//------------ Fail ----------------------------------------------------------

/// A property violation on one case.
#[derive(Clone, Debug)]
pub struct Fail {
    /// Signature used to match entries in known_findings.json.
    pub sig: String,
    pub msg: String,
    /// Optional narrower replay case (for bulk enumerations).
    pub replay_case: Option<Value>,
}

impl Fail {
    pub fn new(msg: impl Into<String>) -> Self {
        Fail { sig: String::new(), msg: msg.into(), replay_case: None }
    }
    pub fn sig(sig: impl Into<String>, msg: impl Into<String>) -> Self {
        Fail { sig: sig.into(), msg: msg.into(), replay_case: None }
    }
    pub fn with_case(mut self, case: Value) -> Self {
        self.replay_case = Some(case);
        self
    }
}

pub type CheckResult = Result<(), Fail>;

#[macro_export]
macro_rules! ensure {
    ($cond:expr, $($arg:tt)+) => {
        if !($cond) {
            return Err($crate::engine::Fail::new(format!($($arg)+)));
        }
    };
}

#[macro_export]
macro_rules! ensure_sig {
    ($cond:expr, $sig:expr, $($arg:tt)+) => {
        if !($cond) {
            return Err($crate::engine::Fail::sig($sig, format!($($arg)+)));
        }
    };
}

#[macro_export]
macro_rules! ensure_eq {
    ($a:expr, $b:expr, $($arg:tt)+) => {
        {
            let (a, b) = (&$a, &$b);
            if a != b {
                return Err($crate::engine::Fail::new(format!(
                    "{}: left={:?} right={:?}", format!($($arg)+), a, b
                )));
            }
        }
    };
}

//------------ Obs -----------------------------------------------------------

/// What `run` observed about one case (for the evidence file).
#[derive(Default)]
pub struct Obs {
    pub labels: Vec<&'static str>,
    pub nontrivial: bool,
    /// Additional evaluations done inside this case (e.g. truncation points).
    pub extra_evals: u64,
    /// For bulk enumeration: number of distinct non-trivial evaluations
    /// contained in this case (distinct by construction of the enumeration).
    pub bulk_nontrivial: u64,
}

impl Obs {
    pub fn label(&mut self, l: &'static str) {
        self.labels.push(l);
    }
    pub fn label_if(&mut self, c: bool, l: &'static str) {
        if c {
            self.labels.push(l);
        }
    }
    pub fn nontrivial(&mut self) {
        self.nontrivial = true;
    }
    pub fn nontrivial_if(&mut self, c: bool) {
        if c {
            self.nontrivial = true;
        }
    }
    pub fn evals(&mut self, n: u64) {
        self.extra_evals += n;
    }
}

//------------ panic capture -------------------------------------------------

thread_local! {
    static LAST_PANIC: RefCell<Option<(String, String)>> = RefCell::new(None);
    static QUIET: RefCell<bool> = RefCell::new(false);
}

pub fn install_panic_hook() {
    let default = panic::take_hook();
    panic::set_hook(Box::new(move |info| {
        let loc = info
            .location()
            .map(|l| format!("{}:{}", short_file(l.file()), l.line()))
            .unwrap_or_else(|| "?".into());
        let msg = if let Some(s) = info.payload().downcast_ref::<&str>() {
            s.to_string()
        } else if let Some(s) = info.payload().downcast_ref::<String>() {
            s.clone()
        } else {
            "<non-string panic>".into()
        };
        let quiet = QUIET.with(|q| *q.borrow());
        LAST_PANIC.with(|p| *p.borrow_mut() = Some((loc, msg)));
        if !quiet {
            default(info);
        }
    }));
}

fn short_file(f: &str) -> String {
    // Keep the path from "src/" on so that signatures are stable.
    match f.rfind("/src/") {
        Some(i) => {
            // include crate dir name
            let head = &f[..i];
            let krate = head.rsplit('/').next().unwrap_or("");
            format!("{}{}", krate, &f[i..])
        }
        None => f.to_string(),
    }
}

/// Runs `f`, converting a panic into a `Fail` with signature
/// `panic:<file>:<line>`.
pub fn catch<T>(f: impl FnOnce() -> Result<T, Fail>) -> Result<T, Fail> {
    QUIET.with(|q| *q.borrow_mut() = true);
    let r = panic::catch_unwind(AssertUnwindSafe(f));
    QUIET.with(|q| *q.borrow_mut() = false);
    match r {
        Ok(r) => r,
        Err(_) => {
            let (loc, msg) = LAST_PANIC
                .with(|p| p.borrow_mut().take())
                .unwrap_or(("?".into(), "?".into()));
            Err(Fail::sig(
                format!("panic:{}", loc),
                format!("panic at {}: {}", loc, msg),
            ))
        }
    }
}

/// Runs `f` and reports whether it panicked (message), for oracles of the form
/// "never panics".
pub fn no_panic<T>(what: &str, f: impl FnOnce() -> T) -> Result<T, Fail> {
    QUIET.with(|q| *q.borrow_mut() = true);
    let r = panic::catch_unwind(AssertUnwindSafe(f));
    QUIET.with(|q| *q.borrow_mut() = false);
    match r {
        Ok(r) => Ok(r),
        Err(_) => {
            let (loc, msg) = LAST_PANIC
                .with(|p| p.borrow_mut().take())
                .unwrap_or(("?".into(), "?".into()));
            Err(Fail::sig(
                format!("panic:{}", loc),
                format!("{}: panic at {}: {}", what, loc, msg),
            ))
        }
    }
}

//------------ watchdog ------------------------------------------------------

/// One slot per running shard: a progress counter and a way to render the
/// case that is currently executing.
pub struct WatchSlot {
    pub what: String,
    pub progress: AtomicU64,
    pub render: Box<dyn Fn() -> Option<Value> + Send + Sync>,
    pub done: AtomicBool,
}

static WATCH: Mutex<Vec<Arc<WatchSlot>>> = Mutex::new(Vec::new());

pub fn watch_register(slot: Arc<WatchSlot>) {
    WATCH.lock().unwrap().push(slot);
}

/// Starts the watchdog thread: if some shard makes no progress for
/// `VERIF_WATCHDOG` seconds (default 180) the case it is executing is saved
/// and the process exits with status 2 (inconclusive, never a violation).
pub fn start_watchdog(property: &'static str) {
    let limit: u64 = std::env::var("VERIF_WATCHDOG").ok().and_then(|s| s.parse().ok()).unwrap_or(180);
    std::thread::spawn(move || {
        let mut seen: Vec<(usize, u64, Instant)> = Vec::new();
        loop {
            std::thread::sleep(std::time::Duration::from_secs(2));
            let slots: Vec<Arc<WatchSlot>> = WATCH.lock().unwrap().clone();
            for (i, slot) in slots.iter().enumerate() {
                if slot.done.load(Ordering::Relaxed) {
                    continue;
                }
                let p = slot.progress.load(Ordering::Relaxed);
                match seen.iter_mut().find(|e| e.0 == i) {
                    None => seen.push((i, p, Instant::now())),
                    Some(e) => {
                        if e.1 != p {
                            e.1 = p;
                            e.2 = Instant::now();
                        } else if e.2.elapsed().as_secs() >= limit {
                            let dir = format!("{}/failures/{}", verif_dir(), property);
                            let _ = std::fs::create_dir_all(&dir);
                            let path = format!("{}/hang-{}.json", dir, slot.what.replace('/', "-"));
                            let case = (slot.render)().unwrap_or(Value::Null);
                            let sub = slot.what.split('/').next().unwrap_or("").to_string();
                            let _ = std::fs::write(&path, serde_json::to_string_pretty(&json!({
                                "property": property, "sub": sub, "case": case,
                                "message": format!("no progress for {} s", limit),
                            })).unwrap());
                            println!("INCONCLUSIVE property={} watchdog: {} made no progress for {} s; case saved to {}",
                                property, slot.what, limit, path);
                            std::process::exit(2);
                        }
                    }
                }
            }
        }
    });
}

//------------ journal -------------------------------------------------------

/// With `VERIF_JOURNAL_DIR` set, every shard writes the case it is about to
/// execute to its own file first, so that a case that kills the process
/// (abort, stack overflow) can be identified by the driver afterwards.
pub struct Journal {
    file: Option<std::fs::File>,
    sub: &'static str,
}

impl Journal {
    pub fn open(sub: &'static str, shard: &str) -> Journal {
        let file = std::env::var("VERIF_JOURNAL_DIR").ok().and_then(|d| {
            std::fs::OpenOptions::new()
                .create(true)
                .write(true)
                .truncate(true)
                .open(format!("{}/{}-{}.json", d, sub, shard))
                .ok()
        });
        Journal { file, sub }
    }
    pub fn note<C: Serialize>(&mut self, case: &C) {
        use std::io::{Seek, SeekFrom, Write};
        if let Some(f) = self.file.as_mut() {
            let body = serde_json::to_vec(&json!({ "sub": self.sub, "case": case })).unwrap_or_default();
            let _ = f.set_len(0);
            let _ = f.seek(SeekFrom::Start(0));
            let _ = f.write_all(&body);
        }
    }
}

//------------ known findings ------------------------------------------------

#[derive(Clone, Debug, Default)]
pub struct Known {
    /// (signature, what) for open findings of the current property.
    pub open: Vec<(String, String)>,
}

impl Known {
    pub fn load(path: &str, property: &str) -> Known {
        let mut k = Known::default();
        let Ok(text) = std::fs::read_to_string(path) else { return k };
        let v: Value = serde_json::from_str(&text)
            .expect("known_findings.json is not valid JSON");
        if let Some(open) = v.get("open").and_then(|o| o.as_array()) {
            for e in open {
                if e.get("property").and_then(|p| p.as_str()) == Some(property)
                {
                    k.open.push((
                        e["signature"].as_str().unwrap_or("").to_string(),
                        e["what"].as_str().unwrap_or("").to_string(),
                    ));
                }
            }
        }
        k
    }
    pub fn is_open(&self, sig: &str) -> bool {
        !sig.is_empty() && self.open.iter().any(|(s, _)| s == sig)
    }
}

//------------ reports -------------------------------------------------------

#[derive(Default)]
pub struct SubReport {
    pub name: String,
    pub evaluations: u64,
    pub cases: u64,
    pub nontrivial: HashSet<u64>,
    pub bulk_nontrivial: u64,
    pub classes: BTreeMap<String, u64>,
    pub samples: Vec<Value>,
    pub exhaustive: bool,
    pub known_excluded: BTreeMap<String, u64>,
    pub failure: Option<(Value, Fail)>,
    pub health: Vec<String>,
    pub wall_s: f64,
}

impl SubReport {
    fn merge(&mut self, o: SubReport) {
        self.evaluations += o.evaluations;
        self.cases += o.cases;
        self.nontrivial.extend(o.nontrivial);
        self.bulk_nontrivial += o.bulk_nontrivial;
        for (k, v) in o.classes {
            *self.classes.entry(k).or_default() += v;
        }
        if self.samples.len() < 8 {
            self.samples.extend(o.samples);
            self.samples.truncate(8);
        }
        for (k, v) in o.known_excluded {
            *self.known_excluded.entry(k).or_default() += v;
        }
        if self.failure.is_none() {
            self.failure = o.failure;
        }
    }
    pub fn distinct_nontrivial(&self) -> u64 {
        self.nontrivial.len() as u64 + self.bulk_nontrivial
    }
}

pub struct RunCtx {
    pub tier: Tier,
    pub seed: u64,
    pub threads: usize,
    pub scale: f64,
    pub property: &'static str,
    pub known: Known,
}

impl RunCtx {
    pub fn scaled(&self, n: u64) -> u64 {
        ((n as f64 * self.scale) as u64).max(1)
    }
}

pub trait SubCheck: Send + Sync {
    fn name(&self) -> &'static str;
    fn run(&self, ctx: &RunCtx) -> SubReport;
    fn replay(&self, case: &Value) -> CheckResult;
}

pub struct Property {
    pub id: &'static str,
    pub rule: &'static str,
    pub assumptions: Vec<&'static str>,
    pub subs: Vec<Box<dyn SubCheck>>,
}

//------------ seeds ---------------------------------------------------------

fn splitmix(x: &mut u64) -> u64 {
    *x = x.wrapping_add(0x9E37_79B9_7F4A_7C15);
    let mut z = *x;
    z = (z ^ (z >> 30)).wrapping_mul(0xBF58_476D_1CE4_E5B9);
    z = (z ^ (z >> 27)).wrapping_mul(0x94D0_49BB_1331_11EB);
    z ^ (z >> 31)
}

pub fn derive_seed(seed: u64, property: &str, sub: &str, shard: u64) -> [u8; 32] {
    let mut h = std::collections::hash_map::DefaultHasher::new();
    seed.hash(&mut h);
    property.hash(&mut h);
    sub.hash(&mut h);
    shard.hash(&mut h);
    let mut x = h.finish();
    let mut out = [0u8; 32];
    for c in out.chunks_mut(8) {
        c.copy_from_slice(&splitmix(&mut x).to_le_bytes());
    }
    out
}

/// Seed-derived deterministic u64 stream for enumerations that need a few
/// "random" base values.
pub fn seed_values(seed: u64, property: &str, what: &str, n: usize) -> Vec<u64> {
    let s = derive_seed(seed, property, what, 0);
    let mut x = u64::from_le_bytes(s[..8].try_into().unwrap());
    (0..n).map(|_| splitmix(&mut x)).collect()
}

fn hash_value<C: Serialize>(c: &C) -> u64 {
    let bytes = serde_json::to_vec(c).unwrap_or_default();
    let mut h = std::collections::hash_map::DefaultHasher::new();
    bytes.hash(&mut h);
    h.finish()
}

fn sample_value<C: Serialize>(c: &C) -> Value {
    let v = serde_json::to_value(c).unwrap_or(Value::Null);
    let s = v.to_string();
    if s.len() > 1500 {
        let mut cut = 1500;
        while !s.is_char_boundary(cut) {
            cut -= 1;
        }
        json!({ "truncated_json": format!("{}…", &s[..cut]), "full_len": s.len() })
    } else {
        v
    }
}

//------------ shard state ---------------------------------------------------

struct ShardState {
    rep: SubReport,
    failed: bool,
    nt_seen: u64,
}

impl ShardState {
    fn new() -> Self {
        ShardState { rep: SubReport::default(), failed: false, nt_seen: 0 }
    }

    fn record<C: Serialize>(&mut self, case: &C, obs: &Obs) {
        self.rep.cases += 1;
        self.rep.evaluations += 1 + obs.extra_evals;
        self.rep.bulk_nontrivial += obs.bulk_nontrivial;
        for l in &obs.labels {
            *self.rep.classes.entry((*l).to_string()).or_default() += 1;
        }
        if obs.nontrivial {
            self.rep.nontrivial.insert(hash_value(case));
            self.nt_seen += 1;
            let n = self.nt_seen;
            if n == 1 || n == 7 || n == 50 || n == 400 || n == 3000 {
                self.rep.samples.push(sample_value(case));
            }
        } else if self.rep.cases == 1 {
            self.rep.samples.push(sample_value(case));
        }
    }
}

//------------ PropSub -------------------------------------------------------

pub struct PropSub<C> {
    pub name: &'static str,
    pub strategy: fn(Tier) -> BoxedStrategy<C>,
    pub cases: fn(Tier) -> u64,
    pub run: fn(&C, &mut Obs) -> CheckResult,
    /// (class label, minimal share of cases) — generator health floors.
    pub floors: &'static [(&'static str, f64)],
}

impl<C> PropSub<C>
where
    C: std::fmt::Debug + Clone + Serialize + DeserializeOwned + Send + 'static,
{
    pub fn boxed(self) -> Box<dyn SubCheck> {
        Box::new(self)
    }

    fn run_shard(
        &self,
        ctx: &RunCtx,
        shard: u64,
        cases: u64,
        stop: &AtomicBool,
    ) -> SubReport {
        let seed = derive_seed(ctx.seed, ctx.property, self.name, shard);
        let rng = TestRng::from_seed(RngAlgorithm::ChaCha, &seed);
        let batch = cases.min(256).max(1) as u32;
        let config = Config {
            cases: batch,
            failure_persistence: None,
            max_shrink_iters: 50_000,
            max_global_rejects: 1_000_000,
            max_local_rejects: 1_000_000,
            verbose: 0,
            ..Config::default()
        };
        let mut runner = TestRunner::new_with_rng(config.clone(), rng);
        let strat = (self.strategy)(ctx.tier);
        let st = RefCell::new(ShardState::new());
        let current: Arc<Mutex<Option<C>>> = Arc::new(Mutex::new(None));
        let slot = {
            let current = current.clone();
            Arc::new(WatchSlot {
                what: format!("{}/shard{}", self.name, shard),
                progress: AtomicU64::new(0),
                render: Box::new(move || {
                    current.try_lock().ok().and_then(|c| c.as_ref().map(|c| serde_json::to_value(c).unwrap_or(Value::Null)))
                }),
                done: AtomicBool::new(false),
            })
        };
        watch_register(slot.clone());
        let journal = RefCell::new(Journal::open(self.name, &format!("shard{}", shard)));
        let mut done = 0u64;
        while done < cases && !stop.load(Ordering::Relaxed) {
            let res = runner.run(&strat, |case: C| {
                let mut obs = Obs::default();
                *current.lock().unwrap() = Some(case.clone());
                slot.progress.fetch_add(1, Ordering::Relaxed);
                journal.borrow_mut().note(&case);
                let r = catch(|| (self.run)(&case, &mut obs));
                let mut s = st.borrow_mut();
                if !s.failed {
                    s.record(&case, &obs);
                }
                match r {
                    Ok(()) => Ok(()),
                    Err(f) if ctx.known.is_open(&f.sig) => {
                        if !s.failed {
                            *s.rep.known_excluded.entry(f.sig).or_default() += 1;
                        }
                        Ok(())
                    }
                    Err(f) => {
                        s.failed = true;
                        Err(TestCaseError::fail(f.msg))
                    }
                }
            });
            done += batch as u64;
            // a TestRunner counts successes cumulatively: start a fresh one
            // for the next batch, seeded from the current RNG stream.
            let next_rng = runner.new_rng();
            runner = TestRunner::new_with_rng(config.clone(), next_rng);
            match res {
                Ok(()) => {}
                Err(TestError::Fail(_, value)) => {
                    stop.store(true, Ordering::Relaxed);
                    let mut obs = Obs::default();
                    let fail = match catch(|| (self.run)(&value, &mut obs)) {
                        Err(f) => f,
                        Ok(()) => Fail::new(
                            "shrunk case passed on re-run (non-deterministic check?)",
                        ),
                    };
                    let v = serde_json::to_value(&value).unwrap_or(Value::Null);
                    st.borrow_mut().rep.failure = Some((v, fail));
                    break;
                }
                Err(TestError::Abort(reason)) => {
                    st.borrow_mut().rep.health.push(format!(
                        "generator aborted: {}",
                        reason
                    ));
                    break;
                }
            }
        }
        slot.done.store(true, Ordering::Relaxed);
        st.into_inner().rep
    }
}

impl<C> SubCheck for PropSub<C>
where
    C: std::fmt::Debug + Clone + Serialize + DeserializeOwned + Send + 'static,
{
    fn name(&self) -> &'static str {
        self.name
    }

    fn run(&self, ctx: &RunCtx) -> SubReport {
        let t0 = Instant::now();
        let total = ctx.scaled((self.cases)(ctx.tier));
        let shards = (ctx.threads as u64).min(total).max(1);
        let per = total.div_ceil(shards);
        let stop = AtomicBool::new(false);
        let merged = Mutex::new(SubReport::default());
        std::thread::scope(|sc| {
            for shard in 0..shards {
                let stop = &stop;
                let merged = &merged;
                std::thread::Builder::new()
                    .stack_size(64 << 20)
                    .spawn_scoped(sc, move || {
                        let rep = self.run_shard(ctx, shard, per, stop);
                        merged.lock().unwrap().merge(rep);
                    })
                    .unwrap();
            }
        });
        let mut rep = merged.into_inner().unwrap();
        rep.name = self.name.to_string();
        if rep.failure.is_none() && rep.cases > 0 {
            for (label, floor) in self.floors {
                let n = rep.classes.get(*label).copied().unwrap_or(0);
                let share = n as f64 / rep.cases as f64;
                if share < *floor {
                    rep.health.push(format!(
                        "class '{}' share {:.4} below floor {:.4}",
                        label, share, floor
                    ));
                }
            }
        }
        rep.wall_s = t0.elapsed().as_secs_f64();
        rep
    }

    fn replay(&self, case: &Value) -> CheckResult {
        let c: C = serde_json::from_value(case.clone())
            .map_err(|e| Fail::new(format!("cannot parse replay case: {}", e)))?;
        let mut obs = Obs::default();
        catch(|| (self.run)(&c, &mut obs))
    }
}

//------------ EnumSub -------------------------------------------------------

/// Complete enumeration of a finite domain indexed `0..count(tier, seed)`.
pub struct EnumSub<C> {
    pub name: &'static str,
    pub count: fn(Tier, u64) -> u64,
    pub make: fn(Tier, u64, u64) -> C,
    pub run: fn(&C, &mut Obs) -> CheckResult,
    /// true if the enumeration covers the whole domain named in the rule
    pub exhaustive: bool,
}

impl<C> EnumSub<C>
where
    C: std::fmt::Debug + Clone + Serialize + DeserializeOwned + Send + 'static,
{
    pub fn boxed(self) -> Box<dyn SubCheck> {
        Box::new(self)
    }
}

impl<C> SubCheck for EnumSub<C>
where
    C: std::fmt::Debug + Clone + Serialize + DeserializeOwned + Send + 'static,
{
    fn name(&self) -> &'static str {
        self.name
    }

    fn run(&self, ctx: &RunCtx) -> SubReport {
        let t0 = Instant::now();
        let total = (self.count)(ctx.tier, ctx.seed);
        let next = AtomicU64::new(0);
        let stop = AtomicBool::new(false);
        let merged = Mutex::new(SubReport::default());
        let chunk = (total / (ctx.threads as u64 * 64)).clamp(1, 4096);
        std::thread::scope(|sc| {
            for _ in 0..ctx.threads {
                let (next, stop, merged) = (&next, &stop, &merged);
                std::thread::Builder::new()
                    .stack_size(64 << 20)
                    .spawn_scoped(sc, move || {
                        let mut st = ShardState::new();
                        let current: Arc<Mutex<Option<C>>> = Arc::new(Mutex::new(None));
                        let slot = {
                            let current = current.clone();
                            Arc::new(WatchSlot {
                                what: format!("{}/enum", self.name),
                                progress: AtomicU64::new(0),
                                render: Box::new(move || {
                                    current.try_lock().ok().and_then(|c| {
                                        c.as_ref().map(|c| serde_json::to_value(c).unwrap_or(Value::Null))
                                    })
                                }),
                                done: AtomicBool::new(false),
                            })
                        };
                        watch_register(slot.clone());
                        let mut journal = Journal::open(
                            self.name,
                            &format!("enum{:?}", std::thread::current().id()).replace(['(', ')'], ""),
                        );
                        'outer: loop {
                            let start = next.fetch_add(chunk, Ordering::Relaxed);
                            if start >= total || stop.load(Ordering::Relaxed) {
                                break;
                            }
                            for idx in start..(start + chunk).min(total) {
                                let case = (self.make)(ctx.tier, ctx.seed, idx);
                                let mut obs = Obs::default();
                                *current.lock().unwrap() = Some(case.clone());
                                slot.progress.fetch_add(1, Ordering::Relaxed);
                                journal.note(&case);
                                let r = catch(|| (self.run)(&case, &mut obs));
                                st.record(&case, &obs);
                                match r {
                                    Ok(()) => {}
                                    Err(f) if ctx.known.is_open(&f.sig) => {
                                        *st.rep
                                            .known_excluded
                                            .entry(f.sig)
                                            .or_default() += 1;
                                    }
                                    Err(f) => {
                                        stop.store(true, Ordering::Relaxed);
                                        let v = f.replay_case.clone().unwrap_or_else(
                                            || {
                                                serde_json::to_value(&case)
                                                    .unwrap_or(Value::Null)
                                            },
                                        );
                                        st.rep.failure = Some((v, f));
                                        break 'outer;
                                    }
                                }
                            }
                        }
                        slot.done.store(true, Ordering::Relaxed);
                        merged.lock().unwrap().merge(st.rep);
                    })
                    .unwrap();
            }
        });
        let mut rep = merged.into_inner().unwrap();
        rep.name = self.name.to_string();
        rep.exhaustive = self.exhaustive && rep.failure.is_none();
        rep.wall_s = t0.elapsed().as_secs_f64();
        rep
    }

    fn replay(&self, case: &Value) -> CheckResult {
        let c: C = serde_json::from_value(case.clone())
            .map_err(|e| Fail::new(format!("cannot parse replay case: {}", e)))?;
        let mut obs = Obs::default();
        catch(|| (self.run)(&c, &mut obs))
    }
}

//------------ driver --------------------------------------------------------

pub struct Outcome {
    pub exit: i32,
}

fn verif_dir() -> String {
    std::env::var("VERIF_DIR").unwrap_or_else(|_| "/verif".into())
}

pub fn replay_file(prop: &Property, path: &str, known: &Known) -> Result<(), (Fail, bool)> {
    let text = std::fs::read_to_string(path)
        .map_err(|e| (Fail::new(format!("cannot read {}: {}", path, e)), false))?;
    let v: Value = serde_json::from_str(&text)
        .map_err(|e| (Fail::new(format!("bad JSON in {}: {}", path, e)), false))?;
    let sub = v["sub"].as_str().unwrap_or("");
    let Some(sc) = prop.subs.iter().find(|s| s.name() == sub) else {
        return Err((Fail::new(format!("{}: unknown sub-check '{}'", path, sub)), false));
    };
    match sc.replay(&v["case"]) {
        Ok(()) => Ok(()),
        Err(f) => {
            let k = known.is_open(&f.sig);
            Err((f, k))
        }
    }
}

pub fn run_property(prop: Property, tier: Tier) -> Outcome {
    let t0 = Instant::now();
    let seed: u64 = std::env::var("VERIF_SEED")
        .ok()
        .and_then(|s| s.trim().parse::<i128>().ok())
        .map(|v| v as u64)
        .unwrap_or(0);
    let threads: usize = std::env::var("VERIF_THREADS")
        .ok()
        .and_then(|s| s.parse().ok())
        .unwrap_or_else(|| {
            std::thread::available_parallelism().map(|n| n.get()).unwrap_or(8).min(16)
        });
    let scale: f64 = std::env::var("VERIF_SCALE")
        .ok()
        .and_then(|s| s.parse().ok())
        .unwrap_or(1.0);
    let only: Option<Vec<String>> = std::env::var("VERIF_SUB")
        .ok()
        .map(|s| s.split(',').map(|x| x.to_string()).collect());
    let dir = verif_dir();
    let known = Known::load(&format!("{}/known_findings.json", dir), prop.id);
    let ctx = RunCtx { tier, seed, threads, scale, property: prop.id, known };
    start_watchdog(prop.id);

    let mut violations: Vec<(String, String)> = Vec::new(); // (replay path, msg)
    let mut known_hits: BTreeMap<String, u64> = BTreeMap::new();
    let mut health: Vec<String> = Vec::new();

    // 1. regress replay
    let mut regress_n = 0u64;
    let rdir = format!("{}/regress/{}", dir, prop.id);
    if let Ok(rd) = std::fs::read_dir(&rdir) {
        let mut files: Vec<_> = rd
            .filter_map(|e| e.ok())
            .map(|e| e.path())
            .filter(|p| p.extension().map(|e| e == "json").unwrap_or(false))
            .collect();
        files.sort();
        for f in files {
            let p = f.to_string_lossy().to_string();
            regress_n += 1;
            match replay_file(&prop, &p, &ctx.known) {
                Ok(()) => {}
                Err((fail, true)) => {
                    *known_hits.entry(fail.sig).or_default() += 1;
                }
                Err((fail, false)) => {
                    eprintln!("regress {} FAILED: {}", p, fail.msg);
                    violations.push((p, fail.msg));
                }
            }
        }
    }

    // 2. sub-checks
    let mut reports: Vec<SubReport> = Vec::new();
    for sc in &prop.subs {
        if let Some(only) = &only {
            if !only.iter().any(|o| o == sc.name()) {
                continue;
            }
        }
        let rep = sc.run(&ctx);
        eprintln!(
            "[{} {}] {}: cases={} evals={} nontrivial={} wall={:.1}s{}",
            prop.id,
            tier.as_str(),
            sc.name(),
            rep.cases,
            rep.evaluations,
            rep.distinct_nontrivial(),
            rep.wall_s,
            if rep.exhaustive { " exhaustive" } else { "" }
        );
        if let Some((case, fail)) = &rep.failure {
            let fdir = format!("{}/failures/{}", dir, prop.id);
            let _ = std::fs::create_dir_all(&fdir);
            let body = json!({
                "property": prop.id, "sub": sc.name(), "seed": seed,
                "tier": tier.as_str(), "signature": fail.sig,
                "message": fail.msg, "case": case,
            });
            let mut h = std::collections::hash_map::DefaultHasher::new();
            body["case"].to_string().hash(&mut h);
            sc.name().hash(&mut h);
            let path = format!("{}/{}-{:016x}.json", fdir, sc.name(), h.finish());
            let _ = std::fs::write(&path, serde_json::to_string_pretty(&body).unwrap());
            eprintln!("FAIL [{}::{}] {}", prop.id, sc.name(), fail.msg);
            violations.push((path, fail.msg.clone()));
        }
        for (k, v) in &rep.known_excluded {
            *known_hits.entry(k.clone()).or_default() += v;
        }
        for h in &rep.health {
            health.push(format!("{}: {}", sc.name(), h));
        }
        reports.push(rep);
    }

    // 3. evidence
    let evaluations: u64 = reports.iter().map(|r| r.evaluations).sum::<u64>() + regress_n;
    let distinct: u64 = reports.iter().map(|r| r.distinct_nontrivial()).sum();
    let mut samples: Vec<Value> = Vec::new();
    for r in &reports {
        for s in r.samples.iter().take(3) {
            samples.push(json!({ "sub": r.name, "case": s }));
        }
    }
    let subs: BTreeMap<String, Value> = reports
        .iter()
        .map(|r| {
            (
                r.name.clone(),
                json!({
                    "cases": r.cases,
                    "evaluations": r.evaluations,
                    "distinct_nontrivial": r.distinct_nontrivial(),
                    "classes": r.classes,
                    "exhaustive": r.exhaustive,
                    "known_findings_excluded": r.known_excluded,
                    "wall_s": (r.wall_s * 100.0).round() / 100.0,
                }),
            )
        })
        .collect();
    let all_exhaustive = !reports.is_empty() && reports.iter().all(|r| r.exhaustive);
    // summary of the coverage-guided (libFuzzer) part, if the driver ran one
    let fuzz: Value = std::env::var("VERIF_EXTRA_EVIDENCE")
        .ok()
        .and_then(|p| std::fs::read_to_string(p).ok())
        .and_then(|t| serde_json::from_str(t.trim()).ok())
        .unwrap_or(Value::Null);
    let fuzz_execs = fuzz.get("execs").and_then(|v| v.as_u64()).unwrap_or(0)
        + fuzz.get("replayed").and_then(|v| v.as_u64()).unwrap_or(0);
    let evaluations = evaluations + fuzz_execs;
    let evidence = json!({
        "property_id": prop.id,
        "tier": tier.as_str(),
        "seed": seed as i64,
        "level": "exploration",
        "coverage": {
            "evaluations": evaluations,
            "distinct_nontrivial": distinct,
            "rule": prop.rule,
            "samples": samples,
            "exhaustive": all_exhaustive,
            "subchecks": subs,
            "regress_replayed": regress_n,
            "known_findings_excluded": known_hits,
            "generator_health": health,
            "fuzz": fuzz,
        },
        "assumptions": prop.assumptions,
        "wall_s": (t0.elapsed().as_secs_f64() * 100.0).round() / 100.0,
        "violations": violations.len(),
    });
    if only.is_none() || std::env::var("VERIF_WRITE_EVIDENCE").is_ok() {
        let edir = format!("{}/evidence", dir);
        let _ = std::fs::create_dir_all(&edir);
        let _ = std::fs::write(
            format!("{}/{}.json", edir, prop.id),
            serde_json::to_string_pretty(&evidence).unwrap() + "\n",
        );
    }

    // 4. verdict
    for (sig, what) in &ctx.known.open {
        println!(
            "KNOWN-FINDING: property={} {} [{}; {} cases excluded in this run]",
            prop.id,
            what,
            sig,
            known_hits.get(sig).copied().unwrap_or(0)
        );
    }
    for h in &health {
        eprintln!("GENERATOR-HEALTH [{}] {}", prop.id, h);
    }
    if !violations.is_empty() {
        for (path, _) in &violations {
            println!("VIOLATION property={} replay={}", prop.id, path);
        }
        return Outcome { exit: 1 };
    }
    if !health.is_empty() {
        // A generator that does not reach its stated classes claims nothing.
        return Outcome { exit: 2 };
    }
    println!(
        "OK property={} tier={} seed={} evaluations={} distinct_nontrivial={} wall={:.1}s",
        prop.id,
        tier.as_str(),
        seed,
        evaluations,
        distinct,
        t0.elapsed().as_secs_f64()
    );
    Outcome { exit: 0 }
}

pub fn run_replay(prop: Property, path: &str) -> Outcome {
    let dir = verif_dir();
    let known = Known::load(&format!("{}/known_findings.json", dir), prop.id);
    match replay_file(&prop, path, &known) {
        Ok(()) => {
            println!("OK property={} replay={} passes", prop.id, path);
            Outcome { exit: 0 }
        }
        Err((fail, true)) => {
            println!("KNOWN-FINDING: property={} {} [{}]", prop.id, fail.msg, fail.sig);
            Outcome { exit: 0 }
        }
        Err((fail, false)) => {
            eprintln!("FAIL {}", fail.msg);
            println!("VIOLATION property={} replay={}", prop.id, path);
            Outcome { exit: 1 }
        }
    }
}

#[allow(dead_code)]
pub fn arc<T>(t: T) -> Arc<T> {
    Arc::new(t)
}
