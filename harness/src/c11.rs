//! C11 — CA protocol XML (RFC 6492, 8181, 8183) round-trips and stays well-formed.
//!
//! Sub-checks:
//!  * `roundtrip`   every message variant constructible through the public
//!                  API: decode(write(m)) == m, field-by-field comparison with
//!                  the generated plain data, write(decode(write(m))) == write(m)
//!  * `wellformed`  batches of written messages through Python's expat
//!                  (/verif/tools/xmlwf.py): well-formed, and expat's view of
//!                  elements / attribute values / text equals what was written
//!  * `parsers`     arbitrary and XML-aware mutated bytes into every decoder

use crate::c09::{gen_bytes, hash32, https_uri, rsync_uri, DataSpec};
use crate::engine::*;
use crate::gen::U128;
use proptest::prelude::*;
use rpki::ca::idexchange::{
    ChildHandle, ChildRequest, ParentHandle, ParentResponse, PublisherHandle, PublisherRequest, RecipientHandle,
    RepositoryResponse, SenderHandle, ServiceUri,
};
use rpki::ca::provisioning::{
    self, IssuanceRequest, IssuanceResponse, IssuedCert, NotPerformedResponse, Payload, RequestResourceLimit,
    ResourceClassEntitlements, ResourceClassListResponse, ResourceClassName, RevocationRequest, RevocationResponse,
    SigningCert,
};
use rpki::ca::publication::{
    self, Base64, ErrorReply, ListElement, ListReply, Publish, PublishDelta, PublishDeltaElement, Query, Reply,
    ReportError, ReportErrorCode, Update, Withdraw,
};
use rpki::crypto::KeyIdentifier;
use rpki::repository::resources::{AsBlocks, Ipv4Blocks, Ipv6Blocks, ResourceSet};
use rpki::repository::x509::Time;
use rpki::rrdp::Hash;
use rpki::uri;
use serde::{Deserialize, Serialize};
use std::net::{Ipv4Addr, Ipv6Addr};
use std::str::FromStr;

#[path = "c11_pool.rs"]
mod pool;
#[path = "c11_oracles.rs"]
mod oracles;

pub const RULE: &str = "roundtrip: random messages of every variant constructible through the public API — RFC 6492 list, \
list_response (0..5 classes x 0..4 issued certificates), issue (+ request limits), issue_response, revoke, revoke_response, \
all eleven NotPerformedResponse::err_*; RFC 8181 list query, list reply (0..300 elements), publish/update/withdraw deltas \
(0..12 PDUs, object contents 0..64 KiB incl. empty), success, error replies (1..4 ReportError::with_code); RFC 8183 \
child_request, parent_response, publisher_request, repository_response. Handles from [-_A-Za-z0-9/]{1,255}; class names and \
tags are xsd:token strings over printable ASCII with elevated < > & ' \"; rsync/HTTPS URIs over the URI alphabet with \
elevated & and '; HTTP service URIs; canonical resource sets of all shapes (empty, full, single values, prefixes, ranges; \
IPv6 blocks whose text form contains a dotted quad are left out, finding F16 belongs to C03); certificates, CSRs and \
identity certificates from a pre-built pool. Oracle: decode(write(m)) == m by library == and field by field against \
the generated data, and write(decode(write(m))) == write(m); messages with a PDU tag of None only take part in the \
second relation. Non-trivial = an attribute value containing an XML-special character or a list of >= 2 elements. \
wellformed: batches of 200 such messages (drawn from the same strategy with a generator seeded from seed and batch index) through expat; every checked message counts as non-trivial; expat-available: one probe document (a missing python3/expat makes the run inconclusive). parsers: arbitrary \
bytes, /repo/test-data/ca XML files and written messages under 0..6 XML-aware mutations into all six decoders; oracle = \
no panic (accepted values are additionally written and walked). Writers: every message is also written with write_xml into a writer that takes 1-8 octets per call and a claimed success must deliver exactly the octets write_xml puts into a Vec (an error from write_xml is accepted: base64 content goes through base64's EncoderWriter, which documents WriteZero under short writes); what to_xml_string / to_xml_vec / to_xml_bytes write must parse back to the message as well. roundtrip also re-spells every written document three times (xmlrespell, as for C09, plus RFC 3339 time stamps with a numeric UTC offset): parsed to an equal message or refused; class names / tags include values of 100..600 characters, a third of them XML-special.";

//------------ plain-data specs ---------------------------------------------------

/// Canonical (sorted, disjoint, non-adjacent) inclusive ranges.
#[derive(Clone, Debug, Default, Serialize, Deserialize, PartialEq, Eq)]
pub struct ResSpec {
    pub asn: Vec<(u32, u32)>,
    pub v4: Vec<(u32, u32)>,
    pub v6: Vec<(U128, U128)>,
}

#[derive(Clone, Debug, Default, Serialize, Deserialize, PartialEq, Eq)]
pub struct LimitSpec {
    pub asn: Option<Vec<(u32, u32)>>,
    pub v4: Option<Vec<(u32, u32)>>,
    pub v6: Option<Vec<(U128, U128)>>,
}

#[derive(Clone, Debug, Serialize, Deserialize)]
pub struct IssuedSpec {
    pub uri: String,
    pub limit: LimitSpec,
    pub cert: u8,
}

#[derive(Clone, Debug, Serialize, Deserialize)]
pub struct ClassSpec {
    pub class_name: String,
    pub res: ResSpec,
    /// seconds since the Unix epoch
    pub not_after: i64,
    pub issued: Vec<IssuedSpec>,
    pub signing_url: String,
    pub signing_cert: u8,
}

#[derive(Clone, Debug, Serialize, Deserialize)]
pub enum ProvPayload {
    List,
    ListResponse(Vec<ClassSpec>),
    Issue { class_name: String, limit: LimitSpec, csr: u8 },
    IssueResponse(ClassSpec),
    Revoke { class_name: String, key: u64 },
    RevokeResponse { class_name: String, key: u64 },
    Error(u8),
}

#[derive(Clone, Debug, Serialize, Deserialize)]
pub struct Prov {
    pub sender: String,
    pub recipient: String,
    pub payload: ProvPayload,
}

#[derive(Clone, Debug, Serialize, Deserialize, PartialEq, Eq)]
pub enum TagSpec {
    None,
    Some(String),
    HashTag,
}

#[derive(Clone, Debug, Serialize, Deserialize)]
pub enum PduSpec {
    Publish { tag: TagSpec, uri: String, data: DataSpec },
    Update { tag: TagSpec, uri: String, data: DataSpec, hash: u64 },
    Withdraw { tag: TagSpec, uri: String, hash: u64 },
}

#[derive(Clone, Debug, Serialize, Deserialize)]
pub enum PubMsg {
    ListQuery,
    ListReply(Vec<(String, u64)>),
    Delta(Vec<PduSpec>),
    Success,
    Error(Vec<u8>),
}

#[derive(Clone, Debug, Serialize, Deserialize)]
pub enum SvcSpec {
    Https(String),
    Http(String),
}

#[derive(Clone, Debug, Serialize, Deserialize)]
pub enum IdMsg {
    Child { idcert: u8, handle: String },
    Parent { idcert: u8, parent: String, child: String, service: SvcSpec, tag: Option<String> },
    Publisher { idcert: u8, handle: String, tag: Option<String> },
    Repository { idcert: u8, handle: String, service: SvcSpec, sia_base: String, rrdp: Option<String>, tag: Option<String> },
}

#[derive(Clone, Debug, Serialize, Deserialize)]
pub enum Msg {
    Prov(Prov),
    Pub(PubMsg),
    Id(IdMsg),
}

//------------ strategies -------------------------------------------------------------

fn token_char() -> BoxedStrategy<char> {
    prop_oneof![
        4 => prop::sample::select(vec!['<', '>', '&', '\'', '"']),
        1 => prop::sample::select(vec![';', '#', '=', '/', '!', '-', ']', '[', '?', '%', '{', '}', '\\', '`', '~', '|', '^', '@']),
        5 => prop::sample::select("abcdefghijklmnopqrstuvwxyzABCXYZ0123456789_".chars().collect::<Vec<_>>()),
    ]
    .boxed()
}

/// xsd:token over printable ASCII: words separated by single spaces.
pub(crate) fn token() -> BoxedStrategy<String> {
    prop_oneof![
        2 => Just(String::new()),
        4 => prop::sample::select(vec!["0", "all", "&amp;", "&lt;", "&#x41;", "]]>", "<!--", "a&b", "it's", "\"q\"", "<msg>", "&", "<", ">", "'", "\""]).prop_map(|s| s.to_string()),
        16 => prop::collection::vec(prop::collection::vec(token_char(), 1..7).prop_map(|v| v.into_iter().collect::<String>()), 1..4)
            .prop_map(|w| w.join(" ")),
        // long values (100..600 characters, a third of them XML-special): the escaped form
        // crosses 255/256 and 511/512 octets at every alignment
        1 => prop::collection::vec(prop::collection::vec(token_char(), 1..7).prop_map(|v| v.into_iter().collect::<String>()), 25..130)
            .prop_map(|w| w.join(" ")),
    ]
    .boxed()
}

pub(crate) fn handle() -> BoxedStrategy<String> {
    prop_oneof![
        8 => "[-_A-Za-z0-9/]{1,12}".prop_map(|s| s),
        1 => "[-_A-Za-z0-9/]{200,255}".prop_map(|s| s),
        1 => prop::sample::select(vec!["/", "-", "_", "a/b/c", "0"]).prop_map(|s| s.to_string()),
    ]
    .boxed()
}

fn points32() -> BoxedStrategy<Vec<u32>> {
    prop::collection::vec(crate::gen::dense_u32(), 0..9).boxed()
}

fn points128() -> BoxedStrategy<Vec<u128>> {
    prop::collection::vec(crate::gen::dense_u128(), 0..9).boxed()
}

fn canon32(mut p: Vec<u32>, shape: u8) -> Vec<(u32, u32)> {
    match shape % 8 {
        0 => return vec![],
        1 => return vec![(0, u32::MAX)],
        _ => {}
    }
    p.sort();
    p.dedup();
    let mut out: Vec<(u32, u32)> = Vec::new();
    let mut it = p.into_iter();
    while let Some(a) = it.next() {
        // odd shapes: single values now and then
        let b = if shape % 3 == 0 { a } else { it.next().unwrap_or(a) };
        if let Some(&(_, last)) = out.last() {
            if last == u32::MAX || a <= last + 1 {
                continue;
            }
        }
        out.push((a, b));
    }
    out
}

fn canon128(mut p: Vec<u128>, shape: u8) -> Vec<(U128, U128)> {
    match shape % 8 {
        0 => return vec![],
        1 => return vec![(U128(0), U128(u128::MAX))],
        _ => {}
    }
    p.sort();
    p.dedup();
    let mut out: Vec<(U128, U128)> = Vec::new();
    let mut it = p.into_iter();
    while let Some(a) = it.next() {
        let b = if shape % 3 == 0 { a } else { it.next().unwrap_or(a) };
        if let Some(&(_, last)) = out.last() {
            if last.0 == u128::MAX || a <= last.0 + 1 {
                continue;
            }
        }
        out.push((U128(a), U128(b)));
    }
    out
}

fn res_spec() -> BoxedStrategy<ResSpec> {
    (points32(), any::<u8>(), points32(), any::<u8>(), points128(), any::<u8>())
        .prop_map(|(a, sa, b, sb, c, sc)| ResSpec { asn: canon32(a, sa), v4: canon32(b, sb), v6: canon128(c, sc) })
        .boxed()
}

fn limit_spec() -> BoxedStrategy<LimitSpec> {
    (res_spec(), 0u8..8)
        .prop_map(|(r, mask)| LimitSpec {
            asn: if mask & 1 != 0 { Some(r.asn) } else { None },
            v4: if mask & 2 != 0 { Some(r.v4) } else { None },
            v6: if mask & 4 != 0 { Some(r.v6) } else { None },
        })
        .boxed()
}

fn not_after() -> BoxedStrategy<i64> {
    // 0001-01-01T00:00:00Z ..= 9999-12-31T23:59:59Z
    const MIN: i64 = -62_135_596_800;
    const MAX: i64 = 253_402_300_799;
    prop_oneof![
        2 => prop::sample::select(vec![MIN, MAX, 0, -1, 1, 2_147_483_647, 2_147_483_648, 4_102_444_800, 951_782_400, 946_684_799, 1_700_000_000]),
        3 => 1_500_000_000i64..2_500_000_000,
        1 => MIN..=MAX,
    ]
    .boxed()
}

fn issued_spec() -> BoxedStrategy<IssuedSpec> {
    (rsync_uri(), limit_spec(), 0u8..4).prop_map(|(uri, limit, cert)| IssuedSpec { uri, limit, cert }).boxed()
}

fn class_spec(max_issued: usize, min_issued: usize) -> BoxedStrategy<ClassSpec> {
    (token(), res_spec(), not_after(), prop::collection::vec(issued_spec(), min_issued..=max_issued), rsync_uri(), 0u8..4)
        .prop_map(|(class_name, res, not_after, issued, signing_url, signing_cert)| ClassSpec { class_name, res, not_after, issued, signing_url, signing_cert })
        .boxed()
}

fn prov() -> BoxedStrategy<Prov> {
    let payload = prop_oneof![
        Just(ProvPayload::List),
        prop::collection::vec(class_spec(4, 0), 0..=5).prop_map(ProvPayload::ListResponse),
        (token(), limit_spec(), 0u8..3).prop_map(|(class_name, limit, csr)| ProvPayload::Issue { class_name, limit, csr }),
        class_spec(1, 1).prop_map(ProvPayload::IssueResponse),
        (token(), any::<u64>()).prop_map(|(class_name, key)| ProvPayload::Revoke { class_name, key }),
        (token(), any::<u64>()).prop_map(|(class_name, key)| ProvPayload::RevokeResponse { class_name, key }),
        (0u8..11).prop_map(ProvPayload::Error),
    ];
    (handle(), handle(), payload).prop_map(|(sender, recipient, payload)| Prov { sender, recipient, payload }).boxed()
}

fn tag_spec() -> BoxedStrategy<TagSpec> {
    prop_oneof![1 => Just(TagSpec::None), 6 => token().prop_map(TagSpec::Some), 2 => Just(TagSpec::HashTag)].boxed()
}

fn content() -> BoxedStrategy<DataSpec> {
    prop_oneof![
        2 => Just(DataSpec::Lit(vec![])),
        5 => prop::collection::vec(any::<u8>(), 0..12).prop_map(DataSpec::Lit),
        4 => (any::<u64>(), 0u32..2000).prop_map(|(seed, len)| DataSpec::Gen { seed, len }),
        1 => (any::<u64>(), 0u32..=65536).prop_map(|(seed, len)| DataSpec::Gen { seed, len }),
    ]
    .boxed()
}

fn pdu_spec() -> BoxedStrategy<PduSpec> {
    prop_oneof![
        (tag_spec(), rsync_uri(), content()).prop_map(|(tag, uri, data)| PduSpec::Publish { tag, uri, data }),
        (tag_spec(), rsync_uri(), content(), any::<u64>()).prop_map(|(tag, uri, data, hash)| PduSpec::Update { tag, uri, data, hash }),
        (tag_spec(), rsync_uri(), any::<u64>()).prop_map(|(tag, uri, hash)| PduSpec::Withdraw { tag, uri, hash }),
    ]
    .boxed()
}

fn pub_msg() -> BoxedStrategy<PubMsg> {
    prop_oneof![
        1 => Just(PubMsg::ListQuery),
        2 => prop_oneof![4 => 0usize..5, 1 => 0usize..=300]
            .prop_flat_map(|n| prop::collection::vec((rsync_uri(), any::<u64>()), n..=n))
            .prop_map(PubMsg::ListReply),
        3 => prop::collection::vec(pdu_spec(), 0..12).prop_map(PubMsg::Delta),
        1 => Just(PubMsg::Success),
        1 => prop::collection::vec(0u8..8, 1..5).prop_map(PubMsg::Error),
    ]
    .boxed()
}

fn http_uri() -> BoxedStrategy<String> {
    (
        prop::sample::select(vec!["http://", "http://", "HTTP://", "Http://"]),
        "[a-z0-9.-]{1,12}(:[0-9]{1,5})?",
        prop::collection::vec(
            prop::sample::select("abcxyzABC019-._~:/?#[]@!$&'()*+,;=%".chars().collect::<Vec<_>>()),
            0..16,
        ),
    )
        .prop_map(|(s, host, path)| format!("{}{}/{}", s, host, path.into_iter().collect::<String>()))
        .boxed()
}

fn svc_spec() -> BoxedStrategy<SvcSpec> {
    prop_oneof![https_uri().prop_map(SvcSpec::Https), http_uri().prop_map(SvcSpec::Http)].boxed()
}

fn opt_tag() -> BoxedStrategy<Option<String>> {
    prop::option::weighted(0.7, token()).boxed()
}

fn id_msg() -> BoxedStrategy<IdMsg> {
    prop_oneof![
        (0u8..3, handle()).prop_map(|(idcert, handle)| IdMsg::Child { idcert, handle }),
        (0u8..3, handle(), handle(), svc_spec(), opt_tag())
            .prop_map(|(idcert, parent, child, service, tag)| IdMsg::Parent { idcert, parent, child, service, tag }),
        (0u8..3, handle(), opt_tag()).prop_map(|(idcert, handle, tag)| IdMsg::Publisher { idcert, handle, tag }),
        (0u8..3, handle(), svc_spec(), rsync_uri(), prop::option::weighted(0.7, https_uri()), opt_tag())
            .prop_map(|(idcert, handle, service, sia_base, rrdp, tag)| IdMsg::Repository { idcert, handle, service, sia_base, rrdp, tag }),
    ]
    .boxed()
}

pub(crate) fn msg() -> BoxedStrategy<Msg> {
    prop_oneof![
        7 => prov().prop_map(Msg::Prov),
        5 => pub_msg().prop_map(Msg::Pub),
        4 => id_msg().prop_map(Msg::Id),
    ]
    .boxed()
}

//------------ building library values ---------------------------------------------------

fn bad(what: &str, s: &str, e: impl std::fmt::Display) -> Fail {
    Fail::new(format!("generator produced an invalid {} '{}': {}", what, s, e))
}

fn rs(s: &str) -> Result<uri::Rsync, Fail> {
    uri::Rsync::from_str(s).map_err(|e| bad("rsync URI", s, e))
}

fn hs(s: &str) -> Result<uri::Https, Fail> {
    uri::Https::from_str(s).map_err(|e| bad("https URI", s, e))
}

fn is_pow2_block(min: u128, max: u128, bits: u32) -> Option<u8> {
    // (min,max) is a prefix iff size is a power of two and min is aligned
    let size_m1 = max - min;
    if size_m1 == u128::MAX {
        return Some(0);
    }
    let size = size_m1 + 1;
    if size.is_power_of_two() && min % size == 0 {
        Some((bits - size.trailing_zeros()) as u8)
    } else {
        None
    }
}

pub(crate) fn as_text(r: &[(u32, u32)]) -> String {
    r.iter().map(|&(a, b)| if a == b { format!("AS{}", a) } else { format!("AS{}-AS{}", a, b) }).collect::<Vec<_>>().join(", ")
}

pub(crate) fn v4_text(r: &[(u32, u32)]) -> String {
    r.iter()
        .map(|&(a, b)| match is_pow2_block(a as u128, b as u128, 32) {
            Some(len) => format!("{}/{}", Ipv4Addr::from(a), len),
            None => format!("{}-{}", Ipv4Addr::from(a), Ipv4Addr::from(b)),
        })
        .collect::<Vec<_>>()
        .join(", ")
}

pub(crate) fn v6_text(r: &[(U128, U128)]) -> String {
    r.iter()
        .filter_map(|&(a, b)| {
            let (sa, sb) = (Ipv6Addr::from(a.0).to_string(), Ipv6Addr::from(b.0).to_string());
            // std prints IPv4-mapped addresses with a dotted quad, which
            // Ipv6Blocks::from_str refuses (finding F16, owned by C03)
            if sa.contains('.') || sb.contains('.') {
                return None;
            }
            Some(match is_pow2_block(a.0, b.0, 128) {
                Some(len) => format!("{}/{}", sa, len),
                None => format!("{}-{}", sa, sb),
            })
        })
        .collect::<Vec<_>>()
        .join(", ")
}

fn asn_blocks(r: &[(u32, u32)]) -> Result<AsBlocks, Fail> {
    let t = as_text(r);
    AsBlocks::from_str(&t).map_err(|e| bad("AS set", &t, e))
}
fn v4_blocks(r: &[(u32, u32)]) -> Result<Ipv4Blocks, Fail> {
    let t = v4_text(r);
    Ipv4Blocks::from_str(&t).map_err(|e| bad("IPv4 set", &t, e))
}
fn v6_blocks(r: &[(U128, U128)]) -> Result<Ipv6Blocks, Fail> {
    let t = v6_text(r);
    Ipv6Blocks::from_str(&t).map_err(|e| bad("IPv6 set", &t, e))
}

fn res_set(r: &ResSpec) -> Result<ResourceSet, Fail> {
    Ok(ResourceSet::new(asn_blocks(&r.asn)?, v4_blocks(&r.v4)?, v6_blocks(&r.v6)?))
}

fn limit(l: &LimitSpec) -> Result<RequestResourceLimit, Fail> {
    let mut out = RequestResourceLimit::new();
    if let Some(a) = &l.asn {
        out.with_asn(asn_blocks(a)?);
    }
    if let Some(a) = &l.v4 {
        out.with_ipv4(v4_blocks(a)?);
    }
    if let Some(a) = &l.v6 {
        out.with_ipv6(v6_blocks(a)?);
    }
    Ok(out)
}

pub(crate) fn time_of(secs: i64) -> Result<Time, Fail> {
    chrono::DateTime::from_timestamp(secs, 0).map(Time::new).ok_or_else(|| Fail::new(format!("generator produced an invalid time {}", secs)))
}

pub(crate) fn key_id(seed: u64) -> KeyIdentifier {
    let v = gen_bytes(seed, 20);
    let mut a = [0u8; 20];
    a.copy_from_slice(&v);
    KeyIdentifier::from(a)
}

fn class(c: &ClassSpec) -> Result<ResourceClassEntitlements, Fail> {
    let p = pool::pool();
    let mut issued = Vec::new();
    for i in &c.issued {
        issued.push(IssuedCert::new(rs(&i.uri)?, limit(&i.limit)?, p.certs[i.cert as usize % p.certs.len()].clone()));
    }
    Ok(ResourceClassEntitlements::new(
        ResourceClassName::from(c.class_name.as_str()),
        res_set(&c.res)?,
        time_of(c.not_after)?,
        issued,
        SigningCert::new(rs(&c.signing_url)?, p.certs[c.signing_cert as usize % p.certs.len()].clone()),
    ))
}

pub(crate) fn not_performed(i: u8) -> NotPerformedResponse {
    match i % 11 {
        0 => NotPerformedResponse::err_1101(),
        1 => NotPerformedResponse::err_1102(),
        2 => NotPerformedResponse::err_1103(),
        3 => NotPerformedResponse::err_1104(),
        4 => NotPerformedResponse::err_1201(),
        5 => NotPerformedResponse::err_1202(),
        6 => NotPerformedResponse::err_1203(),
        7 => NotPerformedResponse::err_1204(),
        8 => NotPerformedResponse::err_1301(),
        9 => NotPerformedResponse::err_1302(),
        _ => NotPerformedResponse::err_2001(),
    }
}

pub(crate) fn error_code(i: u8) -> ReportErrorCode {
    match i % 8 {
        0 => ReportErrorCode::XmlError,
        1 => ReportErrorCode::PermissionFailure,
        2 => ReportErrorCode::BadCmsSignature,
        3 => ReportErrorCode::ObjectAlreadyPresent,
        4 => ReportErrorCode::NoObjectPresent,
        5 => ReportErrorCode::NoObjectMatchingHash,
        6 => ReportErrorCode::ConsistencyProblem,
        _ => ReportErrorCode::OtherError,
    }
}

fn h<T: FromStr>(s: &str) -> Result<T, Fail>
where
    T::Err: std::fmt::Display,
{
    T::from_str(s).map_err(|e| bad("handle", s, e))
}

fn build_prov(p: &Prov) -> Result<provisioning::Message, Fail> {
    let sender: SenderHandle = h(&p.sender)?;
    let recipient: RecipientHandle = h(&p.recipient)?;
    let pl = pool::pool();
    Ok(match &p.payload {
        ProvPayload::List => provisioning::Message::list(sender, recipient),
        ProvPayload::ListResponse(classes) => {
            let mut v = Vec::new();
            for c in classes {
                v.push(class(c)?);
            }
            provisioning::Message::list_response(sender, recipient, ResourceClassListResponse::new(v))
        }
        ProvPayload::Issue { class_name, limit: l, csr } => provisioning::Message::issue(
            sender,
            recipient,
            IssuanceRequest::new(ResourceClassName::from(class_name.as_str()), limit(l)?, pl.csrs[*csr as usize % pl.csrs.len()].clone()),
        ),
        ProvPayload::IssueResponse(c) => {
            ensure_shape(c.issued.len() == 1)?;
            let i = &c.issued[0];
            provisioning::Message::issue_response(
                sender,
                recipient,
                IssuanceResponse::new(
                    ResourceClassName::from(c.class_name.as_str()),
                    res_set(&c.res)?,
                    time_of(c.not_after)?,
                    IssuedCert::new(rs(&i.uri)?, limit(&i.limit)?, pl.certs[i.cert as usize % pl.certs.len()].clone()),
                    SigningCert::new(rs(&c.signing_url)?, pl.certs[c.signing_cert as usize % pl.certs.len()].clone()),
                ),
            )
        }
        ProvPayload::Revoke { class_name, key } => {
            provisioning::Message::revoke(sender, recipient, RevocationRequest::new(ResourceClassName::from(class_name.as_str()), key_id(*key)))
        }
        ProvPayload::RevokeResponse { class_name, key } => {
            let req = RevocationRequest::new(ResourceClassName::from(class_name.as_str()), key_id(*key));
            provisioning::Message::revoke_response(sender, recipient, RevocationResponse::from(&req))
        }
        ProvPayload::Error(i) => provisioning::Message::not_performed_response(sender, recipient, not_performed(*i))
            .map_err(|e| Fail::new(format!("not_performed_response: {}", e)))?,
    })
}

fn ensure_shape(ok: bool) -> Result<(), Fail> {
    if ok { Ok(()) } else { Err(Fail::new("malformed case: an issue response carries exactly one certificate")) }
}

fn tag_of(t: &TagSpec) -> Option<Option<String>> {
    match t {
        TagSpec::None => Some(None),
        TagSpec::Some(s) => Some(Some(s.clone())),
        TagSpec::HashTag => None,
    }
}

fn build_pub(m: &PubMsg) -> Result<publication::Message, Fail> {
    Ok(match m {
        PubMsg::ListQuery => publication::Message::list_query(),
        PubMsg::ListReply(els) => {
            let mut r = ListReply::empty();
            for (u, hsh) in els {
                r.add_element(ListElement::new(rs(u)?, Hash::from(hash32(*hsh))));
            }
            publication::Message::list_reply(r)
        }
        PubMsg::Delta(pdus) => {
            let mut d = PublishDelta::empty();
            for p in pdus {
                match p {
                    PduSpec::Publish { tag, uri, data } => {
                        let c = Base64::from_content(&data.bytes());
                        d.add_publish(match tag_of(tag) {
                            Some(t) => Publish::new(t, rs(uri)?, c),
                            None => Publish::with_hash_tag(rs(uri)?, c),
                        })
                    }
                    PduSpec::Update { tag, uri, data, hash } => {
                        let c = Base64::from_content(&data.bytes());
                        let old = Hash::from(hash32(*hash));
                        d.add_update(match tag_of(tag) {
                            Some(t) => Update::new(t, rs(uri)?, c, old),
                            None => Update::with_hash_tag(rs(uri)?, c, old),
                        })
                    }
                    PduSpec::Withdraw { tag, uri, hash } => {
                        let old = Hash::from(hash32(*hash));
                        d.add_withdraw(match tag_of(tag) {
                            Some(t) => Withdraw::new(t, rs(uri)?, old),
                            None => Withdraw::with_hash_tag(rs(uri)?, old),
                        })
                    }
                }
            }
            publication::Message::delta(d)
        }
        PubMsg::Success => publication::Message::success(),
        PubMsg::Error(codes) => {
            if codes.is_empty() {
                return Err(Fail::new("malformed case: an error reply carries at least one report_error (RFC 8181 2.5)"));
            }
            let mut e = ErrorReply::empty();
            for c in codes {
                e.add_error(ReportError::with_code(error_code(*c)));
            }
            publication::Message::error(e)
        }
    })
}

fn svc(s: &SvcSpec) -> Result<ServiceUri, Fail> {
    Ok(match s {
        SvcSpec::Https(u) => ServiceUri::Https(hs(u)?),
        SvcSpec::Http(u) => {
            if !u.to_ascii_lowercase().starts_with("http://") {
                return Err(Fail::new(format!("generator produced an invalid http URI {}", u)));
            }
            ServiceUri::Http(u.clone())
        }
    })
}

pub(crate) enum Built {
    Prov(provisioning::Message),
    Pub(publication::Message),
    Child(ChildRequest),
    Parent(ParentResponse),
    Publisher(PublisherRequest),
    Repository(RepositoryResponse),
}

impl Built {
    pub fn write(&self) -> Vec<u8> {
        let mut v = Vec::new();
        let r = match self {
            Built::Prov(m) => m.write_xml(&mut v),
            Built::Pub(m) => m.write_xml(&mut v),
            Built::Child(m) => m.write_xml(&mut v),
            Built::Parent(m) => m.write_xml(&mut v),
            Built::Publisher(m) => m.write_xml(&mut v),
            Built::Repository(m) => m.write_xml(&mut v),
        };
        r.expect("writing XML into a Vec cannot fail");
        v
    }

    /// The other public writers: `write_xml` into a writer that takes a few
    /// octets per call (a socket, a compressor) must deliver the very octets it
    /// puts into a `Vec` (it may report an error instead, it may not lose
    /// octets); what the `to_xml_*` conveniences write must parse back to the
    /// message (`compare`: the message takes part in the equality relation).
    pub fn check_writers(&self, xml: &[u8], compare: bool) -> CheckResult {
        struct Short {
            out: Vec<u8>,
            calls: usize,
        }
        impl std::io::Write for Short {
            fn write(&mut self, buf: &[u8]) -> std::io::Result<usize> {
                const TAKE: [usize; 7] = [1, 3, 2, 5, 1, 8, 4];
                let n = buf.len().min(TAKE[self.calls % TAKE.len()]);
                self.calls += 1;
                self.out.extend_from_slice(&buf[..n]);
                Ok(n)
            }
            fn flush(&mut self) -> std::io::Result<()> {
                Ok(())
            }
        }
        let mut w = Short { out: Vec::new(), calls: 0 };
        let r = no_panic("write_xml (short writes)", || match self {
            Built::Prov(m) => m.write_xml(&mut w),
            Built::Pub(m) => m.write_xml(&mut w),
            Built::Child(m) => m.write_xml(&mut w),
            Built::Parent(m) => m.write_xml(&mut w),
            Built::Publisher(m) => m.write_xml(&mut w),
            Built::Repository(m) => m.write_xml(&mut w),
        })?;
        // An error is a report, not a loss: base64 content goes through
        // base64::write::EncoderWriter, which documents that write_all on it may fail with
        // WriteZero when the writer below takes short writes. Only a claimed success is held
        // to the octets.
        if r.is_err() {
            return Ok(());
        }
        if w.out != xml {
            let at = w.out.iter().zip(xml.iter()).position(|(a, b)| a != b).unwrap_or(w.out.len().min(xml.len()));
            return Err(Fail::sig(
                "c11:writers-differ",
                format!(
                    "write_xml delivers {} octets to a writer taking short writes and {} to a Vec; they differ from octet {}: {:?} vs {:?}",
                    w.out.len(), xml.len(), at,
                    String::from_utf8_lossy(&w.out[at.saturating_sub(20)..(at + 30).min(w.out.len())]),
                    String::from_utf8_lossy(&xml[at.saturating_sub(20)..(at + 30).min(xml.len())])
                ),
            ));
        }
        let (s, v): (String, Vec<u8>) = no_panic("to_xml_*", || match self {
            Built::Prov(m) => (m.to_xml_string(), m.to_xml_bytes().to_vec()),
            Built::Pub(m) => (m.to_xml_string(), m.to_xml_bytes().to_vec()),
            Built::Child(m) => (m.to_xml_string(), m.to_xml_vec()),
            Built::Parent(m) => (m.to_xml_string(), m.to_xml_vec()),
            Built::Publisher(m) => (m.to_xml_string(), m.to_xml_vec()),
            Built::Repository(m) => (m.to_xml_string(), m.to_xml_vec()),
        })?;
        // The convenience writers are writers in their own right (they may, say, add an XML
        // declaration): what they produce must parse back to the message, like write_xml's output.
        for (how, bytes) in [("to_xml_string", s.as_bytes()), ("to_xml_vec / to_xml_bytes", v.as_slice())] {
            if bytes == xml {
                continue;
            }
            match self.decode_like(bytes) {
                Ok(d) => ensure_sig!(!compare || d.same(self), "c11:writers-differ", "{} writes a document that parses back to a different message: {}", how, String::from_utf8_lossy(&bytes[..bytes.len().min(600)])),
                Err(e) => return Err(Fail::sig("c11:writers-differ", format!("{} writes a document that does not parse back ({}): {}", how, e, String::from_utf8_lossy(&bytes[..bytes.len().min(600)])))),
            }
        }
        Ok(())
    }

    /// Decodes `bytes` with the decoder belonging to this kind of message.
    pub fn decode_like(&self, bytes: &[u8]) -> Result<Built, String> {
        Ok(match self {
            Built::Prov(_) => Built::Prov(provisioning::Message::decode(bytes).map_err(|e| e.to_string())?),
            Built::Pub(_) => Built::Pub(publication::Message::decode(bytes).map_err(|e| e.to_string())?),
            Built::Child(_) => Built::Child(ChildRequest::parse(bytes).map_err(|e| e.to_string())?),
            Built::Parent(_) => Built::Parent(ParentResponse::parse(bytes).map_err(|e| e.to_string())?),
            Built::Publisher(_) => Built::Publisher(PublisherRequest::parse(bytes).map_err(|e| e.to_string())?),
            Built::Repository(_) => Built::Repository(RepositoryResponse::parse(bytes).map_err(|e| e.to_string())?),
        })
    }

    pub fn same(&self, other: &Built) -> bool {
        match (self, other) {
            (Built::Prov(a), Built::Prov(b)) => a == b,
            (Built::Pub(a), Built::Pub(b)) => a == b,
            (Built::Child(a), Built::Child(b)) => a == b,
            (Built::Parent(a), Built::Parent(b)) => a == b,
            (Built::Publisher(a), Built::Publisher(b)) => a == b,
            (Built::Repository(a), Built::Repository(b)) => a == b,
            _ => false,
        }
    }
}

pub(crate) fn build(m: &Msg) -> Result<Built, Fail> {
    let p = pool::pool();
    let idc = |i: u8| Base64::from_content(&p.idcerts[i as usize % p.idcerts.len()]);
    Ok(match m {
        Msg::Prov(x) => Built::Prov(build_prov(x)?),
        Msg::Pub(x) => Built::Pub(build_pub(x)?),
        Msg::Id(IdMsg::Child { idcert, handle }) => Built::Child(ChildRequest::new(idc(*idcert), h::<ChildHandle>(handle)?)),
        Msg::Id(IdMsg::Parent { idcert, parent, child, service, tag }) => Built::Parent(ParentResponse::new(
            idc(*idcert),
            h::<ParentHandle>(parent)?,
            h::<ChildHandle>(child)?,
            svc(service)?,
            tag.clone(),
        )),
        Msg::Id(IdMsg::Publisher { idcert, handle, tag }) => {
            Built::Publisher(PublisherRequest::new(idc(*idcert), h::<PublisherHandle>(handle)?, tag.clone()))
        }
        Msg::Id(IdMsg::Repository { idcert, handle, service, sia_base, rrdp, tag }) => Built::Repository(RepositoryResponse::new(
            idc(*idcert),
            h::<PublisherHandle>(handle)?,
            svc(service)?,
            rs(sia_base)?,
            match rrdp {
                Some(u) => Some(hs(u)?),
                None => None,
            },
            tag.clone(),
        )),
    })
}

//------------ classification ---------------------------------------------------------------

fn xml_special(s: &str) -> bool {
    s.contains(['<', '>', '&', '\'', '"'])
}

pub(crate) struct Traits {
    pub variant: &'static str,
    pub special: bool,
    pub list2: bool,
    pub tag_none: bool,
    pub empty_content: bool,
}

pub(crate) fn traits(m: &Msg) -> Traits {
    let mut t = Traits { variant: "", special: false, list2: false, tag_none: false, empty_content: false };
    let lim_sp = |_: &LimitSpec| false;
    match m {
        Msg::Prov(p) => {
            let class_sp = |c: &ClassSpec| {
                xml_special(&c.class_name) || xml_special(&c.signing_url) || c.issued.iter().any(|i| xml_special(&i.uri) || lim_sp(&i.limit))
            };
            match &p.payload {
                ProvPayload::List => t.variant = "6492-list",
                ProvPayload::ListResponse(c) => {
                    t.variant = "6492-list-response";
                    t.special = c.iter().any(class_sp);
                    t.list2 = c.len() >= 2 || c.iter().any(|c| c.issued.len() >= 2);
                }
                ProvPayload::Issue { class_name, .. } => {
                    t.variant = "6492-issue";
                    t.special = xml_special(class_name);
                }
                ProvPayload::IssueResponse(c) => {
                    t.variant = "6492-issue-response";
                    t.special = class_sp(c);
                }
                ProvPayload::Revoke { class_name, .. } => {
                    t.variant = "6492-revoke";
                    t.special = xml_special(class_name);
                }
                ProvPayload::RevokeResponse { class_name, .. } => {
                    t.variant = "6492-revoke-response";
                    t.special = xml_special(class_name);
                }
                ProvPayload::Error(_) => t.variant = "6492-error-response",
            }
        }
        Msg::Pub(p) => match p {
            PubMsg::ListQuery => t.variant = "8181-list-query",
            PubMsg::ListReply(e) => {
                t.variant = "8181-list-reply";
                t.special = e.iter().any(|(u, _)| xml_special(u));
                t.list2 = e.len() >= 2;
            }
            PubMsg::Delta(pdus) => {
                t.variant = "8181-delta";
                t.list2 = pdus.len() >= 2;
                for p in pdus {
                    let (tag, uri, data) = match p {
                        PduSpec::Publish { tag, uri, data } => (tag, uri, Some(data)),
                        PduSpec::Update { tag, uri, data, .. } => (tag, uri, Some(data)),
                        PduSpec::Withdraw { tag, uri, .. } => (tag, uri, None),
                    };
                    t.special |= xml_special(uri) || matches!(tag, TagSpec::Some(s) if xml_special(s));
                    t.tag_none |= *tag == TagSpec::None;
                    t.empty_content |= data.map(|d| d.bytes().is_empty()).unwrap_or(false);
                }
            }
            PubMsg::Success => t.variant = "8181-success",
            PubMsg::Error(c) => {
                t.variant = "8181-error-reply";
                t.list2 = c.len() >= 2;
            }
        },
        Msg::Id(i) => {
            let svc_sp = |s: &SvcSpec| match s {
                SvcSpec::Https(u) | SvcSpec::Http(u) => xml_special(u),
            };
            let tag_sp = |t: &Option<String>| t.as_deref().map(xml_special).unwrap_or(false);
            match i {
                IdMsg::Child { .. } => t.variant = "8183-child-request",
                IdMsg::Parent { service, tag, .. } => {
                    t.variant = "8183-parent-response";
                    t.special = svc_sp(service) || tag_sp(tag);
                }
                IdMsg::Publisher { tag, .. } => {
                    t.variant = "8183-publisher-request";
                    t.special = tag_sp(tag);
                }
                IdMsg::Repository { service, sia_base, rrdp, tag, .. } => {
                    t.variant = "8183-repository-response";
                    t.special = svc_sp(service) || tag_sp(tag) || xml_special(sia_base) || rrdp.as_deref().map(xml_special).unwrap_or(false);
                }
            }
        }
    }
    t
}

//------------ roundtrip -----------------------------------------------------------------------

fn strategy(_: Tier) -> BoxedStrategy<Msg> {
    msg()
}

fn run_roundtrip(m: &Msg, obs: &mut Obs) -> CheckResult {
    let t = traits(m);
    obs.label(t.variant);
    obs.label_if(t.special, "special-char");
    obs.label_if(t.list2, "list>=2");
    obs.label_if(t.tag_none, "tag-none");
    obs.label_if(t.empty_content, "empty-content");
    obs.nontrivial_if(t.special || t.list2);
    let built = build(m)?;
    let xml = built.write();
    built.check_writers(&xml, !t.tag_none)?;
    let decoded = match built.decode_like(&xml) {
        Ok(d) => d,
        Err(e) => {
            let sig = if t.empty_content { "publish-empty-content" } else { "roundtrip-decode-failed" };
            return Err(Fail::sig(
                sig,
                format!("{}: the written message does not parse back: {}\n{}", t.variant, e, String::from_utf8_lossy(&xml[..xml.len().min(1500)])),
            ));
        }
    };
    if !t.tag_none {
        ensure_sig!(
            decoded.same(&built),
            "roundtrip-not-equal",
            "{}: decode(write(m)) != m\n{}", t.variant, String::from_utf8_lossy(&xml[..xml.len().min(1500)])
        );
        oracles::compare_fields(m, &decoded)?;
    }
    // The same document as another XML writer might spell it (attribute order, quotes,
    // white space inside tags, <x/> versus <x></x>, comments and white space between
    // elements, character references in attribute values, time stamps with a numeric
    // UTC offset): the parser may refuse a spelling, but what it accepts is this message.
    if !t.tag_none {
        if let Ok(text) = std::str::from_utf8(&xml) {
            let h = xml.iter().fold(0xcbf2_9ce4_8422_2325u64, |h, &b| (h ^ b as u64).wrapping_mul(0x100_0000_01b3));
            for k in 0..3u64 {
                let Some(r) = crate::xmlrespell::respell(text, h.wrapping_add(k)) else {
                    obs.label("respell-not-applicable");
                    break;
                };
                obs.label_if(r.time_offset, "respelled-time-offset");
                match built.decode_like(r.text.as_bytes()) {
                    Err(_) => obs.label("respelled-refused"),
                    Ok(d) => {
                        obs.label("respelled-accepted");
                        obs.label_if(r.time_offset, "respelled-time-offset-accepted");
                        ensure_sig!(
                            d.same(&built),
                            "respelled-parses-differently",
                            "{}: an equivalent spelling of the written document parses to a different message:\n{}\n--- written by the library:\n{}",
                            t.variant, &r.text[..r.text.len().min(1500)], &text[..text.len().min(1500)]
                        );
                    }
                }
            }
        }
    }
    let xml2 = decoded.write();
    ensure_sig!(
        xml2 == xml,
        "write-not-idempotent",
        "{}: write(decode(write(m))) differs from write(m):\n{}\n---\n{}",
        t.variant, String::from_utf8_lossy(&xml[..xml.len().min(800)]), String::from_utf8_lossy(&xml2[..xml2.len().min(800)])
    );
    Ok(())
}

const VARIANT_FLOORS: &[(&str, f64)] = &[
    ("6492-list", 0.02), ("6492-list-response", 0.02), ("6492-issue", 0.02), ("6492-issue-response", 0.02),
    ("6492-revoke", 0.02), ("6492-revoke-response", 0.02), ("6492-error-response", 0.02),
    ("8181-list-query", 0.015), ("8181-list-reply", 0.03), ("8181-delta", 0.05), ("8181-success", 0.015), ("8181-error-reply", 0.015),
    ("8183-child-request", 0.025), ("8183-parent-response", 0.025), ("8183-publisher-request", 0.025), ("8183-repository-response", 0.025),
    ("special-char", 0.25), ("list>=2", 0.1), ("empty-content", 0.02), ("tag-none", 0.02),
    ("respelled-accepted", 0.3), ("respelled-time-offset-accepted", 0.01),
];

pub fn property() -> Property {
    Property {
        id: "C11",
        rule: RULE,
        assumptions: vec![
            "protocol-valid domain: handles match [-_A-Za-z0-9/]{1,255}; class names and tags are ASCII xsd:token values; an RFC 8181 error reply carries at least one report_error; identity certificates are certificates (non-empty)",
            "publication PDUs with tag None are written as tag=\"\" and read back as Some(\"\") (RFC 8181 makes the tag mandatory): compared by write idempotence only",
            "Time values have whole seconds within years 1..=9999; non-canonical Base64 strings injected through serde are not generated",
            "IPv6 resource blocks whose text form contains a dotted quad (::ffff:0:0/96) are not generated: that defect (F16) is decided by C03",
            "Python's expat is the reference for well-formedness; if python3 is unavailable the wellformed sub-check is inconclusive (exit 2)",
        ],
        subs: vec![
            PropSub { name: "roundtrip", strategy, cases: |t| t.pick(360_000, 5_000_000), run: run_roundtrip, floors: VARIANT_FLOORS }.boxed(),
            oracles::probe_sub(),
            oracles::wellformed_sub(),
            oracles::parsers_sub(),
        ],
    }
}
