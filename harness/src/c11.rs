//! C11 — stub (not built yet).

use crate::engine::*;

pub fn property() -> Property {
    Property { id: "C11", rule: "", assumptions: vec![], subs: vec![] }
}
