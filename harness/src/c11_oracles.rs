//! C11 oracles: field-by-field comparison, expat well-formedness with an
//! element/attribute model of what was written, and the parser sub-check.

use super::pool::pool;
use super::*;
use crate::keys::sha256;
use serde_json::Value;
use std::io::Write;
use std::process::{Command, Stdio};

#[path = "xmlmut.rs"]
mod xmlmut;
use xmlmut::{apply, mut_strategy, Mut, Tables};

//------------ small independent encoders -------------------------------------------

fn b64_with(data: &[u8], alphabet: &[u8; 64], pad: bool) -> String {
    let mut out = String::with_capacity(data.len() * 4 / 3 + 4);
    for chunk in data.chunks(3) {
        let b = [chunk[0], *chunk.get(1).unwrap_or(&0), *chunk.get(2).unwrap_or(&0)];
        let n = ((b[0] as u32) << 16) | ((b[1] as u32) << 8) | b[2] as u32;
        out.push(alphabet[(n >> 18) as usize & 63] as char);
        out.push(alphabet[(n >> 12) as usize & 63] as char);
        if chunk.len() > 1 {
            out.push(alphabet[(n >> 6) as usize & 63] as char);
        } else if pad {
            out.push('=');
        }
        if chunk.len() > 2 {
            out.push(alphabet[n as usize & 63] as char);
        } else if pad {
            out.push('=');
        }
    }
    out
}

fn b64(data: &[u8]) -> String {
    b64_with(data, b"ABCDEFGHIJKLMNOPQRSTUVWXYZabcdefghijklmnopqrstuvwxyz0123456789+/", true)
}

fn b64url(data: &[u8]) -> String {
    b64_with(data, b"ABCDEFGHIJKLMNOPQRSTUVWXYZabcdefghijklmnopqrstuvwxyz0123456789-_", false)
}

fn hex(data: &[u8]) -> String {
    data.iter().map(|b| format!("{:02x}", b)).collect()
}

/// The tag a PDU is expected to carry (None: no tag was given).
fn expected_tag(tag: &TagSpec, content: Option<&[u8]>, hash: Option<u64>) -> Option<String> {
    match tag {
        TagSpec::None => None,
        TagSpec::Some(s) => Some(s.clone()),
        TagSpec::HashTag => Some(match content {
            Some(c) => hex(&sha256(c)),
            None => hex(&hash32(hash.unwrap_or(0))),
        }),
    }
}

//------------ field-by-field comparison ------------------------------------------------

fn cert_der(i: u8) -> Vec<u8> {
    let p = pool();
    p.certs[i as usize % p.certs.len()].to_captured().as_slice().to_vec()
}

fn cmp_class(c: &ClassSpec, got: &ResourceClassEntitlements) -> CheckResult {
    ensure!(got.class_name().as_ref() == c.class_name, "class_name {:?} read back as {:?}", c.class_name, got.class_name().as_ref());
    ensure!(got.not_after() == time_of(c.not_after)?, "not_after {} read back as {:?}", c.not_after, got.not_after());
    ensure!(got.signing_cert().url() == &rs(&c.signing_url)?, "signing cert url {} read back as {}", c.signing_url, got.signing_cert().url());
    ensure!(got.signing_cert().cert().to_captured().as_slice() == cert_der(c.signing_cert).as_slice(), "issuer certificate bytes differ");
    ensure!(got.resource_set() == &res_set(&c.res)?, "resource set read back as {}", got.resource_set());
    ensure!(got.issued_certs().len() == c.issued.len(), "{} issued certs read back as {}", c.issued.len(), got.issued_certs().len());
    for (g, e) in got.issued_certs().iter().zip(c.issued.iter()) {
        ensure!(g.uri() == &rs(&e.uri)?, "issued cert url {} read back as {}", e.uri, g.uri());
        ensure!(g.req_limit() == &limit(&e.limit)?, "issued cert request limit read back as {}", g.req_limit());
        ensure!(g.cert().to_captured().as_slice() == cert_der(e.cert).as_slice(), "issued certificate bytes differ");
    }
    Ok(())
}

pub(crate) fn compare_fields(m: &Msg, d: &Built) -> CheckResult {
    match (m, d) {
        (Msg::Prov(p), Built::Prov(g)) => {
            ensure!(g.sender().as_str() == p.sender, "sender {:?} read back as {:?}", p.sender, g.sender().as_str());
            ensure!(g.recipient().as_str() == p.recipient, "recipient {:?} read back as {:?}", p.recipient, g.recipient().as_str());
            match (&p.payload, g.payload()) {
                (ProvPayload::List, Payload::List) => {}
                (ProvPayload::ListResponse(cs), Payload::ListResponse(r)) => {
                    ensure!(r.classes().len() == cs.len(), "{} classes read back as {}", cs.len(), r.classes().len());
                    for (c, gc) in cs.iter().zip(r.classes().iter()) {
                        cmp_class(c, gc)?;
                    }
                }
                (ProvPayload::Issue { class_name, limit: l, csr }, Payload::Issue(r)) => {
                    ensure!(r.class_name().as_ref() == class_name, "class_name {:?} read back as {:?}", class_name, r.class_name().as_ref());
                    ensure!(r.limit() == &limit(l)?, "request limit read back as {}", r.limit());
                    let pl = pool();
                    ensure!(
                        r.csr().to_captured().as_slice() == pl.csrs[*csr as usize % pl.csrs.len()].to_captured().as_slice(),
                        "CSR bytes differ"
                    );
                }
                (ProvPayload::IssueResponse(c), Payload::IssueResponse(r)) => {
                    let i = r.clone().into_issued();
                    ensure!(i.uri() == &rs(&c.issued[0].uri)?, "issued cert url {} read back as {}", c.issued[0].uri, i.uri());
                    ensure!(i.cert().to_captured().as_slice() == cert_der(c.issued[0].cert).as_slice(), "issued certificate bytes differ");
                }
                (ProvPayload::Revoke { class_name, key }, Payload::Revoke(r)) => {
                    ensure!(r.class_name().as_ref() == class_name, "class_name {:?} read back as {:?}", class_name, r.class_name().as_ref());
                    ensure!(r.key() == key_id(*key), "revocation key differs");
                }
                (ProvPayload::RevokeResponse { class_name, key }, Payload::RevokeResponse(r)) => {
                    ensure!(r.class_name().as_ref() == class_name, "class_name {:?} read back as {:?}", class_name, r.class_name().as_ref());
                    ensure!(*r.key() == key_id(*key), "revocation key differs");
                }
                (ProvPayload::Error(i), Payload::ErrorResponse(r)) => {
                    let e = not_performed(*i);
                    ensure!(r.status() == e.status() && r.description() == e.description(), "not-performed response {:?} read back as {:?}", e, r);
                }
                (s, _) => return Err(Fail::new(format!("payload kind changed: wrote {:?}", s))),
            }
        }
        (Msg::Pub(p), Built::Pub(g)) => match (p, g) {
            (PubMsg::ListQuery, publication::Message::Query(Query::List)) => {}
            (PubMsg::Success, publication::Message::Reply(Reply::Success)) => {}
            (PubMsg::ListReply(els), publication::Message::Reply(Reply::List(r))) => {
                ensure!(r.elements().len() == els.len(), "{} list elements read back as {}", els.len(), r.elements().len());
                for ((u, hsh), ge) in els.iter().zip(r.elements().iter()) {
                    ensure!(ge.uri() == &rs(u)? && ge.hash().as_slice() == hash32(*hsh), "list element {} read back as {}", u, ge.uri());
                }
            }
            (PubMsg::Delta(pdus), publication::Message::Query(Query::Delta(dl))) => {
                let got = dl.clone().into_elements();
                ensure!(got.len() == pdus.len(), "{} PDUs read back as {}", pdus.len(), got.len());
                for (e, ge) in pdus.iter().zip(got.iter()) {
                    match (e, ge) {
                        (PduSpec::Publish { tag, uri, data }, PublishDeltaElement::Publish(x)) => {
                            let c = data.bytes();
                            ensure!(x.tag().cloned() == expected_tag(tag, Some(&c), None), "publish tag {:?} read back as {:?}", tag, x.tag());
                            ensure!(x.uri() == &rs(uri)?, "publish uri {} read back as {}", uri, x.uri());
                            ensure!(x.content().to_bytes().as_ref() == c.as_slice(), "publish content differs");
                        }
                        (PduSpec::Update { tag, uri, data, hash }, PublishDeltaElement::Update(x)) => {
                            let c = data.bytes();
                            ensure!(x.tag().cloned() == expected_tag(tag, Some(&c), None), "update tag {:?} read back as {:?}", tag, x.tag());
                            ensure!(x.uri() == &rs(uri)?, "update uri {} read back as {}", uri, x.uri());
                            ensure!(x.content().to_bytes().as_ref() == c.as_slice(), "update content differs");
                            ensure!(x.hash().as_slice() == hash32(*hash), "update hash differs");
                        }
                        (PduSpec::Withdraw { tag, uri, hash }, PublishDeltaElement::Withdraw(x)) => {
                            ensure!(x.tag().cloned() == expected_tag(tag, None, Some(*hash)), "withdraw tag {:?} read back as {:?}", tag, x.tag());
                            ensure!(x.uri() == &rs(uri)?, "withdraw uri {} read back as {}", uri, x.uri());
                            ensure!(x.hash().as_slice() == hash32(*hash), "withdraw hash differs");
                        }
                        (e, ge) => return Err(Fail::new(format!("PDU kind changed: wrote {:?}, read {:?}", e, ge))),
                    }
                }
            }
            (PubMsg::Error(codes), publication::Message::Reply(Reply::ErrorReply(r))) => {
                ensure!(r.errors().len() == codes.len(), "{} error reports read back as {}", codes.len(), r.errors().len());
            }
            (s, g) => return Err(Fail::new(format!("message kind changed: wrote {:?}, read {:?}", s, g))),
        },
        (Msg::Id(i), g) => {
            let idc = |n: u8| {
                let p = pool();
                p.idcerts[n as usize % p.idcerts.len()].clone()
            };
            let svc_str = |s: &SvcSpec| match s {
                SvcSpec::Https(u) | SvcSpec::Http(u) => u.clone(),
            };
            match (i, g) {
                (IdMsg::Child { idcert, handle }, Built::Child(x)) => {
                    ensure!(x.child_handle().as_str() == handle, "child_handle {:?} read back as {:?}", handle, x.child_handle().as_str());
                    ensure!(x.id_cert().to_bytes().as_ref() == idc(*idcert).as_slice(), "identity certificate differs");
                    ensure!(x.tag().is_none(), "a tag appeared");
                }
                (IdMsg::Parent { idcert, parent, child, service, tag }, Built::Parent(x)) => {
                    ensure!(x.parent_handle().as_str() == parent && x.child_handle().as_str() == child, "handles read back as {:?}/{:?}", x.parent_handle().as_str(), x.child_handle().as_str());
                    ensure!(x.service_uri().as_str() == svc_str(service), "service_uri {:?} read back as {:?}", svc_str(service), x.service_uri().as_str());
                    ensure!(x.tag() == tag.as_ref(), "tag {:?} read back as {:?}", tag, x.tag());
                    ensure!(x.id_cert().to_bytes().as_ref() == idc(*idcert).as_slice(), "identity certificate differs");
                }
                (IdMsg::Publisher { idcert, handle, tag }, Built::Publisher(x)) => {
                    ensure!(x.publisher_handle().as_str() == handle, "publisher_handle {:?} read back as {:?}", handle, x.publisher_handle().as_str());
                    ensure!(x.tag() == tag.as_ref(), "tag {:?} read back as {:?}", tag, x.tag());
                    ensure!(x.id_cert().to_bytes().as_ref() == idc(*idcert).as_slice(), "identity certificate differs");
                }
                (IdMsg::Repository { idcert, handle, service, sia_base, rrdp, tag }, Built::Repository(x)) => {
                    ensure!(x.publisher_handle().as_str() == handle, "publisher_handle {:?} read back as {:?}", handle, x.publisher_handle().as_str());
                    ensure!(x.service_uri().as_str() == svc_str(service), "service_uri {:?} read back as {:?}", svc_str(service), x.service_uri().as_str());
                    ensure!(x.sia_base() == &rs(sia_base)?, "sia_base {} read back as {}", sia_base, x.sia_base());
                    match (rrdp, x.rrdp_notification_uri()) {
                        (None, None) => {}
                        (Some(u), Some(gu)) => ensure!(gu == &hs(u)?, "rrdp_notification_uri {} read back as {}", u, gu),
                        (a, b) => return Err(Fail::new(format!("rrdp_notification_uri {:?} read back as {:?}", a, b))),
                    }
                    ensure!(x.tag() == tag.as_ref(), "tag {:?} read back as {:?}", tag, x.tag());
                    ensure!(x.id_cert().to_bytes().as_ref() == idc(*idcert).as_slice(), "identity certificate differs");
                }
                _ => return Err(Fail::new("message kind changed")),
            }
        }
        _ => return Err(Fail::new("message family changed")),
    }
    Ok(())
}

//------------ model of the written document ------------------------------------------------

#[derive(Debug)]
struct ExpEl {
    name: &'static str,
    /// None: present, value not compared
    attrs: Vec<(&'static str, Option<String>)>,
    /// character data directly inside the element, white space removed
    text: Option<String>,
}

fn el(name: &'static str, attrs: Vec<(&'static str, Option<String>)>, text: Option<String>) -> ExpEl {
    ExpEl { name, attrs, text }
}

fn limit_attrs(l: &LimitSpec, attrs: &mut Vec<(&'static str, Option<String>)>) {
    if l.asn.is_some() {
        attrs.push(("req_resource_set_as", None));
    }
    if l.v4.is_some() {
        attrs.push(("req_resource_set_ipv4", None));
    }
    if l.v6.is_some() {
        attrs.push(("req_resource_set_ipv6", None));
    }
}

fn class_els(c: &ClassSpec, out: &mut Vec<ExpEl>) {
    out.push(el(
        "class",
        vec![
            ("class_name", Some(c.class_name.clone())),
            ("cert_url", Some(c.signing_url.clone())),
            ("resource_set_as", None),
            ("resource_set_ipv4", None),
            ("resource_set_ipv6", None),
            ("resource_set_notafter", None),
        ],
        Some(String::new()),
    ));
    for i in &c.issued {
        let mut attrs = vec![("cert_url", Some(i.uri.clone()))];
        limit_attrs(&i.limit, &mut attrs);
        out.push(el("certificate", attrs, Some(b64(&cert_der(i.cert)))));
    }
    out.push(el("issuer", vec![], Some(b64(&cert_der(c.signing_cert)))));
}

fn squeeze(s: &str) -> String {
    s.split_whitespace().collect()
}

fn expected(m: &Msg) -> Vec<ExpEl> {
    let s = |x: &str| Some(x.to_string());
    let mut out = Vec::new();
    match m {
        Msg::Prov(p) => {
            let ty = match &p.payload {
                ProvPayload::List => "list",
                ProvPayload::ListResponse(_) => "list_response",
                ProvPayload::Issue { .. } => "issue",
                ProvPayload::IssueResponse(_) => "issue_response",
                ProvPayload::Revoke { .. } => "revoke",
                ProvPayload::RevokeResponse { .. } => "revoke_response",
                ProvPayload::Error(_) => "error_response",
            };
            out.push(el(
                "message",
                vec![
                    ("xmlns", s("http://www.apnic.net/specs/rescerts/up-down/")),
                    ("version", s("1")),
                    ("sender", s(&p.sender)),
                    ("recipient", s(&p.recipient)),
                    ("type", s(ty)),
                ],
                Some(String::new()),
            ));
            match &p.payload {
                ProvPayload::List => {}
                ProvPayload::ListResponse(cs) => {
                    for c in cs {
                        class_els(c, &mut out);
                    }
                }
                ProvPayload::Issue { class_name, limit: l, csr } => {
                    let mut attrs = vec![("class_name", s(class_name))];
                    limit_attrs(l, &mut attrs);
                    let pl = pool();
                    out.push(el("request", attrs, Some(b64(pl.csrs[*csr as usize % pl.csrs.len()].to_captured().as_slice()))));
                }
                ProvPayload::IssueResponse(c) => class_els(c, &mut out),
                ProvPayload::Revoke { class_name, key } | ProvPayload::RevokeResponse { class_name, key } => {
                    out.push(el("key", vec![("class_name", s(class_name)), ("ski", Some(b64url(key_id(*key).as_slice())))], Some(String::new())));
                }
                ProvPayload::Error(i) => {
                    let e = not_performed(*i);
                    out.push(el("status", vec![], Some(e.status().to_string())));
                    out.push(el("description", vec![], e.description().map(|d| squeeze(d))));
                }
            }
        }
        Msg::Pub(p) => {
            let ty = match p {
                PubMsg::ListQuery | PubMsg::Delta(_) => "query",
                _ => "reply",
            };
            out.push(el(
                "msg",
                vec![("xmlns", s("http://www.hactrn.net/uris/rpki/publication-spec/")), ("version", s("4")), ("type", s(ty))],
                Some(String::new()),
            ));
            match p {
                PubMsg::ListQuery => out.push(el("list", vec![], Some(String::new()))),
                PubMsg::Success => out.push(el("success", vec![], Some(String::new()))),
                PubMsg::ListReply(els) => {
                    for (u, hsh) in els {
                        out.push(el("list", vec![("uri", s(u)), ("hash", Some(hex(&hash32(*hsh))))], Some(String::new())));
                    }
                }
                PubMsg::Delta(pdus) => {
                    for p in pdus {
                        match p {
                            PduSpec::Publish { tag, uri, data } => {
                                let c = data.bytes();
                                out.push(el(
                                    "publish",
                                    vec![("tag", Some(expected_tag(tag, Some(&c), None).unwrap_or_default())), ("uri", s(uri))],
                                    Some(b64(&c)),
                                ));
                            }
                            PduSpec::Update { tag, uri, data, hash } => {
                                let c = data.bytes();
                                out.push(el(
                                    "publish",
                                    vec![
                                        ("tag", Some(expected_tag(tag, Some(&c), None).unwrap_or_default())),
                                        ("uri", s(uri)),
                                        ("hash", Some(hex(&hash32(*hash)))),
                                    ],
                                    Some(b64(&c)),
                                ));
                            }
                            PduSpec::Withdraw { tag, uri, hash } => out.push(el(
                                "withdraw",
                                vec![
                                    ("tag", Some(expected_tag(tag, None, Some(*hash)).unwrap_or_default())),
                                    ("uri", s(uri)),
                                    ("hash", Some(hex(&hash32(*hash)))),
                                ],
                                Some(String::new()),
                            )),
                        }
                    }
                }
                PubMsg::Error(codes) => {
                    for c in codes {
                        out.push(el("report_error", vec![("error_code", Some(error_code(*c).to_string()))], Some(String::new())));
                        out.push(el("error_text", vec![], None));
                    }
                }
            }
        }
        Msg::Id(i) => {
            let ns = s("http://www.hactrn.net/uris/rpki/rpki-setup/");
            let idc = |n: u8| {
                let p = pool();
                Some(b64(&p.idcerts[n as usize % p.idcerts.len()]))
            };
            let svc_str = |x: &SvcSpec| match x {
                SvcSpec::Https(u) | SvcSpec::Http(u) => Some(u.clone()),
            };
            match i {
                IdMsg::Child { idcert, handle } => {
                    out.push(el("child_request", vec![("xmlns", ns), ("version", s("1")), ("child_handle", s(handle))], Some(String::new())));
                    out.push(el("child_bpki_ta", vec![], idc(*idcert)));
                }
                IdMsg::Parent { idcert, parent, child, service, tag } => {
                    let mut a = vec![("xmlns", ns), ("version", s("1")), ("parent_handle", s(parent)), ("child_handle", s(child)), ("service_uri", svc_str(service))];
                    if let Some(t) = tag {
                        a.push(("tag", s(t)));
                    }
                    out.push(el("parent_response", a, Some(String::new())));
                    out.push(el("parent_bpki_ta", vec![], idc(*idcert)));
                }
                IdMsg::Publisher { idcert, handle, tag } => {
                    let mut a = vec![("xmlns", ns), ("version", s("1")), ("publisher_handle", s(handle))];
                    if let Some(t) = tag {
                        a.push(("tag", s(t)));
                    }
                    out.push(el("publisher_request", a, Some(String::new())));
                    out.push(el("publisher_bpki_ta", vec![], idc(*idcert)));
                }
                IdMsg::Repository { idcert, handle, service, sia_base, rrdp, tag } => {
                    let mut a = vec![("xmlns", ns), ("version", s("1")), ("publisher_handle", s(handle)), ("service_uri", svc_str(service)), ("sia_base", s(sia_base))];
                    if let Some(u) = rrdp {
                        a.push(("rrdp_notification_uri", s(u)));
                    }
                    if let Some(t) = tag {
                        a.push(("tag", s(t)));
                    }
                    out.push(el("repository_response", a, Some(String::new())));
                    out.push(el("repository_bpki_ta", vec![], idc(*idcert)));
                }
            }
        }
    }
    out
}

fn compare_with_model(m: &Msg, got: &Value) -> Result<(), String> {
    let exp = expected(m);
    let els = got["els"].as_array().ok_or("no element list in the oracle's answer")?;
    if els.len() != exp.len() {
        return Err(format!(
            "expat sees {} elements ({:?}...), {} were written",
            els.len(),
            els.iter().take(6).map(|e| e[0].as_str().unwrap_or("?").to_string()).collect::<Vec<_>>(),
            exp.len()
        ));
    }
    for (i, (g, e)) in els.iter().zip(exp.iter()).enumerate() {
        let name = g[0].as_str().unwrap_or("?");
        if name != e.name {
            return Err(format!("element #{} is <{}>, <{}> was written", i, name, e.name));
        }
        let ga = g[1].as_array().ok_or("attributes missing")?;
        if ga.len() != e.attrs.len() * 2 {
            return Err(format!("<{}> (#{}): expat sees attributes {:?}, written were {:?}", name, i, ga, e.attrs.iter().map(|a| a.0).collect::<Vec<_>>()));
        }
        for (j, (k, v)) in e.attrs.iter().enumerate() {
            let gk = ga[2 * j].as_str().unwrap_or("?");
            let gv = ga[2 * j + 1].as_str().unwrap_or("?");
            if gk != *k {
                return Err(format!("<{}> (#{}): attribute #{} is {:?}, written was {:?}", name, i, j, gk, k));
            }
            if let Some(v) = v {
                if gv != v {
                    return Err(format!("<{}> (#{}) attribute {}: expat sees {:?}, the field value is {:?}", name, i, k, gv, v));
                }
            }
        }
        if let Some(t) = &e.text {
            let gt = g[2].as_str().unwrap_or("?");
            if gt != t {
                let cut = |s: &str| s.chars().take(60).collect::<String>();
                return Err(format!("<{}> (#{}): expat sees text {:?}.. ({} chars), written was {:?}.. ({} chars)", name, i, cut(gt), gt.len(), cut(t), t.len()));
            }
        }
    }
    Ok(())
}

//------------ expat runner ----------------------------------------------------------------------

fn verif_dir() -> String {
    std::env::var("VERIF_DIR").unwrap_or_else(|_| "/verif".into())
}

/// The real interpreter behind `python3` (avoids shell shims on every call).
fn python() -> &'static str {
    static PY: std::sync::OnceLock<String> = std::sync::OnceLock::new();
    PY.get_or_init(|| {
        Command::new("python3")
            .args(["-c", "import sys; print(sys.executable)"])
            .stderr(Stdio::null())
            .output()
            .ok()
            .filter(|o| o.status.success())
            .map(|o| String::from_utf8_lossy(&o.stdout).trim().to_string())
            .filter(|p| !p.is_empty())
            .unwrap_or_else(|| "python3".to_string())
    })
}

/// Ok(None): the oracle is not available.
fn run_expat(docs: &[Vec<u8>]) -> Result<Option<Vec<Value>>, Fail> {
    let script = format!("{}/tools/xmlwf.py", verif_dir());
    if !std::path::Path::new(&script).exists() {
        return Ok(None);
    }
    let child = Command::new(python()).arg(&script).stdin(Stdio::piped()).stdout(Stdio::piped()).stderr(Stdio::null()).spawn();
    let mut child = match child {
        Ok(c) => c,
        Err(_) => return Ok(None),
    };
    let mut stdin = child.stdin.take().expect("piped stdin");
    let mut input = String::new();
    for d in docs {
        const HEX: &[u8; 16] = b"0123456789abcdef";
        input.reserve(d.len() * 2 + 1);
        for b in d {
            input.push(HEX[(b >> 4) as usize] as char);
            input.push(HEX[(b & 15) as usize] as char);
        }
        input.push('\n');
    }
    let out = std::thread::scope(|sc| {
        sc.spawn(move || {
            let _ = stdin.write_all(input.as_bytes());
            drop(stdin);
        });
        child.wait_with_output()
    });
    let out = match out {
        Ok(o) if o.status.success() => o,
        _ => return Ok(None),
    };
    let text = String::from_utf8_lossy(&out.stdout);
    let mut res = Vec::new();
    for line in text.lines() {
        match serde_json::from_str::<Value>(line) {
            Ok(v) => res.push(v),
            Err(_) => return Ok(None),
        }
    }
    if res.len() != docs.len() {
        return Ok(None);
    }
    Ok(Some(res))
}

#[derive(Clone, Debug, Serialize, Deserialize)]
pub struct Batch {
    pub msgs: Vec<Msg>,
}

const BATCH: usize = 200;

/// The batch with index `idx`: BATCH messages drawn from the message strategy
/// with a generator seeded from (seed, idx). No shrinking happens in this
/// sub-check (every evaluation costs an oracle process); a failure is narrowed
/// to the single offending message instead.
fn make_batch(_: Tier, seed: u64, idx: u64) -> Batch {
    use proptest::strategy::ValueTree;
    use proptest::test_runner::{Config, RngAlgorithm, TestRng, TestRunner};
    let rng = TestRng::from_seed(RngAlgorithm::ChaCha, &derive_seed(seed, "C11", "wellformed", idx));
    let mut runner = TestRunner::new_with_rng(Config::default(), rng);
    let strat = msg();
    let mut msgs = Vec::with_capacity(BATCH);
    for _ in 0..BATCH {
        msgs.push(strat.new_tree(&mut runner).expect("message strategy never rejects").current());
    }
    Batch { msgs }
}

fn run_batch(b: &Batch, obs: &mut Obs) -> CheckResult {
    let mut docs = Vec::with_capacity(b.msgs.len());
    for m in &b.msgs {
        docs.push(build(m)?.write());
    }
    let Some(answers) = run_expat(&docs)? else {
        // no verdict; the `expat-available` sub-check makes the run inconclusive
        obs.label("expat-unavailable");
        return Ok(());
    };
    obs.label("expat-ran");
    obs.evals(b.msgs.len().saturating_sub(1) as u64);
    obs.bulk_nontrivial = b.msgs.len() as u64;
    for ((m, doc), a) in b.msgs.iter().zip(docs.iter()).zip(answers.iter()) {
        let t = traits(m);
        let show = || String::from_utf8_lossy(&doc[..doc.len().min(1200)]).to_string();
        let single = || serde_json::json!({ "msgs": [m] });
        if a["ok"].as_bool() != Some(true) {
            return Err(Fail::sig(
                "not-well-formed",
                format!("{}: the written message is not well-formed XML according to expat: {}\n{}", t.variant, a["err"].as_str().unwrap_or("?"), show()),
            )
            .with_case(single()));
        }
        if let Err(e) = compare_with_model(m, a) {
            return Err(Fail::sig("expat-view-differs", format!("{}: {}\n{}", t.variant, e, show())).with_case(single()));
        }
    }
    Ok(())
}

pub(crate) fn wellformed_sub() -> Box<dyn SubCheck> {
    EnumSub { name: "wellformed", count: |t, _| t.pick(150, 4_000), make: make_batch, run: run_batch, exhaustive: false }.boxed()
}

/// One probe document through the oracle: if python3 / expat / the helper
/// script are missing the run is inconclusive (floor on `expat-ran`), never a
/// pass.
fn run_probe(_: &u8, obs: &mut Obs) -> CheckResult {
    let good = b"<a b=\"&amp;\">x</a>".to_vec();
    let bad = b"<a b=\"&\">x</a>".to_vec();
    match run_expat(&[good, bad])? {
        Some(a) if a[0]["ok"].as_bool() == Some(true) && a[1]["ok"].as_bool() == Some(false) && a[0]["els"][0][1][1].as_str() == Some("&") => {
            obs.label("expat-ran");
            obs.nontrivial();
        }
        Some(a) => return Err(Fail::new(format!("the expat helper gives unexpected answers on the probe documents: {:?}", a))),
        None => obs.label("expat-unavailable"),
    }
    Ok(())
}

pub(crate) fn probe_sub() -> Box<dyn SubCheck> {
    PropSub { name: "expat-available", strategy: |_| Just(0u8).boxed(), cases: |_| 1, run: run_probe, floors: &[("expat-ran", 1.0)] }.boxed()
}

//------------ parsers on arbitrary and mutated bytes ------------------------------------------------

static TEST_DATA: [&[u8]; 23] = [
    include_bytes!("/repo/test-data/ca/rfc8181/error-reply.xml"),
    include_bytes!("/repo/test-data/ca/rfc8181/list-reply-empty-short.xml"),
    include_bytes!("/repo/test-data/ca/rfc8181/list-reply-empty.xml"),
    include_bytes!("/repo/test-data/ca/rfc8181/list-reply-single.xml"),
    include_bytes!("/repo/test-data/ca/rfc8181/list-reply.xml"),
    include_bytes!("/repo/test-data/ca/rfc8181/list.xml"),
    include_bytes!("/repo/test-data/ca/rfc8181/publish-empty-short.xml"),
    include_bytes!("/repo/test-data/ca/rfc8181/publish-empty.xml"),
    include_bytes!("/repo/test-data/ca/rfc8181/publish-multi.xml"),
    include_bytes!("/repo/test-data/ca/rfc8181/publish-single.xml"),
    include_bytes!("/repo/test-data/ca/rfc8181/success-reply.xml"),
    include_bytes!("/repo/test-data/ca/rfc8183/afrinic-parent-response.xml"),
    include_bytes!("/repo/test-data/ca/rfc8183/apnic-parent-response.xml"),
    include_bytes!("/repo/test-data/ca/rfc8183/apnic-repository-response.xml"),
    include_bytes!("/repo/test-data/ca/rfc8183/krill-0-9-parent-response.xml"),
    include_bytes!("/repo/test-data/ca/rfc8183/krill-0-9-repository-response.xml"),
    include_bytes!("/repo/test-data/ca/rfc8183/rpkid-child-id.xml"),
    include_bytes!("/repo/test-data/ca/rfc8183/rpkid-parent-response-offer.xml"),
    include_bytes!("/repo/test-data/ca/rfc8183/rpkid-parent-response-referral.xml"),
    include_bytes!("/repo/test-data/ca/rfc8183/rpkid-publisher-request.xml"),
    include_bytes!("/repo/test-data/ca/rfc6492/not-performed-response.xml"),
    include_bytes!("/repo/test-data/ca/rfc6492/revoke-req.xml"),
    include_bytes!("/repo/test-data/ca/rfc6492/revoke-response.xml"),
];

const DICT: &[&[u8]] = &[
    b"<!--", b"-->", b"<!-- c -->", b"<![CDATA[", b"]]>", b"<?xml version=\"1.0\"?>", b"<?pi x?>",
    b"<!DOCTYPE x [<!ENTITY a \"b\">]>", b"&amp;", b"&lt;", b"&#x41;", b"&#0;", b"&a;", b"&", b";", b" xmlns=\"\"",
    b" xmlns:a=\"b\"", b" a:b=\"c\"", b" xml:lang=\"en-US\"", b"\0", b"\xef\xbb\xbf", b"\xff\xfe", b"\xc3\xa9", b"\xc0\x80",
    b"\"", b"'", b"=", b"<", b">", b"/>", b"</", b"/", b" ", b"\n", b"====", b"QQ", b"Q", b"QUJD", b"!",
    b" type=\"query\"", b" type=\"reply\"", b" type=\"list\"", b" type=\"list_response\"", b" type=\"issue\"",
    b" type=\"issue_response\"", b" type=\"revoke\"", b" type=\"revoke_response\"", b" type=\"error_response\"",
    b" version=\"1\"", b" version=\"4\"", b" version=\"\"", b"<list/>", b"<list uri=\"rsync://h/m/x\" hash=\"00\"/>",
    b"<success/>", b"<publish", b"</publish>", b"<withdraw", b"<publish tag=\"\" uri=\"rsync://h/m/x\"></publish>",
    b"<publish tag=\"t\" uri=\"rsync://h/m/x\">QUJD</publish>", b"<report_error error_code=\"other_error\">",
    b"<report_error error_code=\"x\"/>", b"</report_error>", b"<failed_pdu>", b"</failed_pdu>", b"<error_text>", b"</error_text>",
    b"<error_text/>", b" tag=\"\"", b" hash=\"00\"", b" hash=\"\"", b" uri=\"\"", b" uri=\"rsync://h/m\"",
    b"<class", b"</class>", b"<certificate", b"<issuer>", b"<issuer/>", b"</issuer>", b"<request", b"<key", b"<status>", b"<status/>",
    b"<status>18446744073709551616</status>", b"<description xml:lang=\"en-US\">", b"<description/>",
    b" class_name=\"\"", b" cert_url=\"rsync://h/m/c.cer\"", b" resource_set_as=\"\"", b" resource_set_as=\"4294967295-0\"",
    b" resource_set_ipv4=\"0.0.0.0/33\"", b" resource_set_ipv6=\"::/0\"", b" resource_set_notafter=\"2020-01-01T00:00:00Z\"",
    b" resource_set_notafter=\"+262143-01-01T00:00:00Z\"", b" req_resource_set_as=\"\"", b" ski=\"AAAA\"", b" ski=\"\"",
    b" sender=\"a\"", b" recipient=\"\"", b" child_handle=\"a\"", b" parent_handle=\"\"", b" publisher_handle=\"a/b\"",
    b" service_uri=\"http://\"", b" service_uri=\"https://\"", b" sia_base=\"rsync://h/m/\"", b" rrdp_notification_uri=\"https://h/n.xml\"",
    b"<referral", b"<offer/>", b"<parent_bpki_ta>", b"<child_bpki_ta/>", b"<repository_bpki_ta>", b"</parent_bpki_ta>",
];

const REPLACE: &[(&[u8], &[u8])] = &[
    (b"\"", b"'"),
    (b"publish", b"withdraw"),
    (b"withdraw", b"publish"),
    (b"\n", b""),
    (b" ", b"\n\t "),
    (b"/>", b">"),
    (b"query", b"reply"),
    (b"reply", b"query"),
    (b"=", b" = "),
    (b"A", b"&#x41;"),
    (b"<", b"<x:"),
    (b"list", b"success"),
    (b"certificate", b"issuer"),
    (b"parent_response", b"repository_response"),
    (b"child_request", b"publisher_request"),
];

const OPENS: &[&[u8]] = &[b"<a>", b"<publish>", b"<a ", b"<!--", b"<![CDATA[", b"<failed_pdu>", b"<class>", b"<report_error error_code=\"other_error\">"];
const TABLES: Tables = Tables { dict: DICT, replace: REPLACE, opens: OPENS };

#[derive(Clone, Debug, Serialize, Deserialize)]
pub enum PBase {
    Written(Msg),
    Test(u8),
    Raw(Vec<u8>),
}

#[derive(Clone, Debug, Serialize, Deserialize)]
pub struct ParseCase {
    pub base: PBase,
    pub muts: Vec<Mut>,
}

fn parse_strategy(_: Tier) -> BoxedStrategy<ParseCase> {
    let base = prop_oneof![
        6 => msg().prop_map(PBase::Written),
        5 => (0u8..TEST_DATA.len() as u8).prop_map(PBase::Test),
        1 => prop::collection::vec(any::<u8>(), 0..200).prop_map(PBase::Raw),
        1 => prop::collection::vec(prop::sample::select(b"<>/=\"' aAxmlns:&;#!-[]?\n".to_vec()), 0..200).prop_map(PBase::Raw),
    ];
    (base, prop_oneof![1 => Just(vec![]), 7 => prop::collection::vec(mut_strategy(), 1..4), 1 => prop::collection::vec(mut_strategy(), 4..7)])
        .prop_map(|(base, muts)| ParseCase { base, muts })
        .boxed()
}

fn run_parse(c: &ParseCase, obs: &mut Obs) -> CheckResult {
    let mut doc = match &c.base {
        PBase::Written(m) => build(m)?.write(),
        PBase::Test(i) => TEST_DATA[*i as usize % TEST_DATA.len()].to_vec(),
        PBase::Raw(v) => v.clone(),
    };
    for m in &c.muts {
        apply(&mut doc, m, &TABLES);
    }
    let mut oks = 0;
    if let Ok(m) = provisioning::Message::decode(doc.as_slice()) {
        oks += 1;
        obs.label("ok-6492");
        let _ = (m.sender().as_str().len(), m.recipient().as_str().len(), m.is_list_response(), m.payload().payload_type().to_string());
        let _ = m.to_xml_bytes();
    }
    if let Ok(m) = publication::Message::decode(doc.as_slice()) {
        oks += 1;
        obs.label("ok-8181");
        let _ = m.to_xml_string();
        match m {
            publication::Message::Query(Query::Delta(d)) => {
                for e in d.into_elements() {
                    match e {
                        PublishDeltaElement::Publish(p) => {
                            let _ = (p.content().to_bytes().len(), p.content().to_hash(), p.content().size_approx());
                        }
                        PublishDeltaElement::Update(p) => {
                            let _ = (p.content().to_bytes().len(), p.content().to_hash());
                        }
                        PublishDeltaElement::Withdraw(_) => {}
                    }
                }
            }
            publication::Message::Reply(Reply::ErrorReply(e)) => {
                let _ = e.to_string();
            }
            _ => {}
        }
    }
    if let Ok(m) = ChildRequest::parse(doc.as_slice()) {
        oks += 1;
        obs.label("ok-8183");
        let _ = (m.to_xml_string(), m.id_cert().to_bytes().len());
    }
    if let Ok(m) = ParentResponse::parse(doc.as_slice()) {
        oks += 1;
        obs.label("ok-8183");
        let _ = (m.to_xml_string(), m.id_cert().to_bytes().len(), m.service_uri().as_str().len());
    }
    if let Ok(m) = PublisherRequest::parse(doc.as_slice()) {
        oks += 1;
        obs.label("ok-8183");
        let _ = (m.to_xml_string(), m.id_cert().to_bytes().len());
    }
    if let Ok(m) = RepositoryResponse::parse(doc.as_slice()) {
        oks += 1;
        obs.label("ok-8183");
        let _ = (m.to_xml_string(), m.id_cert().to_bytes().len(), m.repo_info().base_uri().as_str().len());
    }
    if oks == 0 {
        obs.label("all-err");
        obs.nontrivial();
    } else {
        obs.label("some-ok");
        obs.nontrivial_if(!c.muts.is_empty());
        obs.label_if(!c.muts.is_empty(), "ok-after-mutation");
    }
    Ok(())
}

pub(crate) fn parsers_sub() -> Box<dyn SubCheck> {
    PropSub {
        name: "parsers",
        strategy: parse_strategy,
        cases: |t| t.pick(150_000, 4_000_000),
        run: run_parse,
        floors: &[("all-err", 0.2), ("some-ok", 0.08), ("ok-after-mutation", 0.02), ("ok-6492", 0.01), ("ok-8181", 0.02), ("ok-8183", 0.02)],
    }
    .boxed()
}
