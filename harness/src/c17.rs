//! C17 — stub (not built yet).

use crate::engine::*;

pub fn property() -> Property {
    Property { id: "C17", rule: "", assumptions: vec![], subs: vec![] }
}
