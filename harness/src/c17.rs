//! C17 — X.509 times, validity windows and serial numbers mean what the
//! calendar / the integers say.
//!
//! The harness carries its own proleptic-Gregorian calendar
//! (days-from-civil), its own renderer of the two ASN.1 time forms, its own
//! big-number arithmetic (5 x u32 limbs) and its own DER INTEGER writer; the
//! library is compared against those.

use crate::engine::*;
use crate::gen::pick_idx;
use bcder::encode::{PrimitiveContent, Values};
use bcder::Mode;
use chrono::{Datelike, TimeZone, Timelike, Utc};
use proptest::prelude::*;
use rpki::repository::x509::{Serial, Time, Validity};
use serde::{Deserialize, Serialize};
use serde_json::json;
use std::cmp::Ordering;
use std::hash::{Hash, Hasher};
use std::str::FromStr;

pub const RULE: &str = "days: complete sweep of every calendar day 0001-01-01..9999-12-31 x seconds-of-day {0, 43200, 86399} \
(plus 1 and 86398 on 31 Dec / 1 Jan), built both from the harness calendar's civil fields and from its timestamp; oracle = \
independent days-from-civil calendar and renderer: encode_varied bytes == reference (UTCTime tag iff 1950<=year<=2049), \
explicit UTCTime/GeneralizedTime forms, take_from and take_opt_from decode back to the instant; non-trivial = instant \
within 1 s of a day boundary. seconds: every second of 12 (quick) / 400 (thorough) days (the 1950/2050 switch days, a leap \
day, first and last day, seed-derived days). strings: for 20 valid UTCTime and 20 valid GeneralizedTime base strings the \
base, all single substitutions over {0-9 + - . : SPACE Z z / NUL A 0xB0 0xFF}, all deletions, insertions, wrong and swapped \
tags, and all double substitutions over {0-9 + - . : SPACE Z z} and all triple substitutions on 4 (quick) / all 40 (thorough) bases; oracle \
three-valued: must-accept (fixed width, all digits, Z, real date/time, second<=59, year>=1) => instant equals the calendar \
model with pivot 50; must-reject (wrong tag/width, non-digit, no Z, month 0/13+, day 0/past month end, hour>=24, \
minute>=60, second>=61); don't-care (year 0000, second 60); non-trivial = candidate differing from its base. validity-now: Validity::verify() (evaluation time = the clock) on windows placed relative to an instant read just before the call: comfortably inside, \
ended 1 ns .. 1 s before (also within the running clock second), starting 1 ns .. 1.3 s later (decided by a second clock reading after the call, skipped if the clock got there first), long expired, future; \
validity-subsecond: random windows \
and evaluation times at nanosecond resolution placed 0, +-1 ns, +-1 ms, +-0.5 s, +-0.999999999 s, +-1 s around either end \
(Time::now() has a sub-second part), oracle = lexicographic (seconds, nanoseconds) comparison. validity: \
complete enumeration of (not-before, not-after) x now and x second window over a boundary-dense instant set (year 1, \
1949/1950, 1970, 2038, 2049/2050, 9999 ends, neighbours at 1 s, seed-derived); oracle = integer comparison nb<=now<=na, \
trim = (max, min) and pointwise intersection at the window edges, Validity DER round trip against the reference writer; \
non-trivial = now within 1 s of a bound / windows that overlap or touch. serial-enum: all ordered pairs over {0..300, \
2^k-1, 2^k, 2^k+1 (k<159), 2^159-1, seed-derived}; serial-random: random 20-octet arrays (boundary-dense, leading zeros, \
high-bit-set first octet), neighbour/equal/independent second array, decimal strings derived by padding, signs, extra \
digits, garbage, values around 2^159; oracle = 5x32-bit limb arithmetic (long division by 10^9, schoolbook parse), minimal \
DER writer, numeric order == order of (length, bytes) of minimal encodings; non-trivial = pair of distinct values / \
string that is not the canonical rendering. validity also decodes each window with either end in the other time form (DER and BER mode): refused or the same window. Serial text with a leading '+' or surrounding white space is don't-care (if accepted it means the number written).";

//------------ calendar ---------------------------------------------------------

fn is_leap(y: i64) -> bool {
    (y % 4 == 0 && y % 100 != 0) || y % 400 == 0
}

fn days_in_month(y: i64, m: u32) -> u32 {
    match m {
        1 | 3 | 5 | 7 | 8 | 10 | 12 => 31,
        4 | 6 | 9 | 11 => 30,
        _ => if is_leap(y) { 29 } else { 28 },
    }
}

/// Days since 1970-01-01 (proleptic Gregorian).
fn days_from_civil(y: i64, m: u32, d: u32) -> i64 {
    let y = if m <= 2 { y - 1 } else { y };
    let era = y.div_euclid(400);
    let yoe = y.rem_euclid(400);
    let mp = (m as i64 + 9) % 12;
    let doy = (153 * mp + 2) / 5 + d as i64 - 1;
    let doe = yoe * 365 + yoe / 4 - yoe / 100 + doy;
    era * 146097 + doe - 719468
}

fn civil_from_days(z: i64) -> (i64, u32, u32) {
    let z = z + 719468;
    let era = z.div_euclid(146097);
    let doe = z.rem_euclid(146097);
    let yoe = (doe - doe / 1460 + doe / 36524 - doe / 146096) / 365;
    let doy = doe - (365 * yoe + yoe / 4 - yoe / 100);
    let mp = (5 * doy + 2) / 153;
    let d = (doy - (153 * mp + 2) / 5 + 1) as u32;
    let m = if mp < 10 { mp + 3 } else { mp - 9 } as u32;
    let y = yoe + era * 400 + if m <= 2 { 1 } else { 0 };
    (y, m, d)
}

const DAY_MIN: i64 = -719162; // 0001-01-01
const DAY_MAX: i64 = 2932896; // 9999-12-31
const TS_MIN: i64 = DAY_MIN * 86400;
const TS_MAX: i64 = DAY_MAX * 86400 + 86399;

#[derive(Clone, Copy, Debug, PartialEq, Eq)]
struct Civil {
    y: i64,
    mo: u32,
    d: u32,
    h: u32,
    mi: u32,
    s: u32,
}

fn civil_of_ts(ts: i64) -> Civil {
    let (day, sod) = (ts.div_euclid(86400), ts.rem_euclid(86400) as u32);
    let (y, mo, d) = civil_from_days(day);
    Civil { y, mo, d, h: sod / 3600, mi: sod / 60 % 60, s: sod % 60 }
}

fn utc_form(y: i64) -> bool {
    (1950..=2049).contains(&y)
}

/// Reference TLV of a time in the given form.
fn ref_time(c: Civil, utc: bool) -> Vec<u8> {
    let body = if utc {
        format!("{:02}{:02}{:02}{:02}{:02}{:02}Z", c.y % 100, c.mo, c.d, c.h, c.mi, c.s)
    } else {
        format!("{:04}{:02}{:02}{:02}{:02}{:02}Z", c.y, c.mo, c.d, c.h, c.mi, c.s)
    };
    let mut v = vec![if utc { 0x17 } else { 0x18 }, body.len() as u8];
    v.extend_from_slice(body.as_bytes());
    v
}

fn lib_time(ts: i64) -> Result<Time, Fail> {
    Utc.timestamp_opt(ts, 0).single().map(Time::new).ok_or_else(|| Fail::new(format!("chrono cannot represent timestamp {}", ts)))
}

fn decode_time(tlv: &[u8]) -> Result<Time, String> {
    Mode::Der.decode(tlv, Time::take_from).map_err(|e| e.to_string())
}

fn decode_time_opt(tlv: &[u8]) -> Result<Option<Time>, String> {
    Mode::Der.decode(tlv, Time::take_opt_from).map_err(|e| e.to_string())
}

fn enc<V: Values>(v: V, buf: &mut Vec<u8>) -> Result<(), Fail> {
    buf.clear();
    let n = v.encoded_len(Mode::Der);
    v.write_encoded(Mode::Der, buf).map_err(|e| Fail::new(format!("encoding failed: {}", e)))?;
    ensure!(n == buf.len(), "encoded_len {} but {} bytes written", n, buf.len());
    Ok(())
}

fn show(s: &[u8]) -> String {
    format!("\"{}\"", s.escape_ascii())
}

fn check_instant(ts: i64, buf: &mut Vec<u8>) -> CheckResult {
    let c = civil_of_ts(ts);
    let t = lib_time(ts)?;
    let t2 = Time::utc(c.y as i32, c.mo, c.d, c.h, c.mi, c.s);
    ensure!(t == t2 && t2.timestamp() == ts, "Time::utc({:?}) is {:?} (timestamp {}), calendar model says timestamp {}", c, t2, t2.timestamp(), ts);
    ensure!(
        (t.year() as i64, t.month(), t.day(), t.hour(), t.minute(), t.second()) == (c.y, c.mo, c.d, c.h, c.mi, c.s),
        "civil fields of timestamp {}: library {:?}, model {:?}", ts, t, c
    );
    let utc = utc_form(c.y);
    let exp = ref_time(c, utc);
    enc(t.encode_varied(), buf)?;
    ensure_sig!(*buf == exp, "time-encode-varied", "encode_varied({:?}) = {}, reference {}", c, show(buf), show(&exp));
    let d = decode_time(&exp);
    ensure_sig!(d == Ok(t), "time-roundtrip", "take_from({}) = {:?}, expected {:?}", show(&exp), d, t);
    let d = decode_time_opt(&exp);
    ensure_sig!(d == Ok(Some(t)), "time-roundtrip", "take_opt_from({}) = {:?}, expected {:?}", show(&exp), d, t);
    // the explicit forms
    let g = ref_time(c, false);
    enc(t.encode_generalized_time(), buf)?;
    ensure!(*buf == g, "encode_generalized_time({:?}) = {}, reference {}", c, show(buf), show(&g));
    if utc {
        enc(t.encode_utc_time(), buf)?;
        ensure!(*buf == exp, "encode_utc_time({:?}) = {}, reference {}", c, show(buf), show(&exp));
        // a strictly valid GeneralizedTime naming the same second decodes too
        let d = decode_time(&g);
        ensure!(d == Ok(t), "take_from({}) = {:?}, expected {:?}", show(&g), d, t);
    }
    Ok(())
}

//------------ days -------------------------------------------------------------

#[derive(Clone, Debug, Serialize, Deserialize)]
pub struct DayChunk {
    pub start_day: i64,
    pub len: u64,
    /// None: the standard second-of-day set
    pub sod: Option<u32>,
}

const DAY_CHUNK: u64 = 2048;

fn count_days(_: Tier, _: u64) -> u64 {
    ((DAY_MAX - DAY_MIN + 1) as u64).div_ceil(DAY_CHUNK)
}
fn make_days(_: Tier, _: u64, idx: u64) -> DayChunk {
    let start = DAY_MIN + (idx * DAY_CHUNK) as i64;
    DayChunk { start_day: start, len: DAY_CHUNK.min((DAY_MAX - start + 1) as u64), sod: None }
}

fn run_days(c: &DayChunk, obs: &mut Obs) -> CheckResult {
    let mut buf = Vec::new();
    let (mut evals, mut nt) = (0u64, 0u64);
    let mut switch = false;
    for day in c.start_day..c.start_day + c.len as i64 {
        ensure!((DAY_MIN..=DAY_MAX).contains(&day), "day {} outside years 1..9999", day);
        let (y, m, d) = civil_from_days(day);
        ensure!(days_from_civil(y, m, d) == day && d >= 1 && d <= days_in_month(y, m), "harness calendar broken at day {}", day);
        let year_edge = (m == 12 && d == 31) || (m == 1 && d == 1);
        switch |= year_edge && (y == 1949 || y == 1950 || y == 2049 || y == 2050);
        let std: &[u32] = if year_edge { &[0, 1, 43200, 86398, 86399] } else { &[0, 43200, 86399] };
        let one;
        let sods: &[u32] = match c.sod {
            Some(s) => {
                one = [s];
                &one
            }
            None => std,
        };
        for &sod in sods {
            evals += 1;
            if sod <= 1 || sod >= 86398 {
                nt += 1;
            }
            if let Err(f) = check_instant(day * 86400 + sod as i64, &mut buf) {
                return Err(Fail::sig(f.sig, f.msg).with_case(json!({"start_day": day, "len": 1, "sod": sod})));
            }
        }
    }
    obs.evals(evals.saturating_sub(1));
    obs.bulk_nontrivial = nt;
    obs.label_if(switch, "contains-1950/2050-switch");
    Ok(())
}

//------------ seconds ----------------------------------------------------------

#[derive(Clone, Debug, Serialize, Deserialize)]
pub struct SecChunk {
    pub day: i64,
    pub start: u32,
    pub len: u32,
}

fn sweep_days(tier: Tier, seed: u64) -> Vec<i64> {
    let mut v = vec![
        days_from_civil(1949, 12, 31),
        days_from_civil(1950, 1, 1),
        days_from_civil(2049, 12, 31),
        days_from_civil(2050, 1, 1),
        days_from_civil(2000, 2, 29),
        days_from_civil(1900, 2, 28),
        DAY_MIN,
        DAY_MAX,
    ];
    let extra = tier.pick(4, 392);
    for x in seed_values(seed, "C17", "sweep-days", extra) {
        v.push(DAY_MIN + (x % (DAY_MAX - DAY_MIN + 1) as u64) as i64);
    }
    v
}

const SEC_CHUNK: u32 = 7200;

fn count_seconds(tier: Tier, seed: u64) -> u64 {
    sweep_days(tier, seed).len() as u64 * (86400 / SEC_CHUNK) as u64
}
fn make_seconds(tier: Tier, seed: u64, idx: u64) -> SecChunk {
    let per = (86400 / SEC_CHUNK) as u64;
    SecChunk { day: sweep_days(tier, seed)[(idx / per) as usize], start: (idx % per) as u32 * SEC_CHUNK, len: SEC_CHUNK }
}

fn run_seconds(c: &SecChunk, obs: &mut Obs) -> CheckResult {
    ensure!((DAY_MIN..=DAY_MAX).contains(&c.day) && c.start as u64 + c.len as u64 <= 86400, "chunk outside domain");
    let mut buf = Vec::new();
    let mut nt = 0u64;
    for sod in c.start..c.start + c.len {
        if sod % 60 == 0 || sod % 60 == 59 {
            nt += 1;
        }
        if let Err(f) = check_instant(c.day * 86400 + sod as i64, &mut buf) {
            return Err(Fail::sig(f.sig, f.msg).with_case(json!({"day": c.day, "start": sod, "len": 1})));
        }
    }
    obs.evals((c.len as u64).saturating_sub(1));
    obs.bulk_nontrivial = nt;
    Ok(())
}

//------------ strings ----------------------------------------------------------

#[derive(Clone, Copy, PartialEq, Eq, Debug)]
enum Verdict {
    Accept(i64),
    Reject,
    Free,
}

fn classify(tag: u8, content: &[u8]) -> Verdict {
    let width = match tag {
        0x17 => 13,
        0x18 => 15,
        _ => return Verdict::Reject,
    };
    if content.len() != width || content[width - 1] != b'Z' || !content[..width - 1].iter().all(u8::is_ascii_digit) {
        return Verdict::Reject;
    }
    let num = |r: std::ops::Range<usize>| content[r].iter().fold(0i64, |a, &b| a * 10 + (b - b'0') as i64);
    let (y, o) = if tag == 0x17 {
        let yy = num(0..2);
        (if yy >= 50 { 1900 + yy } else { 2000 + yy }, 2)
    } else {
        (num(0..4), 4)
    };
    let (mo, d, h, mi, s) = (num(o..o + 2) as u32, num(o + 2..o + 4) as u32, num(o + 4..o + 6) as u32, num(o + 6..o + 8) as u32, num(o + 8..o + 10) as u32);
    if !(1..=12).contains(&mo) || d == 0 || d > 31 || h >= 24 || mi >= 60 || s >= 61 {
        return Verdict::Reject;
    }
    if y == 0 {
        return Verdict::Free;
    }
    if d > days_in_month(y, mo) {
        return Verdict::Reject;
    }
    if s == 60 {
        return Verdict::Free;
    }
    Verdict::Accept(days_from_civil(y, mo, d) * 86400 + (h * 3600 + mi * 60 + s) as i64)
}

fn check_candidate(tag: u8, content: &[u8]) -> CheckResult {
    if content.len() > 120 {
        return Ok(());
    }
    let mut tlv = vec![tag, content.len() as u8];
    tlv.extend_from_slice(content);
    let v = classify(tag, content);
    let r1 = decode_time(&tlv).ok();
    let r2 = decode_time_opt(&tlv).ok().flatten();
    for (what, r) in [("take_from", r1), ("take_opt_from", r2)] {
        match (v, r) {
            (Verdict::Accept(ts), Some(t)) => ensure!(
                t.timestamp() == ts && t.timestamp_subsec_nanos() == 0,
                "{}(tag {:#04x} {}) = {:?}, calendar model says timestamp {}", what, tag, show(content), t, ts
            ),
            (Verdict::Accept(_), None) => {
                return Err(Fail::new(format!("{} rejects the valid time tag {:#04x} {}", what, tag, show(content))));
            }
            (Verdict::Reject, Some(t)) => {
                let width = if tag == 0x17 { 13 } else { 15 };
                let nondigit = (tag == 0x17 || tag == 0x18)
                    && content.len() == width
                    && content[width - 1] == b'Z'
                    && !content[..width - 1].iter().all(u8::is_ascii_digit);
                return Err(Fail::sig(
                    if nondigit { "time-accepts-nondigit" } else { "time-accepts-malformed" },
                    format!("{} accepts the malformed time tag {:#04x} {} as {:?}", what, tag, show(content), t),
                ));
            }
            _ => {}
        }
    }
    Ok(())
}

const UTC_BASES: &[&str] = &[
    "500101000000Z", "491231235959Z", "000229120000Z", "990228235959Z", "240229000000Z", "700101000000Z", "380119031407Z",
    "200630235959Z", "691231235959Z", "100430101010Z", "211130173045Z", "230731000001Z", "160229235959Z", "010101010101Z",
    "991231235959Z", "500228120000Z", "000101000000Z", "121212121212Z", "280229060606Z", "450815091500Z",
];
const GEN_BASES: &[&str] = &[
    "00010101000000Z", "99991231235959Z", "19491231235959Z", "20500101000000Z", "20000229120000Z", "19000228235959Z",
    "21000228000000Z", "24000229000000Z", "16000229121212Z", "19700101000000Z", "20380119031408Z", "00040229000000Z",
    "01000228101010Z", "18991231235959Z", "20491231235959Z", "19500101000000Z", "30000630120000Z", "12151015101010Z",
    "04000229235959Z", "99990101000000Z",
];
const SUB_ALPHA: &[u8] = b"0123456789+-.: Zz";
const SINGLE_EXTRA: &[u8] = b"/\0A\xb0\xff";
const WRONG_TAGS: &[u8] = &[0x16, 0x13, 0x0c, 0x04, 0x02, 0x19, 0x37, 0x38, 0x57, 0x97];

/// Latin-1 string <-> bytes (contents may hold 0x80..0xFF).
fn to_l1(b: &[u8]) -> String {
    b.iter().map(|&b| b as char).collect()
}
fn from_l1(s: &str) -> Result<Vec<u8>, Fail> {
    s.chars().map(|c| u8::try_from(c as u32).map_err(|_| Fail::new("replay case holds a char above U+00FF"))).collect()
}

#[derive(Clone, Debug, Serialize, Deserialize)]
pub struct StrRow {
    pub tag: u8,
    /// base string (Latin-1)
    pub base: String,
    /// 0: base, singles, deletions, insertions, tags; 1: doubles with first position i; 2: triples with first positions i<j
    pub op: u8,
    pub i: u32,
    pub j: u32,
    /// Some: check exactly this content (Latin-1) under `tag`
    pub exact: Option<String>,
}

fn str_rows(tier: Tier) -> Vec<StrRow> {
    let mut v = Vec::new();
    let bases = UTC_BASES.iter().map(|b| (0x17u8, *b)).chain(GEN_BASES.iter().map(|b| (0x18u8, *b)));
    for (n, (tag, base)) in bases.enumerate() {
        let w = base.len() as u32;
        v.push(StrRow { tag, base: base.to_string(), op: 0, i: 0, j: 0, exact: None });
        for i in 0..w - 1 {
            v.push(StrRow { tag, base: base.to_string(), op: 1, i, j: 0, exact: None });
        }
        if tier == Tier::Thorough || n % 10 == 0 {
            for i in 0..w - 2 {
                for j in i + 1..w - 1 {
                    v.push(StrRow { tag, base: base.to_string(), op: 2, i, j, exact: None });
                }
            }
        }
    }
    v
}

fn count_strings(tier: Tier, _: u64) -> u64 {
    str_rows(tier).len() as u64
}
fn make_strings(tier: Tier, _: u64, idx: u64) -> StrRow {
    str_rows(tier).swap_remove(idx as usize)
}

fn run_strings(r: &StrRow, obs: &mut Obs) -> CheckResult {
    if let Some(x) = &r.exact {
        obs.nontrivial();
        return check_candidate(r.tag, &from_l1(x)?);
    }
    let base = from_l1(&r.base)?;
    let w = base.len();
    ensure!(matches!(classify(r.tag, &base), Verdict::Accept(_)), "base string {} is not valid", show(&base));
    ensure!((r.i as usize) < w && (r.j as usize) < w, "position outside the base string");
    let (mut evals, mut nt) = (0u64, 0u64);
    let mut probe = |tag: u8, cand: &[u8]| -> CheckResult {
        evals += 1;
        if tag != r.tag || cand != &base[..] {
            nt += 1;
        }
        check_candidate(tag, cand).map_err(|f| {
            Fail::sig(f.sig, f.msg).with_case(json!({"tag": tag, "base": r.base, "op": r.op, "i": r.i, "j": r.j, "exact": to_l1(cand)}))
        })
    };
    let mut cand = base.clone();
    match r.op {
        0 => {
            probe(r.tag, &base)?;
            for p in 0..w {
                for &ch in SUB_ALPHA.iter().chain(SINGLE_EXTRA) {
                    cand[p] = ch;
                    probe(r.tag, &cand)?;
                }
                cand[p] = base[p];
                let mut del = base.clone();
                del.remove(p);
                probe(r.tag, &del)?;
            }
            for p in 0..=w {
                for &ch in SUB_ALPHA {
                    let mut ins = base.clone();
                    ins.insert(p, ch);
                    probe(r.tag, &ins)?;
                }
            }
            probe(r.tag, &[])?;
            probe(r.tag, b"Z")?;
            probe(r.tag, &[&base[..], &b"Z"[..]].concat())?;
            probe(r.tag, &[&base[..], &base[..]].concat())?;
            // fractional seconds and offsets, the other usual ASN.1 shapes
            probe(r.tag, &[&base[..w - 1], &b".0Z"[..]].concat())?;
            probe(r.tag, &[&base[..w - 1], &b"+0000"[..]].concat())?;
            probe(r.tag, &base[..w - 3])?;
            probe(r.tag, &[&base[..w - 3], &b"Z"[..]].concat())?;
            // right content under a wrong tag, and the two forms swapped
            for &t in WRONG_TAGS {
                probe(t, &base)?;
            }
            probe(if r.tag == 0x17 { 0x18 } else { 0x17 }, &base)?;
        }
        1 => {
            let i = r.i as usize;
            for &c1 in SUB_ALPHA {
                cand[i] = c1;
                for j in i + 1..w {
                    for &c2 in SUB_ALPHA {
                        cand[j] = c2;
                        probe(r.tag, &cand)?;
                    }
                    cand[j] = base[j];
                }
            }
        }
        _ => {
            let (i, j) = (r.i as usize, r.j as usize);
            ensure!(i < j, "triple row needs i < j");
            for &c1 in SUB_ALPHA {
                cand[i] = c1;
                for &c2 in SUB_ALPHA {
                    cand[j] = c2;
                    for k in j + 1..w {
                        for &c3 in SUB_ALPHA {
                            cand[k] = c3;
                            probe(r.tag, &cand)?;
                        }
                        cand[k] = base[k];
                    }
                }
            }
        }
    }
    obs.evals(evals.saturating_sub(1));
    obs.bulk_nontrivial = nt;
    obs.label(if r.tag == 0x17 { "utc-time" } else { "generalized-time" });
    Ok(())
}

//------------ validity ---------------------------------------------------------

fn instant_set(thorough: bool, seed: u64) -> Vec<i64> {
    let at = |y, m, d, sod: i64| days_from_civil(y, m, d) * 86400 + sod;
    let mut v = vec![
        TS_MIN,
        TS_MIN + 1,
        at(1949, 12, 31, 86399),
        at(1950, 1, 1, 0),
        at(1969, 12, 31, 86399),
        0,
        1,
        at(2000, 2, 29, 43200),
        at(2026, 1, 1, 0) - 86400,
        at(2026, 1, 1, 0) - 1,
        at(2026, 1, 1, 0),
        at(2026, 1, 1, 0) + 1,
        at(2026, 1, 1, 0) + 86400,
        at(2038, 1, 19, 11647),
        at(2038, 1, 19, 11648),
        at(2049, 12, 31, 86399),
        at(2050, 1, 1, 0),
        TS_MAX - 1,
        TS_MAX,
    ];
    for x in seed_values(seed, "C17", "instants", if thorough { 24 } else { 8 }) {
        let t = TS_MIN + 1 + (x % (TS_MAX - TS_MIN - 1) as u64) as i64;
        v.push(t);
        v.push(t + 1);
    }
    v.sort();
    v.dedup();
    v
}

#[derive(Clone, Debug, Serialize, Deserialize)]
pub struct ValRow {
    pub thorough: bool,
    pub seed: u64,
    pub nb: i64,
    pub na: i64,
    /// Some: only this evaluation time
    pub now: Option<i64>,
    /// Some: only this second window
    pub other: Option<(i64, i64)>,
}

fn count_validity(tier: Tier, seed: u64) -> u64 {
    let n = instant_set(tier == Tier::Thorough, seed).len() as u64;
    n * n
}
fn make_validity(tier: Tier, seed: u64, idx: u64) -> ValRow {
    let th = tier == Tier::Thorough;
    let t = instant_set(th, seed);
    let n = t.len() as u64;
    ValRow { thorough: th, seed, nb: t[(idx / n) as usize], na: t[(idx % n) as usize], now: None, other: None }
}

fn ok_at(nb: i64, na: i64, now: i64) -> bool {
    nb <= now && now <= na
}

fn run_validity(r: &ValRow, obs: &mut Obs) -> CheckResult {
    ensure!((TS_MIN..=TS_MAX).contains(&r.nb) && (TS_MIN..=TS_MAX).contains(&r.na), "window outside years 1..9999");
    let set = instant_set(r.thorough, r.seed);
    let (tnb, tna) = (lib_time(r.nb)?, lib_time(r.na)?);
    let v = Validity::new(tnb, tna);
    ensure!(v.not_before() == tnb && v.not_after() == tna, "Validity accessors");
    let (mut evals, mut nt) = (1u64, 0u64);
    let case = |now: Option<i64>, other: Option<(i64, i64)>| {
        json!({"thorough": r.thorough, "seed": r.seed, "nb": r.nb, "na": r.na, "now": now, "other": other})
    };
    // DER round trip of the window against the reference writer
    if r.now.is_none() && r.other.is_none() {
        let (cb, ca) = (civil_of_ts(r.nb), civil_of_ts(r.na));
        let (eb, ea) = (ref_time(cb, utc_form(cb.y)), ref_time(ca, utc_form(ca.y)));
        let mut exp = vec![0x30, (eb.len() + ea.len()) as u8];
        exp.extend_from_slice(&eb);
        exp.extend_from_slice(&ea);
        let mut buf = Vec::new();
        enc(v.encode(), &mut buf)?;
        ensure!(buf == exp, "Validity::encode({:?}, {:?}) = {}, reference {}", cb, ca, show(&buf), show(&exp));
        let d = Mode::Der.decode(&exp[..], Validity::take_from).map_err(|e| e.to_string());
        ensure!(d == Ok(v), "Validity::take_from({}) = {:?}, expected {:?}", show(&exp), d, v);
        // A window written by someone else may use the other time form for either end
        // (GeneralizedTime for any year, UTCTime where the year has one). RFC 5280 4.1.2.5
        // has relying parties process both, the statement only says which forms are
        // accepted at most: such a window may be refused, but if it is decoded it names the
        // same instants whichever type carries the fixed-width form.
        for (ub, ua) in [(false, false), (true, false), (false, true), (true, true)] {
            if (ub && !utc_form(cb.y)) || (ua && !utc_form(ca.y)) || (ub == utc_form(cb.y) && ua == utc_form(ca.y)) {
                continue;
            }
            let (eb, ea) = (ref_time(cb, ub), ref_time(ca, ua));
            let mut alt = vec![0x30, (eb.len() + ea.len()) as u8];
            alt.extend_from_slice(&eb);
            alt.extend_from_slice(&ea);
            for mode in [Mode::Der, Mode::Ber] {
                match mode.decode(&alt[..], Validity::take_from) {
                    Err(_) => obs.label("other-time-form-refused"),
                    Ok(d) => {
                        obs.label("other-time-form-accepted");
                        if d != v {
                            return Err(Fail::sig("validity-other-time-form", format!(
                                "Validity::take_from({}) in {:?} mode = {:?}, expected {:?} (notBefore as {}, notAfter as {})",
                                show(&alt), mode, d, v, if ub { "UTCTime" } else { "GeneralizedTime" }, if ua { "UTCTime" } else { "GeneralizedTime" }
                            )));
                        }
                    }
                }
            }
            evals += 1;
        }
    }
    // verify_at
    let nows: Vec<i64> = match (r.now, r.other) {
        (Some(n), _) => vec![n],
        (None, Some(_)) => vec![],
        _ => set.clone(),
    };
    for &now in &nows {
        evals += 1;
        if (now - r.nb).abs() <= 1 || (now - r.na).abs() <= 1 {
            nt += 1;
        }
        let tn = lib_time(now)?;
        let exp = ok_at(r.nb, r.na, now);
        let got = v.verify_at(tn).is_ok();
        if got != exp || tnb.verify_not_before(tn).is_ok() != (r.nb <= now) || tna.verify_not_after(tn).is_ok() != (now <= r.na) {
            return Err(Fail::sig("validity-verify-at", format!(
                "window [{}, {}] at {}: verify_at ok={} (verify_not_before ok={}, verify_not_after ok={}), expected ok={}",
                r.nb, r.na, now, got, tnb.verify_not_before(tn).is_ok(), tna.verify_not_after(tn).is_ok(), exp
            )).with_case(case(Some(now), None)));
        }
    }
    // trim
    let others: Vec<(i64, i64)> = match (r.other, r.now) {
        (Some(o), _) => vec![o],
        (None, Some(_)) => vec![],
        _ => set.iter().flat_map(|&a| set.iter().map(move |&b| (a, b))).collect(),
    };
    for &(nb2, na2) in &others {
        evals += 1;
        let v2 = Validity::new(lib_time(nb2)?, lib_time(na2)?);
        let w = v.trim(v2);
        let (enb, ena) = (r.nb.max(nb2), r.na.min(na2));
        if enb <= ena && (enb != r.nb || ena != r.na) && (enb != nb2 || ena != na2) || enb == ena {
            nt += 1;
        }
        let mut ok = w.not_before().timestamp() == enb && w.not_after().timestamp() == ena && v2.trim(v) == w;
        for p in [enb - 1, enb, enb + 1, ena - 1, ena, ena + 1, r.nb, r.na, nb2, na2] {
            let tp = lib_time(p)?;
            ok &= w.verify_at(tp).is_ok() == (ok_at(r.nb, r.na, p) && ok_at(nb2, na2, p));
        }
        if !ok {
            return Err(Fail::sig("validity-trim", format!(
                "trim([{}, {}], [{}, {}]) = [{}, {}], intersection is [{}, {}] (or it accepts/rejects a probe instant wrongly)",
                r.nb, r.na, nb2, na2, w.not_before().timestamp(), w.not_after().timestamp(), enb, ena
            )).with_case(case(None, Some((nb2, na2)))));
        }
    }
    obs.evals(evals.saturating_sub(1));
    obs.bulk_nontrivial = nt;
    obs.label(if r.nb <= r.na { "window-nonempty" } else { "window-empty" });
    Ok(())
}

//------------ validity at sub-second resolution ----------------------------------

/// Evaluation times (and, less often, window ends) with a sub-second part:
/// `Time` wraps a nanosecond-resolution instant and `Time::now()` — the usual
/// evaluation time — always has one.
#[derive(Clone, Debug, Serialize, Deserialize)]
pub struct SubSec {
    pub nb: (i64, u32),
    pub na: (i64, u32),
    pub now: (i64, u32),
}

fn subsec_strategy(_: Tier) -> BoxedStrategy<SubSec> {
    let ns = prop_oneof![4 => Just(0u32), 1 => Just(1u32), 1 => Just(500_000_000u32), 1 => Just(999_999_999u32), 1 => 0u32..1_000_000_000];
    let secs = prop_oneof![
        3 => prop::sample::select(vec![-631_152_000i64, 0, 946_684_800, 1_767_225_600, 2_524_607_999, 2_524_608_000, 4_102_444_800]),
        1 => (TS_MIN + 2)..(TS_MAX - 2),
    ];
    let off = prop_oneof![
        3 => Just((0i64, 0i64)),
        2 => Just((0i64, 1i64)), 2 => Just((0i64, -1i64)),
        1 => Just((0i64, 1_000_000i64)), 1 => Just((0i64, -1_000_000i64)),
        2 => Just((0i64, 500_000_000i64)), 2 => Just((0i64, -500_000_000i64)),
        2 => Just((0i64, 999_999_999i64)), 2 => Just((0i64, -999_999_999i64)),
        1 => Just((1i64, 0i64)), 1 => Just((-1i64, 0i64)),
        1 => (-100_000i64..100_000, 0i64..1_000_000_000),
    ];
    (secs.clone(), ns.clone(), 0i64..200_000_000, ns, any::<bool>(), off, prop::bool::weighted(0.1))
        .prop_map(|(nb, nb_ns, len, na_ns, at_end, (ds, dns), inverted)| {
            let na = (nb + len).min(TS_MAX - 2);
            let (mut nb, mut na) = ((nb, nb_ns), (na, na_ns));
            if inverted {
                std::mem::swap(&mut nb, &mut na);
            }
            let edge = if at_end { na } else { nb };
            // edge + offset in nanoseconds, normalised
            let total = edge.1 as i64 + dns;
            let now = (edge.0 + ds + total.div_euclid(1_000_000_000), total.rem_euclid(1_000_000_000) as u32);
            SubSec { nb, na, now }
        })
        .boxed()
}

fn lib_time_ns(t: (i64, u32)) -> Result<Time, Fail> {
    Utc.timestamp_opt(t.0, t.1).single().map(Time::new).ok_or_else(|| Fail::new(format!("chrono cannot represent {:?}", t)))
}

fn run_subsec(c: &SubSec, obs: &mut Obs) -> CheckResult {
    let (tnb, tna, tnow) = (lib_time_ns(c.nb)?, lib_time_ns(c.na)?, lib_time_ns(c.now)?);
    let v = Validity::new(tnb, tna);
    let exp = c.nb <= c.now && c.now <= c.na; // lexicographic on (seconds, nanoseconds)
    let got = v.verify_at(tnow).is_ok();
    let sub = c.now.1 != 0 || c.nb.1 != 0 || c.na.1 != 0;
    let near = (c.now.0 - c.nb.0).abs() <= 1 || (c.now.0 - c.na.0).abs() <= 1;
    obs.nontrivial_if(sub && near);
    obs.label_if(sub && near, "subsecond-near-edge");
    obs.label(if exp { "inside" } else { "outside" });
    ensure_sig!(
        got == exp && tnb.verify_not_before(tnow).is_ok() == (c.nb <= c.now) && tna.verify_not_after(tnow).is_ok() == (c.now <= c.na),
        "validity-verify-at-subsecond",
        "window [{:?}, {:?}] at {:?} (seconds, nanoseconds): verify_at ok={} (verify_not_before ok={}, verify_not_after ok={}), expected ok={}",
        c.nb, c.na, c.now, got, tnb.verify_not_before(tnow).is_ok(), tna.verify_not_after(tnow).is_ok(), exp
    );
    // trim at sub-second resolution: a second window derived from the case
    // (ends shifted by the distance between `now` and the first window's ends)
    // must intersect exactly; the result accepts a probe iff both inputs do.
    let shift = |t: (i64, u32), by: (i64, u32)| -> (i64, u32) {
        let total = t.1 as i64 + by.1 as i64;
        ((t.0 + by.0 + total / 1_000_000_000).clamp(TS_MIN + 2, TS_MAX - 2), (total % 1_000_000_000) as u32)
    };
    let d = ((c.now.0 - c.nb.0).rem_euclid(3) - 1, c.now.1);
    let (nb2, na2) = (shift(c.nb, d), shift(c.na, (-d.0, 1_000_000_000 - d.1.max(1))));
    let v2 = Validity::new(lib_time_ns(nb2)?, lib_time_ns(na2)?);
    let (w, w_rev) = (v.trim(v2), v2.trim(v));
    let (enb, ena) = (c.nb.max(nb2), c.na.min(na2));
    let inside = |a: (i64, u32), b: (i64, u32), p: (i64, u32)| a <= p && p <= b;
    let mut ok = w.not_before() == lib_time_ns(enb)? && w.not_after() == lib_time_ns(ena)? && w_rev == w;
    for p in [c.nb, c.na, nb2, na2, c.now, enb, ena] {
        ok &= w.verify_at(lib_time_ns(p)?).is_ok() == (inside(c.nb, c.na, p) && inside(nb2, na2, p));
    }
    ensure_sig!(
        ok, "validity-trim-subsecond",
        "trim([{:?}, {:?}], [{:?}, {:?}]) = [{}.{:09}, {}.{:09}] (reverse order gives [{}.{:09}, {}.{:09}]), intersection is [{:?}, {:?}]",
        c.nb, c.na, nb2, na2,
        w.not_before().timestamp(), w.not_before().timestamp_subsec_nanos(), w.not_after().timestamp(), w.not_after().timestamp_subsec_nanos(),
        w_rev.not_before().timestamp(), w_rev.not_before().timestamp_subsec_nanos(), w_rev.not_after().timestamp(), w_rev.not_after().timestamp_subsec_nanos(),
        enb, ena
    );
    obs.label_if(enb.0 == c.nb.0 && enb.0 == nb2.0 && c.nb != nb2, "trim-same-second-bounds");
    Ok(())
}

//------------ Validity::verify (evaluation time = the clock) --------------------------

/// `Validity::verify()` is `verify_at(Time::now())`. The verdict asked for
/// never depends on what the clock shows: windows are placed relative to an
/// instant read just before the call (the clock only moves forward from
/// there), and where the library's later reading could legitimately change
/// the answer the case is decided by a second reading afterwards or skipped.
#[derive(Clone, Debug, Serialize, Deserialize)]
pub struct NowCase {
    pub kind: u8,
    /// distance of the near edge from "now", nanoseconds (1 ..= 999_999_999 for the near kinds)
    pub near_ns: u32,
    /// distance of the far edge, seconds
    pub far_s: u32,
}

fn now_strategy(_: Tier) -> BoxedStrategy<NowCase> {
    (0u8..5, prop_oneof![2 => Just(1u32), 2 => 1u32..1_000, 3 => 1u32..1_000_000_000, 2 => 900_000_000u32..1_000_000_000], 2u32..400_000_000)
        .prop_map(|(kind, near_ns, far_s)| NowCase { kind, near_ns, far_s })
        .boxed()
}

fn run_now(c: &NowCase, obs: &mut Obs) -> CheckResult {
    use chrono::TimeDelta;
    let t0 = Utc::now();
    let near = TimeDelta::nanoseconds(c.near_ns.clamp(1, 999_999_999) as i64);
    let far = TimeDelta::try_seconds(c.far_s as i64).ok_or_else(|| Fail::new("generator: far edge"))?;
    let two = TimeDelta::try_seconds(2).unwrap();
    match c.kind % 5 {
        0 => {
            // comfortably inside
            obs.label("now-inside");
            let v = Validity::new(Time::new(t0 - far), Time::new(t0 + far));
            ensure_sig!(v.verify().is_ok(), "validity-verify-now", "verify() rejects a window from {} s ago to {} s ahead", c.far_s, c.far_s);
        }
        1 => {
            // ended less than a second ago (possibly within the current clock second)
            obs.label("now-just-expired");
            obs.nontrivial();
            let v = Validity::new(Time::new(t0 - far), Time::new(t0 - near));
            ensure_sig!(v.verify().is_err(), "validity-verify-now", "verify() accepts a window that ended {} ns before the call", c.near_ns);
            obs.label_if((t0 - near).timestamp() == t0.timestamp(), "now-same-clock-second");
        }
        2 => {
            // starts in less than a second: rejected, unless the clock got there first
            let nb = t0 + near + TimeDelta::milliseconds(if c.near_ns % 2 == 0 { 0 } else { 300 });
            let v = Validity::new(Time::new(nb), Time::new(t0 + far + two));
            let got = v.verify();
            let t1 = Utc::now();
            if t1 < nb {
                obs.label("now-not-yet-valid");
                obs.nontrivial();
                ensure_sig!(got.is_err(), "validity-verify-now", "verify() accepts a window that starts {} ns after the call returned", (nb - t1).num_nanoseconds().unwrap_or(0));
                obs.label_if(nb.timestamp() == t1.timestamp(), "now-same-clock-second");
            } else {
                obs.label("now-raced");
            }
        }
        3 => {
            obs.label("now-long-expired");
            let v = Validity::new(Time::new(t0 - far - two), Time::new(t0 - two));
            ensure_sig!(v.verify().is_err(), "validity-verify-now", "verify() accepts a window that ended 2 s ago");
        }
        _ => {
            obs.label("now-future");
            let v = Validity::new(Time::new(t0 + far), Time::new(t0 + far + far));
            ensure_sig!(v.verify().is_err(), "validity-verify-now", "verify() accepts a window starting in {} s", c.far_s);
        }
    }
    Ok(())
}

//------------ big numbers ------------------------------------------------------

/// 160-bit unsigned, five 32-bit limbs, most significant first.
type Limbs = [u32; 5];

fn limbs_of(a: &[u8; 20]) -> Limbs {
    let mut l = [0u32; 5];
    for (i, c) in a.chunks(4).enumerate() {
        l[i] = u32::from_be_bytes([c[0], c[1], c[2], c[3]]);
    }
    l
}
fn bytes_of(l: &Limbs) -> [u8; 20] {
    let mut a = [0u8; 20];
    for (i, x) in l.iter().enumerate() {
        a[i * 4..i * 4 + 4].copy_from_slice(&x.to_be_bytes());
    }
    a
}

/// Decimal rendering by long division by 10^9; zero gives "0".
fn limbs_to_dec(mut l: Limbs) -> String {
    let mut groups = Vec::new();
    while l.iter().any(|&x| x != 0) {
        let mut rem = 0u64;
        for x in l.iter_mut() {
            let cur = (rem << 32) | *x as u64;
            *x = (cur / 1_000_000_000) as u32;
            rem = cur % 1_000_000_000;
        }
        groups.push(rem as u32);
    }
    match groups.pop() {
        None => "0".to_string(),
        Some(top) => {
            let mut s = top.to_string();
            for g in groups.iter().rev() {
                s.push_str(&format!("{:09}", g));
            }
            s
        }
    }
}

/// Schoolbook parse of an all-digit string; None on overflow of 160 bits.
fn dec_to_limbs(s: &[u8]) -> Option<Limbs> {
    let mut l = [0u32; 5];
    for &ch in s {
        let mut carry = (ch - b'0') as u64;
        for x in l.iter_mut().rev() {
            let cur = *x as u64 * 10 + carry;
            *x = cur as u32;
            carry = cur >> 32;
        }
        if carry != 0 {
            return None;
        }
    }
    Some(l)
}

/// Minimal DER INTEGER content octets of a non-negative number.
fn minimal_der(a: &[u8; 20]) -> Vec<u8> {
    let first = a.iter().position(|&b| b != 0).unwrap_or(19);
    let mut v = Vec::new();
    if a[first] & 0x80 != 0 {
        v.push(0);
    }
    v.extend_from_slice(&a[first..]);
    v
}

fn hex20(a: &[u8; 20]) -> String {
    a.iter().map(|b| format!("{:02x}", b)).collect()
}
fn unhex20(s: &str) -> Result<[u8; 20], Fail> {
    let mut a = [0u8; 20];
    ensure!(s.len() == 40 && s.is_ascii(), "serial must be 40 hex digits, got {:?}", s);
    for i in 0..20 {
        a[i] = u8::from_str_radix(&s[2 * i..2 * i + 2], 16).map_err(|_| Fail::new(format!("bad hex in {:?}", s)))?;
    }
    Ok(a)
}
fn hash_of<T: Hash>(t: &T) -> u64 {
    let mut h = std::collections::hash_map::DefaultHasher::new();
    t.hash(&mut h);
    h.finish()
}

fn decode_serial(tlv: &[u8]) -> Result<Serial, String> {
    Mode::Der.decode(tlv, Serial::take_from).map_err(|e| e.to_string())
}

/// Everything about one array.
fn serial_single(a: &[u8; 20]) -> Result<Option<Serial>, Fail> {
    let r = Serial::from_array(*a);
    if a[0] & 0x80 != 0 {
        ensure!(r.is_err() && Serial::try_from(*a).is_err() && Serial::from_slice(a).is_err(),
            "array {} with the top bit set accepted as a serial number", hex20(a));
        return Ok(None);
    }
    let s = r.map_err(|e| Fail::new(format!("from_array({}) failed: {}", hex20(a), e)))?;
    ensure!(s.into_array() == *a && <[u8; 20]>::from(s) == *a, "into_array of {}", hex20(a));
    ensure!(Serial::try_from(*a).ok() == Some(s), "TryFrom<[u8; 20]> of {}", hex20(a));
    let min = minimal_der(a);
    let unsigned = &min[if min.len() > 1 && min[0] == 0 { 1 } else { 0 }..];
    // every left-padded form of the magnitude
    let first = a.iter().position(|&b| b != 0).unwrap_or(19);
    for start in [0, first / 2, first] {
        ensure!(Serial::from_slice(&a[start..]).ok() == Some(s), "from_slice({}) != from_array", show(&a[start..]));
    }
    ensure!(Serial::from_slice(unsigned).ok() == Some(s), "from_slice of the magnitude octets of {}", hex20(a));
    let l = limbs_of(a);
    let zero = l == [0; 5];
    // decimal text
    let text = s.to_string();
    let exp = limbs_to_dec(l);
    ensure_sig!(text == exp || (zero && text.is_empty()), "serial-decimal",
        "Display of serial {} is {:?}, long division says {:?}", hex20(a), text, exp);
    ensure!(String::from(s) == text, "String::from differs from Display for {}", hex20(a));
    ensure_sig!(Serial::from_str(&text).ok() == Some(s), "serial-decimal", "from_str(to_string({})) = {:?}", hex20(a), Serial::from_str(&text));
    ensure_sig!(Serial::from_str(&exp).ok() == Some(s), "serial-decimal", "from_str({:?}) = {:?}, expected {}", exp, Serial::from_str(&exp), hex20(a));
    let js = serde_json::to_string(&s).map_err(|e| Fail::new(e.to_string()))?;
    ensure!(js == format!("\"{}\"", text), "serde form {} of serial {}", js, text);
    ensure!(serde_json::from_str::<Serial>(&js).ok() == Some(s), "serde round trip of {}", js);
    // DER
    let mut buf = Vec::new();
    enc(s.encode(), &mut buf)?;
    let mut tlv = vec![0x02, min.len() as u8];
    tlv.extend_from_slice(&min);
    ensure_sig!(buf == tlv, "serial-der", "DER of serial {} is {}, minimal form is {}", hex20(a), show(&buf), show(&tlv));
    let d = decode_serial(&tlv);
    ensure_sig!(d == Ok(s), "serial-der", "take_from({}) = {:?}, expected {}", show(&tlv), d, hex20(a));
    // native integers
    if l[0] == 0 {
        let v = (l[1] as u128) << 96 | (l[2] as u128) << 64 | (l[3] as u128) << 32 | l[4] as u128;
        ensure!(Serial::from(v) == s, "From<u128>({}) != {}", v, hex20(a));
        if let Ok(v) = u64::try_from(v) {
            ensure!(Serial::from(v) == s, "From<u64>({}) != {}", v, hex20(a));
        }
    }
    Ok(Some(s))
}

fn serial_pair(a: &[u8; 20], b: &[u8; 20], sa: Serial, sb: Serial) -> CheckResult {
    let num = limbs_of(a).cmp(&limbs_of(b));
    let (ma, mb) = (minimal_der(a), minimal_der(b));
    let der = ma.len().cmp(&mb.len()).then_with(|| ma.cmp(&mb));
    ensure!(num == der, "harness models disagree on {} vs {}", hex20(a), hex20(b));
    let got = sa.cmp(&sb);
    ensure_sig!(
        got == num && sa.partial_cmp(&sb) == Some(num) && sb.cmp(&sa) == num.reverse(), "serial-order",
        "Serial order of {} vs {}: {:?}, numeric order {:?}", hex20(a), hex20(b), got, num
    );
    ensure!((sa == sb) == (num == Ordering::Equal), "Serial == of {} and {}", hex20(a), hex20(b));
    if num == Ordering::Equal {
        ensure!(hash_of(&sa) == hash_of(&sb), "equal serials hash differently");
    }
    Ok(())
}

#[derive(Clone, Copy, PartialEq, Eq, Debug)]
enum TextVerdict {
    Accept([u8; 20]),
    Reject,
    Free,
}

fn classify_text(t: &str) -> TextVerdict {
    let b = t.as_bytes();
    if b.is_empty() {
        return TextVerdict::Free;
    }
    if b.iter().all(u8::is_ascii_digit) {
        return match dec_to_limbs(b) {
            Some(l) if l[0] & 0x8000_0000 == 0 => TextVerdict::Accept(bytes_of(&l)),
            _ => TextVerdict::Reject,
        };
    }
    // a decimal number with an explicit plus sign or surrounded by ASCII white space: the
    // statement promises nothing about such text (a parser may tolerate or refuse it); if
    // it is accepted it means that number
    if tolerated_digits(t).is_some() {
        return TextVerdict::Free;
    }
    TextVerdict::Reject
}

/// The digits of "  +123 "-like text (ASCII white space around, at most one leading '+').
fn tolerated_digits(t: &str) -> Option<&str> {
    let inner = t.trim_matches(|c: char| c.is_ascii_whitespace());
    let inner = inner.strip_prefix('+').unwrap_or(inner);
    (!inner.is_empty() && inner.bytes().all(|c| c.is_ascii_digit())).then_some(inner)
}

fn serial_text(t: &str) -> Result<bool, Fail> {
    let r = Serial::from_str(t);
    match (classify_text(t), r) {
        (TextVerdict::Accept(a), Ok(s)) => {
            ensure_sig!(s.into_array() == a, "serial-decimal", "from_str({:?}) = {}, schoolbook parse says {}", t, hex20(&s.into_array()), hex20(&a));
            // parsing is the inverse of rendering up to leading zeros
            let canon = limbs_to_dec(limbs_of(&a));
            ensure!(t.trim_start_matches('0') == canon.trim_start_matches('0'), "harness renderer and parser disagree on {:?}", t);
            Ok(true)
        }
        (TextVerdict::Accept(a), Err(_)) => Err(Fail::sig("serial-decimal", format!("from_str rejects {:?} (= {})", t, hex20(&a)))),
        (TextVerdict::Reject, Ok(s)) => Err(Fail::sig("serial-accepts-malformed", format!(
            "from_str accepts {:?} (not a decimal number below 2^159) as {}", t, hex20(&s.into_array())
        ))),
        (TextVerdict::Free, Ok(s)) => {
            if let Some(d) = tolerated_digits(t) {
                match dec_to_limbs(d.as_bytes()) {
                    Some(l) if l[0] & 0x8000_0000 == 0 => ensure_sig!(
                        s.into_array() == bytes_of(&l), "serial-decimal",
                        "from_str({:?}) = {}, the number written there is {}", t, hex20(&s.into_array()), hex20(&bytes_of(&l))
                    ),
                    _ => return Err(Fail::sig("serial-accepts-malformed", format!("from_str accepts {:?}, a number of 2^159 or more, as {}", t, hex20(&s.into_array())))),
                }
            }
            Ok(false)
        }
        _ => Ok(false),
    }
}

/// DER integers that cannot be a serial number.
fn serial_bad_der() -> CheckResult {
    let mut cases: Vec<Vec<u8>> = vec![
        vec![0x02, 0x00],
        vec![0x02, 0x01, 0x80],
        vec![0x02, 0x01, 0xff],
        vec![0x02, 0x02, 0xff, 0x7f],
        vec![0x04, 0x01, 0x01],
        vec![0x22, 0x03, 0x02, 0x01, 0x01],
    ];
    let mut v = vec![0x02, 21, 0x00, 0x80];
    v.extend_from_slice(&[0; 19]);
    cases.push(v); // 2^159
    let mut v = vec![0x02, 21, 0x01];
    v.extend_from_slice(&[0; 20]);
    cases.push(v); // 2^160
    let mut v = vec![0x02, 20, 0x80];
    v.extend_from_slice(&[0; 19]);
    cases.push(v); // -2^159
    for t in [
        "0", "1", "007", "730750818665451459101842416358141509827966271487", "000730750818665451459101842416358141509827966271487",
        "730750818665451459101842416358141509827966271488", "1461501637330902918203684832716283019655932542975",
        "1461501637330902918203684832716283019655932542976", "99999999999999999999999999999999999999999999999999", "hello", "-1", "-0",
        "1 ", " 1", "1.0", "0x10", "1e3", "\u{661}",
    ] {
        serial_text(t)?;
    }
    for c in cases {
        let d = decode_serial(&c);
        ensure_sig!(d.is_err(), "serial-accepts-malformed", "take_from({}) = {:?}: not a non-negative integer below 2^159", show(&c), d);
    }
    Ok(())
}

//------------ serial-enum ------------------------------------------------------

fn serial_domain(thorough: bool, seed: u64) -> Vec<[u8; 20]> {
    let mut set = std::collections::BTreeSet::new();
    let put = |set: &mut std::collections::BTreeSet<[u8; 20]>, l: Limbs| {
        if l[0] & 0x8000_0000 == 0 {
            set.insert(bytes_of(&l));
        }
    };
    for v in 0..=300u32 {
        put(&mut set, [0, 0, 0, 0, v]);
    }
    for k in 0..159usize {
        let mut p = [0u32; 5];
        p[4 - k / 32] = 1 << (k % 32);
        put(&mut set, p);
        // p + 1
        let mut q = p;
        q[4] |= 1;
        if k == 0 {
            q[4] = 2;
        }
        put(&mut set, q);
        // p - 1: all ones below bit k
        let mut m = [0u32; 5];
        for i in 0..5 {
            let lo = (4 - i) * 32;
            m[i] = if k >= lo + 32 { u32::MAX } else if k > lo { (1u32 << (k - lo)) - 1 } else { 0 };
        }
        put(&mut set, m);
    }
    put(&mut set, [0x7fff_ffff, u32::MAX, u32::MAX, u32::MAX, u32::MAX]);
    put(&mut set, [0x7fff_ffff, u32::MAX, u32::MAX, u32::MAX, u32::MAX - 1]);
    let xs = seed_values(seed, "C17", "serials", if thorough { 96 * 3 } else { 16 * 3 });
    for c in xs.chunks(3) {
        let sh = c[0] % 160;
        let mut l = [(c[0] >> 32) as u32 & 0x7fff_ffff, c[1] as u32, (c[1] >> 32) as u32, c[2] as u32, (c[2] >> 32) as u32];
        // shift right by whole limbs / bits to vary the magnitude
        for _ in 0..sh / 32 {
            l = [0, l[0], l[1], l[2], l[3]];
        }
        put(&mut set, l);
    }
    set.into_iter().collect()
}

#[derive(Clone, Debug, Serialize, Deserialize)]
pub struct SerialRow {
    pub thorough: bool,
    pub seed: u64,
    pub a: String,
    pub b: Option<String>,
}

fn count_serial_enum(tier: Tier, seed: u64) -> u64 {
    serial_domain(tier == Tier::Thorough, seed).len() as u64
}
fn make_serial_enum(tier: Tier, seed: u64, idx: u64) -> SerialRow {
    let th = tier == Tier::Thorough;
    SerialRow { thorough: th, seed, a: hex20(&serial_domain(th, seed)[idx as usize]), b: None }
}

fn run_serial_enum(r: &SerialRow, obs: &mut Obs) -> CheckResult {
    let a = unhex20(&r.a)?;
    let Some(sa) = serial_single(&a)? else { return Ok(()) };
    serial_bad_der()?;
    let bs: Vec<[u8; 20]> = match &r.b {
        Some(b) => vec![unhex20(b)?],
        None => serial_domain(r.thorough, r.seed),
    };
    let mut nt = 0u64;
    for b in &bs {
        let sb = Serial::from_array(*b).map_err(|e| Fail::new(format!("domain element {} rejected: {}", hex20(b), e)))?;
        if a != *b {
            nt += 1;
        }
        serial_pair(&a, b, sa, sb)
            .map_err(|f| Fail::sig(f.sig, f.msg).with_case(json!({"thorough": r.thorough, "seed": r.seed, "a": r.a, "b": hex20(b)})))?;
    }
    obs.evals((bs.len() as u64).saturating_sub(1));
    obs.bulk_nontrivial = nt;
    Ok(())
}

//------------ serial-random ----------------------------------------------------

#[derive(Clone, Debug, Serialize, Deserialize)]
pub struct SerialCase {
    pub a: String,
    pub b: String,
    pub text: String,
}

fn array_strategy() -> BoxedStrategy<[u8; 20]> {
    let raw = prop::array::uniform20(any::<u8>());
    prop_oneof![
        // random magnitude with `z` leading zero octets
        4 => (raw.clone(), 0usize..20).prop_map(|(mut a, z)| { a[..z].fill(0); a[0] &= 0x7f; a }),
        // first non-zero octet has its high bit set (needs a padding octet in DER)
        3 => (raw.clone(), 1usize..20).prop_map(|(mut a, z)| { a[..z].fill(0); a[z] |= 0x80; a }),
        // powers of two and neighbours
        3 => (0usize..159, 0u8..3).prop_map(|(k, d)| {
            let mut a = [0u8; 20];
            a[19 - k / 8] = 1 << (k % 8);
            match d {
                1 => { // minus one
                    let mut i = 19;
                    loop { if a[i] == 0 { a[i] = 0xff; i -= 1; } else { a[i] -= 1; break; } }
                }
                2 => a[19] |= 1,
                _ => {}
            }
            a
        }),
        2 => (0u16..1024).prop_map(|v| { let mut a = [0u8; 20]; a[18] = (v >> 8) as u8; a[19] = v as u8; a }),
        1 => Just({ let mut a = [0xffu8; 20]; a[0] = 0x7f; a }),
        // outside the domain: top bit set
        1 => raw.prop_map(|mut a| { a[0] |= 0x80; a }),
    ]
    .boxed()
}

fn serial_strategy(_: Tier) -> BoxedStrategy<SerialCase> {
    (
        array_strategy(),
        array_strategy(),
        0u8..6,
        0u8..12,
        "[0-9]{0,4}",
        "[0-9]{40,52}",
        prop::sample::select(vec!["+", "-", " ", "0x", "a", ".", "١"]),
        any::<u16>(),
    )
        .prop_map(|(a, b0, rel, mutation, digits, long, junk, pos)| {
            let b = match rel {
                0 | 1 => a,
                2 => { // a + 1
                    let mut b = a;
                    for i in (0..20).rev() { let (v, o) = b[i].overflowing_add(1); b[i] = v; if !o { break; } }
                    b
                }
                3 => { // a - 1
                    let mut b = a;
                    for i in (0..20).rev() { let (v, o) = b[i].overflowing_sub(1); b[i] = v; if !o { break; } }
                    b
                }
                _ => b0,
            };
            let canon = limbs_to_dec(limbs_of(&{ let mut m = a; m[0] &= 0x7f; m }));
            let text = match mutation {
                0 | 1 => canon,
                2 => format!("{}{}", "0".repeat(1 + digits.len()), canon),
                3 | 4 => format!("{}{}", canon, digits),
                5 => long,
                6 => format!("{}{}", junk, canon),
                7 => { let mut t = canon; let at = pick_idx(pos, t.len() + 1); t.insert_str(at, junk); t }
                8 => "730750818665451459101842416358141509827966271487".to_string(),
                9 => format!("73075081866545145910184241635814150982796627148{}", 8 + pos % 2),
                10 => format!("{}{}", canon, junk),
                _ => digits,
            };
            SerialCase { a: hex20(&a), b: hex20(&b), text }
        })
        .boxed()
}

fn run_serial_random(c: &SerialCase, obs: &mut Obs) -> CheckResult {
    let (a, b) = (unhex20(&c.a)?, unhex20(&c.b)?);
    let sa = serial_single(&a)?;
    let sb = serial_single(&b)?;
    obs.label_if(sa.is_none() || sb.is_none(), "top-bit-set");
    if let Some(s) = sa {
        let first = a.iter().position(|&x| x != 0).unwrap_or(19);
        obs.label_if(a[first] & 0x80 != 0, "needs-der-padding");
        obs.label_if(first == 0, "full-20-octets");
        let _ = s;
    }
    if let (Some(sa), Some(sb)) = (sa, sb) {
        serial_pair(&a, &b, sa, sb)?;
        serial_pair(&b, &a, sb, sa)?;
        obs.label(if a == b { "pair-equal" } else { "pair-distinct" });
        obs.nontrivial_if(a != b);
    }
    let accepted = serial_text(&c.text)?;
    obs.label(match classify_text(&c.text) {
        TextVerdict::Accept(_) => "text-valid",
        TextVerdict::Reject => if c.text.bytes().all(|b| b.is_ascii_digit()) { "text-overflow" } else { "text-garbage" },
        TextVerdict::Free => "text-dont-care",
    });
    if accepted {
        let canon = sa.map(|s| s.to_string());
        obs.nontrivial_if(canon.as_deref() != Some(c.text.as_str()));
        obs.label_if(c.text.starts_with('0') && c.text.len() > 1, "text-leading-zeros");
    }
    Ok(())
}

//------------ property ---------------------------------------------------------

pub fn property() -> Property {
    Property {
        id: "C17",
        rule: RULE,
        assumptions: vec![
            "domain is whole seconds of years 1..9999 (sub-second parts are dropped by the encoders by design and are not generated)",
            "year 0000 and second 60 are don't-care for the decoder; everything else is must-accept or must-reject",
            "time values are offered as a single DER TLV with a short-form length; tag numbers other than 23/24 must be rejected by take_from",
            "Serial zero may render as \"\" or \"0\"; the empty string and a leading '+' are don't-care for Serial::from_str, any other non-digit and values >= 2^159 must be rejected",
            "non-minimal DER integers are don't-care for Serial::take_from (bcder decides); negative, empty and >= 2^159 integers must be rejected",
            "chrono's timestamp <-> DateTime conversion is cross-checked against the harness calendar on every evaluated instant rather than trusted",
        ],
        subs: vec![
            EnumSub { name: "days", count: count_days, make: make_days, run: run_days, exhaustive: true }.boxed(),
            EnumSub { name: "seconds", count: count_seconds, make: make_seconds, run: run_seconds, exhaustive: true }.boxed(),
            EnumSub { name: "strings", count: count_strings, make: make_strings, run: run_strings, exhaustive: true }.boxed(),
            EnumSub { name: "validity", count: count_validity, make: make_validity, run: run_validity, exhaustive: true }.boxed(),
            PropSub {
                name: "validity-subsecond",
                strategy: subsec_strategy,
                cases: |t| t.pick(1_000_000, 20_000_000),
                run: run_subsec,
                floors: &[("subsecond-near-edge", 0.3), ("inside", 0.2), ("outside", 0.2), ("trim-same-second-bounds", 0.1)],
            }
            .boxed(),
            PropSub {
                name: "validity-now",
                strategy: now_strategy,
                cases: |t| t.pick(60_000, 1_000_000),
                run: run_now,
                floors: &[("now-just-expired", 0.1), ("now-not-yet-valid", 0.1), ("now-same-clock-second", 0.05)],
            }
            .boxed(),
            EnumSub { name: "serial-enum", count: count_serial_enum, make: make_serial_enum, run: run_serial_enum, exhaustive: true }.boxed(),
            PropSub {
                name: "serial-random",
                strategy: serial_strategy,
                cases: |t| t.pick(2_000_000, 20_000_000),
                run: run_serial_random,
                floors: &[
                    ("needs-der-padding", 0.15), ("full-20-octets", 0.04), ("top-bit-set", 0.04), ("pair-distinct", 0.25),
                    ("pair-equal", 0.15), ("text-valid", 0.25), ("text-overflow", 0.06), ("text-garbage", 0.1),
                    ("text-leading-zeros", 0.04),
                ],
            }
            .boxed(),
        ],
    }
}
