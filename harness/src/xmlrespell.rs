//! Re-spelling of XML the library wrote: the same document (same elements, attributes,
//! character data) as another XML writer might have put it — attributes in another
//! order and with the other quote character, white space inside tags, `<x/>` versus
//! `<x></x>`, comments and white space between elements, characters of attribute
//! values written as character references, and RFC 3339 time stamps with a numeric
//! offset instead of `Z`. Used by C11 and C09 for the relation "an equivalent
//! document parses to an equal value or is refused — never to a different value".
//!
//! Only what the tokenizer fully understands is re-spelled (the library's writer
//! produces a small subset of XML: declaration, start / end / empty tags with quoted
//! attributes, character data with the five predefined entities); anything else makes
//! `respell` return `None`.

#[derive(Clone, Debug, PartialEq)]
enum Tok {
    Decl(String),
    Start { name: String, attrs: Vec<(String, String)>, empty: bool },
    End(String),
    Text(String),
}

fn mix(st: &mut u64) -> u64 {
    *st = st.wrapping_add(0x9E37_79B9_7F4A_7C15);
    let mut z = *st;
    z = (z ^ (z >> 30)).wrapping_mul(0xBF58_476D_1CE4_E5B9);
    z = (z ^ (z >> 27)).wrapping_mul(0x94D0_49BB_1331_11EB);
    z ^ (z >> 31)
}

fn is_name_char(c: char) -> bool {
    c.is_ascii_alphanumeric() || matches!(c, '_' | '-' | ':' | '.')
}

fn tokenize(doc: &str) -> Option<Vec<Tok>> {
    let mut out = Vec::new();
    let mut rest = doc;
    while !rest.is_empty() {
        if let Some(r) = rest.strip_prefix("<?") {
            let end = r.find("?>")?;
            out.push(Tok::Decl(rest[..end + 4].to_string()));
            rest = &r[end + 2..];
        } else if rest.starts_with("<!") {
            return None;
        } else if let Some(r) = rest.strip_prefix("</") {
            let end = r.find('>')?;
            let name = r[..end].trim_end();
            if name.is_empty() || !name.chars().all(is_name_char) {
                return None;
            }
            out.push(Tok::End(name.to_string()));
            rest = &r[end + 1..];
        } else if let Some(r) = rest.strip_prefix('<') {
            let nlen = r.find(|c: char| !is_name_char(c))?;
            if nlen == 0 {
                return None;
            }
            let name = r[..nlen].to_string();
            let mut r = &r[nlen..];
            let mut attrs = Vec::new();
            let empty;
            loop {
                r = r.trim_start();
                if let Some(x) = r.strip_prefix("/>") {
                    empty = true;
                    r = x;
                    break;
                }
                if let Some(x) = r.strip_prefix('>') {
                    empty = false;
                    r = x;
                    break;
                }
                let klen = r.find(|c: char| !is_name_char(c))?;
                if klen == 0 {
                    return None;
                }
                let key = r[..klen].to_string();
                r = r[klen..].trim_start().strip_prefix('=')?.trim_start();
                let q = r.chars().next()?;
                if q != '"' && q != '\'' {
                    return None;
                }
                let vend = r[1..].find(q)?;
                let val = &r[1..1 + vend];
                if val.contains('<') {
                    return None;
                }
                // keep the value in a quote-neutral form: both quote characters escaped
                attrs.push((key, val.replace('"', "&quot;").replace('\'', "&apos;")));
                r = &r[vend + 2..];
            }
            out.push(Tok::Start { name, attrs, empty });
            rest = r;
        } else {
            let end = rest.find('<').unwrap_or(rest.len());
            out.push(Tok::Text(rest[..end].to_string()));
            rest = &rest[end..];
        }
    }
    Some(out)
}

fn days_from_civil(y: i64, m: i64, d: i64) -> i64 {
    let y = if m <= 2 { y - 1 } else { y };
    let era = if y >= 0 { y } else { y - 399 } / 400;
    let yoe = y - era * 400;
    let doy = (153 * (m + if m > 2 { -3 } else { 9 }) + 2) / 5 + d - 1;
    let doe = yoe * 365 + yoe / 4 - yoe / 100 + doy;
    era * 146_097 + doe - 719_468
}

fn civil_from_days(z: i64) -> (i64, i64, i64) {
    let z = z + 719_468;
    let era = if z >= 0 { z } else { z - 146_096 } / 146_097;
    let doe = z - era * 146_097;
    let yoe = (doe - doe / 1460 + doe / 36_524 - doe / 146_096) / 365;
    let y = yoe + era * 400;
    let doy = doe - (365 * yoe + yoe / 4 - yoe / 100);
    let mp = (5 * doy + 2) / 153;
    let d = doy - (153 * mp + 2) / 5 + 1;
    let m = if mp < 10 { mp + 3 } else { mp - 9 };
    (if m <= 2 { y + 1 } else { y }, m, d)
}

/// `YYYY-MM-DDTHH:MM:SSZ` with another, equivalent UTC offset.
fn respell_time(v: &str, st: &mut u64) -> Option<String> {
    let b = v.as_bytes();
    if b.len() != 20 || b[4] != b'-' || b[7] != b'-' || b[10] != b'T' || b[13] != b':' || b[16] != b':' || b[19] != b'Z' {
        return None;
    }
    let num = |r: std::ops::Range<usize>| v[r].parse::<i64>().ok();
    let (y, mo, d, h, mi, s) = (num(0..4)?, num(5..7)?, num(8..10)?, num(11..13)?, num(14..16)?, num(17..19)?);
    let secs = days_from_civil(y, mo, d) * 86_400 + h * 3600 + mi * 60 + s;
    let off_min: i64 = [0, 0, 60, 120, -300, 330, -570, 825, -720, 1][(mix(st) % 10) as usize];
    let local = secs + off_min * 60;
    let (days, sod) = (local.div_euclid(86_400), local.rem_euclid(86_400));
    let (y2, m2, d2) = civil_from_days(days);
    if !(1..=9999).contains(&y2) {
        return None;
    }
    let sign = if off_min < 0 { '-' } else { '+' };
    Some(format!(
        "{:04}-{:02}-{:02}T{:02}:{:02}:{:02}{}{:02}:{:02}",
        y2, m2, d2, sod / 3600, sod / 60 % 60, sod % 60, sign, off_min.abs() / 60, off_min.abs() % 60
    ))
}

fn respell_value(v: &str, st: &mut u64, times: bool) -> String {
    if times && mix(st) % 2 == 0 {
        if let Some(t) = respell_time(v, st) {
            return t;
        }
    }
    // some plain ASCII letters and digits as character references (never inside an
    // entity reference)
    if mix(st) % 3 != 0 {
        return v.to_string();
    }
    let mut out = String::new();
    let mut in_ref = false;
    for ch in v.chars() {
        if ch == '&' {
            in_ref = true;
        }
        if !in_ref && ch.is_ascii_alphanumeric() && mix(st) % 5 == 0 {
            if mix(st) % 2 == 0 {
                out.push_str(&format!("&#x{:X};", ch as u32));
            } else {
                out.push_str(&format!("&#{};", ch as u32));
            }
        } else {
            out.push(ch);
        }
        if ch == ';' {
            in_ref = false;
        }
    }
    out
}

fn filler(st: &mut u64, out: &mut String) {
    match mix(st) % 10 {
        0 => out.push_str("<!-- a comment -->"),
        1 => out.push_str("\n  "),
        2 => out.push_str("\n<!--x-->\n"),
        3 => out.push(' '),
        _ => {}
    }
}

pub struct Respelled {
    pub text: String,
    /// a time stamp was written with a numeric offset
    pub time_offset: bool,
}

/// Another spelling of `doc`; `None` if the tokenizer does not cover the document.
pub fn respell(doc: &str, seed: u64) -> Option<Respelled> {
    let toks = tokenize(doc)?;
    let mut st = seed;
    let mut out = String::new();
    let mut time_offset = false;
    let n = toks.len();
    let mut i = 0;
    // text nodes that hold character data (not just white space) keep their
    // neighbourhood untouched
    let significant = |t: Option<&Tok>| matches!(t, Some(Tok::Text(s)) if !s.trim().is_empty());
    while i < n {
        let prev_sig = i > 0 && significant(toks.get(i - 1));
        match &toks[i] {
            Tok::Decl(d) => out.push_str(d),
            Tok::Text(s) => out.push_str(s),
            Tok::End(name) => {
                if !prev_sig && !matches!(toks.get(i.wrapping_sub(1)), Some(Tok::Start { empty: false, .. })) {
                    filler(&mut st, &mut out);
                }
                out.push_str("</");
                out.push_str(name);
                if mix(&mut st) % 6 == 0 {
                    out.push(' ');
                }
                out.push('>');
            }
            Tok::Start { name, attrs, empty } => {
                if !prev_sig && i > 0 {
                    filler(&mut st, &mut out);
                }
                let mut attrs: Vec<&(String, String)> = attrs.iter().collect();
                for k in (1..attrs.len()).rev() {
                    let j = (mix(&mut st) % (k as u64 + 1)) as usize;
                    attrs.swap(k, j);
                }
                out.push('<');
                out.push_str(name);
                for (k, v) in attrs {
                    out.push_str(if mix(&mut st) % 5 == 0 { "\n   " } else { " " });
                    out.push_str(k);
                    out.push_str(match mix(&mut st) % 6 {
                        0 => " = ",
                        1 => "= ",
                        _ => "=",
                    });
                    let v2 = respell_value(v, &mut st, true);
                    time_offset |= v2 != *v && v2.len() == 25 && v.len() == 20;
                    let q = if mix(&mut st) % 2 == 0 { '"' } else { '\'' };
                    out.push(q);
                    out.push_str(&v2);
                    out.push(q);
                }
                // an element without content in either form
                let followed_by_end = matches!(toks.get(i + 1), Some(Tok::End(e)) if e == name);
                let is_empty = *empty || (!*empty && followed_by_end);
                if is_empty {
                    if !*empty {
                        i += 1; // swallow the end tag
                    }
                    match mix(&mut st) % 3 {
                        0 => out.push_str("/>"),
                        1 => out.push_str(" />"),
                        _ => {
                            out.push_str("></");
                            out.push_str(name);
                            out.push('>');
                        }
                    }
                } else {
                    out.push('>');
                }
            }
        }
        i += 1;
    }
    if mix(&mut st) % 4 == 0 {
        out.push_str("\n<!-- trailing -->\n");
    }
    Some(Respelled { text: out, time_offset })
}

#[cfg(test)]
mod tests {
    use super::*;
    #[test]
    fn roundtrip_tokens() {
        let doc = r#"<?xml version="1.0"?><a x="1" y='b&amp;"c'><b/><c>text &lt;</c><d t="2020-01-01T00:00:00Z"></d></a>"#;
        for seed in 0..200 {
            let r = respell(doc, seed).unwrap();
            assert!(r.text.contains("text &lt;"));
        }
    }
}
