//! C04 oracle: decode one byte string through one entry point and, if the
//! decoder accepts it, touch every accessor / iterator / re-encoder of the
//! decoded value. A panic anywhere in here is the property violation; the
//! caller (vcheck's engine, or the `der_decoders` fuzz target) observes it.
//!
//! This file is shared with `/verif/fuzz` through `#[path]` and therefore
//! depends on `rpki`, `bytes` and `std` only (bcder through `rpki::dep`).

#![allow(dead_code)]
#![allow(clippy::all)]

use std::alloc::{GlobalAlloc, Layout, System};
use std::cell::Cell;
use std::fmt::{self, Write as _};
use std::str::FromStr;
use std::sync::OnceLock;

use rpki::ca::csr::{BgpsecCsr, RpkiCaCsr};
use rpki::ca::idcert::IdCert;
use rpki::ca::provisioning::ProvisioningCms;
use rpki::ca::publication::PublicationCms;
use rpki::ca::sigmsg::SignedMessage;
use rpki::crypto::{
    BgpsecSignatureAlgorithm, KeyIdentifier, PublicKey, RpkiSignatureAlgorithm,
};
use rpki::dep::bcder::encode::Values as _;
use rpki::dep::bcder::Mode;
use rpki::repository::aspa::Aspa;
use rpki::repository::cert::{Cert, Overclaim, ResourceCert, TbsCert};
use rpki::repository::crl::Crl;
#[allow(deprecated)]
use rpki::repository::crl::CrlStore;
use rpki::repository::manifest::Manifest;
use rpki::repository::resources::{
    AddressFamily, AsBlock, AsBlocks, AsResources, IpBlock, IpBlocks, IpResources, ResourceSet,
};
use rpki::repository::roa::Roa;
use rpki::repository::rta::{MultiSignedObject, Rta, RtaBuilder, Validation};
use rpki::repository::sigobj::SignedObject;
use rpki::repository::tal::{ReadError, Tal, TalInfo};
use rpki::repository::x509::{Name, Serial, SignedData, Time};
use rpki::resources::Asn;
use rpki::uri;

//------------ entry points -----------------------------------------------------

pub const CERT: u8 = 0;
pub const CRL: u8 = 1;
pub const MANIFEST: u8 = 2;
pub const ROA: u8 = 3;
pub const ASPA: u8 = 4;
pub const RTA: u8 = 5;
pub const SIGOBJ: u8 = 6;
pub const TAL: u8 = 7;
pub const PUBKEY: u8 = 8;
pub const CA_CSR: u8 = 9;
pub const BGPSEC_CSR: u8 = 10;
pub const IDCERT: u8 = 11;
pub const SIGMSG: u8 = 12;
pub const PROV_CMS: u8 = 13;
pub const PUB_CMS: u8 = 14;
/// The manifest content decoded on its own through the public
/// `ManifestContent::take_from` (the switch selects DER or BER mode; the
/// ROA and ASPA content decoders are private).
pub const MFT_CONTENT: u8 = 15;
pub const N_ENTRIES: u8 = 16;

/// (name, has a strict/relaxed switch)
pub const ENTRIES: [(&str, bool); N_ENTRIES as usize] = [
    ("cert", true),
    ("crl", true),
    ("manifest", true),
    ("roa", true),
    ("aspa", true),
    ("rta", true),
    ("sigobj", true),
    ("tal", false),
    ("pubkey", true),
    ("ca-csr", false),
    ("bgpsec-csr", false),
    ("idcert", true),
    ("sigmsg", true),
    ("prov-cms", false),
    ("pub-cms", false),
    ("manifest-content", true),
];

/// Selector octet used by the fuzz target and the corpus files:
/// low 5 bits = entry point (mod N_ENTRIES), bit 7 = strict.
pub fn selector(entry: u8, strict: bool) -> u8 {
    (entry % N_ENTRIES) | if strict { 0x80 } else { 0 }
}

pub fn split_selector(sel: u8) -> (u8, bool) {
    ((sel & 0x1f) % N_ENTRIES, sel & 0x80 != 0)
}

#[derive(Clone, Copy, Debug, Default)]
pub struct Outcome {
    /// the decoder returned a value and the accessor walk ran
    pub ok: bool,
    /// the decoder got past the outer wrapper into typed content (first
    /// decoding stage succeeded: SignedData / SignedObject / SignedMessage /
    /// key-info text)
    pub stage1: bool,
    /// position reported by the decode error, if any
    pub err_pos: Option<usize>,
    /// number of accessor results touched
    pub steps: u32,
    /// a protocol message validated under one of the extra trusted keys
    pub validated: bool,
}

//------------ sinks --------------------------------------------------------------

/// fmt::Write sink that allocates nothing.
struct Sink(u64);

impl fmt::Write for Sink {
    fn write_str(&mut self, s: &str) -> fmt::Result {
        self.0 = self.0.wrapping_mul(31).wrapping_add(s.len() as u64);
        if let Some(b) = s.as_bytes().first() {
            self.0 ^= *b as u64;
        }
        Ok(())
    }
}

struct Walk {
    sink: Sink,
    steps: u32,
    validated: bool,
}

const ITER_CAP: usize = 4096;

impl Walk {
    fn new() -> Self {
        Walk { sink: Sink(0), steps: 0, validated: false }
    }
    fn show<T: fmt::Display>(&mut self, t: T) {
        let _ = write!(self.sink, "{}", t);
        self.steps += 1;
    }
    fn dbg<T: fmt::Debug>(&mut self, t: T) {
        let _ = write!(self.sink, "{:?}", t);
        self.steps += 1;
    }
    fn see<T>(&mut self, t: T) {
        std::hint::black_box(&t);
        self.steps += 1;
    }
    fn bytes(&mut self, b: &[u8]) {
        self.sink.0 = self.sink.0.wrapping_add(b.len() as u64);
        if let (Some(f), Some(l)) = (b.first(), b.last()) {
            self.sink.0 ^= ((*f as u64) << 8) | *l as u64;
        }
        self.steps += 1;
    }
}

fn err_pos<E: fmt::Display>(e: &E) -> Option<usize> {
    // bcder renders content errors as "<msg> (at position N)"
    let mut s = PosSink { buf: [0; 96], len: 0 };
    let _ = write!(s, "{}", e);
    let text = &s.buf[..s.len];
    let key = b"(at position ";
    let at = text.windows(key.len()).rposition(|w| w == key)?;
    let mut v: usize = 0;
    let mut any = false;
    for &c in &text[at + key.len()..] {
        if c.is_ascii_digit() {
            v = v.saturating_mul(10).saturating_add((c - b'0') as usize);
            any = true;
        } else {
            break;
        }
    }
    any.then_some(v)
}

/// Keeps the last 96 octets of what is written to it.
struct PosSink {
    buf: [u8; 96],
    len: usize,
}

impl fmt::Write for PosSink {
    fn write_str(&mut self, s: &str) -> fmt::Result {
        for &b in s.as_bytes() {
            if self.len == self.buf.len() {
                self.buf.copy_within(1.., 0);
                self.len -= 1;
            }
            self.buf[self.len] = b;
            self.len += 1;
        }
        Ok(())
    }
}

//------------ fixed context ------------------------------------------------------

pub struct Fixed {
    pub ta: ResourceCert,
    pub ta_cert: Cert,
    pub ca: Option<ResourceCert>,
    pub tal: Tal,
    pub key_rsa: PublicKey,
    pub base: uri::Rsync,
    pub t_fixed: Time,
    pub issuer_v4: IpBlocks,
    pub issuer_v6: IpBlocks,
    pub issuer_as: AsBlocks,
}

static TA_CER: &[u8] = include_bytes!("/repo/test-data/repository/ta.cer");
static CA1_CER: &[u8] = include_bytes!("/repo/test-data/repository/ca1.cer");
static RIPE_TAL: &[u8] = include_bytes!("/repo/test-data/repository/ripe.tal");
static ID_TA_CER: &[u8] = include_bytes!("/repo/test-data/ca/id_ta.cer");

/// Issuer certificate, key and TAL every decoded value is validated against.
pub fn fixed() -> &'static Fixed {
    static F: OnceLock<Fixed> = OnceLock::new();
    F.get_or_init(|| {
        let ta_cert = Cert::decode(TA_CER).expect("ta.cer decodes");
        let t = ta_cert.validity().not_before();
        let info = TalInfo::from_name("c04".into()).into_arc();
        let ta = ta_cert.clone().validate_ta_at(info, false, t).expect("ta.cer validates at its notBefore");
        let ca = Cert::decode(CA1_CER).ok().and_then(|c| {
            let t = c.validity().not_before();
            c.validate_ca_at(&ta, false, t).ok()
        });
        let tal = Tal::read_named("c04".into(), &mut &RIPE_TAL[..]).expect("ripe.tal reads");
        let id_ta = IdCert::decode(ID_TA_CER).expect("id_ta.cer decodes");
        let key_rsa = id_ta.public_key().clone();
        let issuer_v4 = IpBlocks::from_str("10.0.0.0/8, 192.0.2.0/24, 193.0.0.0-193.0.23.255").expect("v4 blocks");
        let issuer_v6 = IpBlocks::from_str("2001:db8::/32, 2001:610::/29").expect("v6 blocks");
        let issuer_as = AsBlocks::from_str("AS0-AS1000, AS64496-AS64511, AS4200000000-AS4294967295").expect("as blocks");
        Fixed {
            ta,
            ta_cert,
            ca,
            tal,
            key_rsa,
            base: uri::Rsync::from_str("rsync://example.com/module/dir/").expect("base uri"),
            t_fixed: Time::utc(2024, 6, 1, 0, 0, 0),
            issuer_v4,
            issuer_v6,
            issuer_as,
        }
    })
}

/// Additional issuer keys (with the time to validate at) that protocol
/// messages are validated against. Used by vcheck for messages it signs itself.
static EXTRA: OnceLock<Vec<(PublicKey, Time)>> = OnceLock::new();

pub fn trust(keys: Vec<(PublicKey, Time)>) {
    let _ = EXTRA.set(keys);
}

fn extra() -> &'static [(PublicKey, Time)] {
    EXTRA.get().map(|v| v.as_slice()).unwrap_or(&[])
}

//------------ decode + walk ------------------------------------------------------

/// Decodes `data` through entry point `entry` and walks the result.
pub fn decode_and_walk(entry: u8, strict: bool, data: &[u8]) -> Outcome {
    let fx = fixed();
    let mut w = Walk::new();
    let mut out = Outcome::default();
    match entry % N_ENTRIES {
        // no strict flag of their own: the switch selects X::decode (DER) or the public
        // X::take_from under a BER-mode decoder
        CERT => match if strict { Cert::decode(data) } else { Mode::Ber.decode(data, Cert::take_from) } {
            Ok(c) => {
                out.ok = true;
                walk_cert(&mut w, fx, &c, true);
                recode(&mut w, c.to_captured().as_slice(), |b| Cert::decode(b).is_ok());
            }
            Err(e) => {
                out.err_pos = err_pos(&e);
                out.stage1 = SignedData::<RpkiSignatureAlgorithm>::decode(data).is_ok();
            }
        },
        CRL => match if strict { Crl::decode(data) } else { Mode::Ber.decode(data, Crl::take_from) } {
            Ok(c) => {
                out.ok = true;
                walk_crl(&mut w, fx, c);
            }
            Err(e) => {
                out.err_pos = err_pos(&e);
                out.stage1 = SignedData::<RpkiSignatureAlgorithm>::decode(data).is_ok();
            }
        },
        MANIFEST => match Manifest::decode(data, strict) {
            Ok(m) => {
                out.ok = true;
                walk_manifest(&mut w, fx, m, strict);
            }
            Err(e) => {
                out.err_pos = err_pos(&e);
                out.stage1 = SignedObject::decode(data, strict).is_ok();
            }
        },
        ROA => match Roa::decode(data, strict) {
            Ok(r) => {
                out.ok = true;
                walk_roa(&mut w, fx, r, strict);
            }
            Err(e) => {
                out.err_pos = err_pos(&e);
                out.stage1 = SignedObject::decode(data, strict).is_ok();
            }
        },
        ASPA => match Aspa::decode(data, strict) {
            Ok(a) => {
                out.ok = true;
                walk_aspa(&mut w, fx, a, strict);
            }
            Err(e) => {
                out.err_pos = err_pos(&e);
                out.stage1 = SignedObject::decode(data, strict).is_ok();
            }
        },
        RTA => match Rta::decode(data, strict) {
            Ok(r) => {
                out.ok = true;
                walk_rta(&mut w, fx, r, strict);
            }
            Err(e) => {
                out.err_pos = err_pos(&e);
                out.stage1 = MultiSignedObject::decode(data, strict).is_ok();
            }
        },
        SIGOBJ => match SignedObject::decode(data, strict) {
            Ok(s) => {
                out.ok = true;
                walk_sigobj(&mut w, fx, s, strict);
            }
            Err(e) => out.err_pos = err_pos(&e),
        },
        TAL => {
            let mut rd = data;
            match Tal::read_named("fuzz".into(), &mut rd) {
                Ok(t) => {
                    out.ok = true;
                    walk_tal(&mut w, fx, t);
                }
                Err(ReadError::BadKeyInfo(e)) => {
                    out.stage1 = true;
                    out.err_pos = err_pos(&e);
                }
                Err(e) => w.show(e),
            }
        }
        PUBKEY => match if strict { PublicKey::decode(data) } else { Mode::Ber.decode(data, PublicKey::take_from) } {
            Ok(k) => {
                out.ok = true;
                walk_pubkey(&mut w, &k);
                recode(&mut w, k.to_info_bytes().as_ref(), |b| PublicKey::decode(b).is_ok());
            }
            Err(e) => out.err_pos = err_pos(&e),
        },
        CA_CSR => match RpkiCaCsr::decode(data) {
            Ok(c) => {
                out.ok = true;
                walk_ca_csr(&mut w, &c);
            }
            Err(e) => {
                out.err_pos = err_pos(&e);
                out.stage1 = SignedData::<RpkiSignatureAlgorithm>::decode(data).is_ok();
            }
        },
        BGPSEC_CSR => match BgpsecCsr::decode(data) {
            Ok(c) => {
                out.ok = true;
                walk_bgpsec_csr(&mut w, &c);
            }
            Err(e) => {
                out.err_pos = err_pos(&e);
                out.stage1 = SignedData::<BgpsecSignatureAlgorithm>::decode(data).is_ok();
            }
        },
        IDCERT => match if strict { IdCert::decode(data) } else { Mode::Ber.decode(data, IdCert::take_from) } {
            Ok(c) => {
                out.ok = true;
                walk_idcert(&mut w, fx, &c);
            }
            Err(e) => {
                out.err_pos = err_pos(&e);
                out.stage1 = SignedData::<RpkiSignatureAlgorithm>::decode(data).is_ok();
            }
        },
        SIGMSG => match SignedMessage::decode(data, strict) {
            Ok(m) => {
                out.ok = true;
                walk_sigmsg(&mut w, fx, &m);
            }
            Err(e) => out.err_pos = err_pos(&e),
        },
        PROV_CMS => match ProvisioningCms::decode(data) {
            Ok(c) => {
                out.ok = true;
                walk_prov(&mut w, fx, c);
            }
            Err(e) => {
                w.show(&e);
                out.err_pos = err_pos(&e);
                out.stage1 = SignedMessage::decode(data, false).is_ok();
            }
        },
        PUB_CMS => match PublicationCms::decode(data) {
            Ok(c) => {
                out.ok = true;
                walk_publ(&mut w, fx, c);
            }
            Err(e) => {
                w.show(&e);
                out.err_pos = err_pos(&e);
                out.stage1 = SignedMessage::decode(data, false).is_ok();
            }
        },
        _ => {
            let mode = if strict { Mode::Der } else { Mode::Ber };
            match mode.decode(data, rpki::repository::manifest::ManifestContent::take_from) {
                Ok(c) => {
                    out.ok = true;
                    walk_mft_content(&mut w, fx, &c, None);
                    let der = c.encode_ref().to_captured(Mode::Der);
                    recode(&mut w, der.as_slice(), |b| Mode::Der.decode(b, rpki::repository::manifest::ManifestContent::take_from).is_ok());
                    w.bytes(c.encode_ref().to_captured(Mode::Ber).as_slice());
                }
                Err(e) => out.err_pos = err_pos(&e),
            }
        }
    }
    out.steps = w.steps;
    out.validated = w.validated;
    std::hint::black_box(w.sink.0);
    out
}

/// Re-decodes a re-encoded value (the result is not judged here: C05 owns
/// round-trip equality; C04 only requires the calls not to panic).
fn recode(w: &mut Walk, bytes: &[u8], f: impl FnOnce(&[u8]) -> bool) {
    w.bytes(bytes);
    let ok = f(bytes);
    w.see(ok);
}

//------------ small values --------------------------------------------------------

fn walk_serial(w: &mut Walk, s: Serial) {
    w.show(s);
    w.dbg(s);
    w.see(s.into_array());
    w.see(Serial::from_slice(&s.into_array()).is_ok());
}

fn walk_keyid(w: &mut Walk, k: KeyIdentifier) {
    w.show(k);
    w.bytes(k.as_slice());
    w.see(k.into_hex());
}

fn walk_name(w: &mut Walk, n: &Name) {
    w.see(n.inspect_rpki(true).is_ok());
    w.see(n.inspect_rpki(false).is_ok());
    w.see(n.inspect_router(true).is_ok());
    w.see(n.inspect_router(false).is_ok());
    w.see(n == n);
    let c = n.encode_ref().to_captured(Mode::Ber);
    w.bytes(c.as_slice());
}

fn walk_time(w: &mut Walk, fx: &Fixed, t: Time) {
    w.see(t.timestamp());
    w.see(t.verify_not_before(fx.t_fixed).is_ok());
    w.see(t.verify_not_after(fx.t_fixed).is_ok());
    w.bytes(t.encode_varied().to_captured(Mode::Der).as_slice());
    w.bytes(t.encode_utc_time().to_captured(Mode::Der).as_slice());
    w.bytes(t.encode_generalized_time().to_captured(Mode::Der).as_slice());
    w.dbg(t);
}

fn walk_rsync(w: &mut Walk, u: &uri::Rsync) {
    w.show(u);
    w.see(u.as_str().len());
    w.see(u.authority().len());
    w.see(u.canonical_authority().len());
    w.see(u.module_name().len());
    w.see(u.module().len());
    w.see(u.canonical_module().len());
    w.see(u.path().len());
    w.see(u.path_is_dir());
    w.see(u.path_bytes().len());
    w.see(u.parent().map(|p| p.as_str().len()));
    w.see(u.ends_with(".cer"));
    w.see(u.join(b"x.cer").is_ok());
    w.see(u.relative_to(u).map(|s| s.len()));
    w.see(u.is_parent_of(u));
    w.bytes(u.encode_general_name().to_captured(Mode::Der).as_slice());
}

fn walk_https(w: &mut Walk, u: &uri::Https) {
    w.show(u);
    w.see(u.as_str().len());
    w.see(u.authority().len());
    w.see(u.canonical_authority().len());
    w.see(u.path().len());
    w.see(u.path_is_dir());
    w.see(u.parent().map(|p| p.as_str().len()));
    w.see(u.join(b"x.xml").is_ok());
    w.see(u.eq_authority(u));
    w.bytes(u.encode_general_name().to_captured(Mode::Der).as_slice());
}

fn walk_pubkey(w: &mut Walk, k: &PublicKey) {
    w.dbg(k.algorithm());
    w.bytes(k.bits());
    w.see(k.bits_bytes().len());
    w.see(k.allow_rpki_cert());
    w.see(k.allow_router_cert());
    walk_keyid(w, k.key_identifier());
    w.bytes(k.to_info_bytes().as_ref());
    w.bytes(k.encode_subject_name().to_captured(Mode::Der).as_slice());
    let n = k.to_subject_name();
    w.see(n.inspect_rpki(true).is_ok());
    w.see(PublicKey::rsa_from_bits_bytes(k.bits_bytes()).is_ok());
    w.see(k == k);
}

//------------ resources -----------------------------------------------------------

fn walk_ip_block(w: &mut Walk, b: IpBlock, v4: bool, detail: bool) {
    w.see(b.min());
    w.see(b.max());
    w.see(b.is_slash_zero());
    if v4 {
        w.show(b.display_v4());
    } else {
        w.show(b.display_v6());
    }
    w.dbg(b);
    match b {
        IpBlock::Prefix(p) => {
            w.see(p.addr().to_bits());
            w.see(p.addr_len());
            w.see(p.range());
            w.see(p.min());
            w.see(p.max());
            w.see(p.to_v4());
            w.see(p.to_v6());
        }
        IpBlock::Range(r) => {
            w.see(r.min().to_bits());
            w.see(r.max().to_bits());
            w.see(r.into_prefix().is_ok());
            if detail {
                if v4 {
                    w.see(r.to_v4_prefixes().count());
                } else {
                    w.see(r.to_v6_prefixes().count());
                }
                w.bytes(r.encode().to_captured(Mode::Der).as_slice());
            }
        }
    }
    if detail {
        w.bytes(b.encode().to_captured(Mode::Der).as_slice());
    }
}

fn walk_ip_blocks(w: &mut Walk, fx: &Fixed, b: &IpBlocks, v4: bool) {
    w.see(b.is_empty());
    for (i, blk) in b.iter().take(ITER_CAP).enumerate() {
        walk_ip_block(w, blk, v4, i < 64);
    }
    if v4 {
        w.show(b.as_v4());
    } else {
        w.show(b.as_v6());
    }
    w.dbg(b);
    let issuer = if v4 { &fx.issuer_v4 } else { &fx.issuer_v6 };
    w.see(issuer.contains(b));
    w.see(b.contains(issuer));
    w.see(b.contains(b));
    let i = b.intersection(issuer);
    w.see(i.iter().take(ITER_CAP).count());
    let i2 = issuer.intersection(b);
    w.see(i2 == i);
    let d = b.difference(issuer);
    w.see(d.iter().take(ITER_CAP).count());
    let d2 = issuer.difference(b);
    w.see(d2.iter().take(ITER_CAP).count());
    let u = b.union(issuer);
    w.see(u.iter().take(ITER_CAP).count());
    let mut m = b.clone();
    m.intersection_assign(issuer);
    w.see(m.is_empty());
    for blk in issuer.iter() {
        w.see(b.contains_block(blk));
        w.see(b.intersects_block(blk));
    }
    let res = IpResources::blocks(b.clone());
    w.see(issuer.verify_issued(&res, Overclaim::Refuse).is_ok());
    w.see(issuer.verify_issued(&res, Overclaim::Trim).map(|r| r.is_empty()).ok());
    w.see(b.verify_covered(&IpResources::blocks(issuer.clone())).is_ok());
    w.see(b.verify_covered(&IpResources::missing()).is_ok());
    w.see(b == b);
    w.bytes(b.encode_ref().to_captured(Mode::Der).as_slice());
}

fn walk_ip_res(w: &mut Walk, fx: &Fixed, r: &IpResources, v4: bool) {
    w.see(r.is_inherited());
    w.see(r.is_present());
    w.dbg(r);
    match r.to_blocks() {
        Ok(b) => walk_ip_blocks(w, fx, &b, v4),
        Err(e) => w.show(e),
    }
    let issuer = if v4 { &fx.issuer_v4 } else { &fx.issuer_v6 };
    w.see(issuer.verify_issued(r, Overclaim::Refuse).is_ok());
    w.see(issuer.verify_issued(r, Overclaim::Trim).is_ok());
    w.see(IpBlocks::from_resources(r.clone()).is_ok());
    w.bytes(r.encode_ref().to_captured(Mode::Der).as_slice());
    w.bytes(
        r.encode_family(if v4 { AddressFamily::Ipv4 } else { AddressFamily::Ipv6 })
            .to_captured(Mode::Der)
            .as_slice(),
    );
}

fn walk_as_block(w: &mut Walk, b: AsBlock) {
    w.see(b.min());
    w.see(b.max());
    w.see(b.asn_count());
    w.see(b.is_whole_range());
    w.show(b);
    w.dbg(b);
    w.see(b.iter().take(ITER_CAP).count());
    w.see(b.into_iter().take(16).last());
    if let AsBlock::Range(r) = b {
        w.see(r.min());
        w.see(r.max());
        w.see(r.asn_count());
        w.show(r);
    }
}

fn walk_as_blocks(w: &mut Walk, fx: &Fixed, b: &AsBlocks) {
    w.see(b.is_empty());
    w.see(b.asn_count());
    for blk in b.iter().take(ITER_CAP) {
        walk_as_block(w, blk);
    }
    w.see(b.iter_asns().take(ITER_CAP).count());
    w.show(b);
    w.dbg(b);
    let issuer = &fx.issuer_as;
    for a in [0u32, 1, 1000, 64496, 65535, 65536, 4199999999, 4294967294, 4294967295] {
        w.see(b.contains_asn(Asn::from_u32(a)));
    }
    w.see(issuer.contains(b));
    w.see(b.contains(issuer));
    w.see(b.contains(b));
    let i = b.intersection(issuer);
    w.see(i.asn_count());
    let i2 = issuer.intersection(b);
    w.see(i2 == i);
    let d = b.difference(issuer);
    w.see(d.asn_count());
    let d2 = issuer.difference(b);
    w.see(d2.asn_count());
    let u = b.union(issuer);
    w.see(u.asn_count());
    let mut m = b.clone();
    m.intersection_assign(issuer);
    w.see(m.is_empty());
    let res = AsResources::blocks(b.clone());
    w.see(issuer.verify_issued(&res, Overclaim::Refuse).is_ok());
    w.see(issuer.verify_issued(&res, Overclaim::Trim).map(|r| r.asn_count()).ok());
    w.see(b.verify_covered(&AsResources::blocks(issuer.clone())).is_ok());
    w.see(b.verify_covered(&AsResources::missing()).is_ok());
    w.see(b == b);
    w.bytes(b.encode_ref().to_captured(Mode::Der).as_slice());
}

fn walk_as_res(w: &mut Walk, fx: &Fixed, r: &AsResources) {
    w.see(r.is_inherited());
    w.see(r.is_present());
    w.show(r);
    w.dbg(r);
    match r.to_blocks() {
        Ok(b) => walk_as_blocks(w, fx, &b),
        Err(e) => w.show(e),
    }
    w.see(fx.issuer_as.verify_issued(r, Overclaim::Refuse).is_ok());
    w.see(fx.issuer_as.verify_issued(r, Overclaim::Trim).is_ok());
    w.see(AsBlocks::from_resources(r.clone()).is_ok());
    w.bytes(r.encode_ref().to_captured(Mode::Der).as_slice());
}

fn walk_resource_cert(w: &mut Walk, fx: &Fixed, rc: &ResourceCert) {
    walk_ip_blocks(w, fx, rc.v4_resources(), true);
    walk_ip_blocks(w, fx, rc.v6_resources(), false);
    walk_as_blocks(w, fx, rc.as_resources());
    w.see(rc.tal().name().len());
    w.see(rc.as_cert().is_ca());
}

//------------ certificates --------------------------------------------------------

fn walk_cert(w: &mut Walk, fx: &Fixed, c: &Cert, validate: bool) {
    walk_serial(w, c.serial_number());
    walk_name(w, c.issuer());
    walk_name(w, c.subject());
    let v = c.validity();
    walk_time(w, fx, v.not_before());
    walk_time(w, fx, v.not_after());
    w.see(v.verify_at(fx.t_fixed).is_ok());
    w.see(v.verify().is_ok());
    w.see(v.trim(fx.ta_cert.validity()));
    w.bytes(v.encode().to_captured(Mode::Der).as_slice());
    walk_pubkey(w, c.subject_public_key_info());
    w.see(c.basic_ca());
    walk_keyid(w, c.subject_key_identifier());
    if let Some(k) = c.authority_key_identifier() {
        walk_keyid(w, k);
    }
    w.dbg(c.key_usage());
    w.bytes(c.key_usage().encode().to_captured(Mode::Der).as_slice());
    if let Some(eku) = c.extended_key_usage() {
        w.see(eku.inspect_router().is_ok());
        w.dbg(eku);
    }
    for u in [c.crl_uri(), c.ca_issuer(), c.ca_repository(), c.rpki_manifest(), c.signed_object()] {
        if let Some(u) = u {
            walk_rsync(w, u);
        }
    }
    if let Some(u) = c.rpki_notify() {
        walk_https(w, u);
    }
    w.dbg(c.overclaim());
    w.see(c.overclaim().policy_id());
    w.see(c.overclaim().ip_res_id());
    w.see(c.overclaim().as_res_id());
    walk_ip_res(w, fx, c.v4_resources(), true);
    walk_ip_res(w, fx, c.v6_resources(), false);
    walk_as_res(w, fx, c.as_resources());
    w.see(c.has_ip_resources());
    w.see(c.is_ca());
    w.see(c.is_self_signed());
    match ResourceSet::try_from(c) {
        Ok(set) => {
            w.show(&set);
            w.see(set.is_empty());
            w.see(set.contains(&set));
            w.see(set.asn().asn_count());
            w.show(set.ipv4());
            w.show(set.ipv6());
            let d = set.difference(&ResourceSet::all());
            w.see(d.is_empty());
            w.show(&d);
            w.see(set.union(&set).is_empty());
            w.see(set.intersection(&ResourceSet::all()).is_empty());
        }
        Err(e) => w.show(e),
    }
    for strict in [false, true] {
        w.see(c.inspect_ta(strict).is_ok());
        w.see(c.inspect_ca(strict).is_ok());
        w.see(c.inspect_ee(strict).is_ok());
        w.see(c.inspect_detached_ee(strict).is_ok());
        w.see(c.inspect_router(strict).is_ok());
    }
    let t = v.not_before();
    w.see(c.verify_validity(t).is_ok());
    w.see(c.verify_validity(fx.t_fixed).is_ok());
    w.see(c.verify_issuer_claim(&fx.ta, true).is_ok());
    w.see(c.verify_signature(&fx.ta_cert, true).is_ok());
    w.see(c.verify_signature(c, true).is_ok());
    w.see(c.verify_ta_ref_at(true, t).is_ok());
    w.see(c.verify_router_at(&fx.ta, true, t).is_ok());
    w.see(c.validate_router_at(&fx.ta, false, t).is_ok());
    w.see(c.validate_router(&fx.ta, true).is_ok());
    if validate {
        let info = fx.ta.tal().clone();
        if let Ok(rc) = c.clone().validate_ta_at(info.clone(), false, t) {
            walk_resource_cert(w, fx, &rc);
        }
        if let Ok(rc) = c.clone().verify_ta_at(info, true, t) {
            walk_resource_cert(w, fx, &rc);
        }
        let issuers: [Option<&ResourceCert>; 2] = [Some(&fx.ta), fx.ca.as_ref()];
        for issuer in issuers.into_iter().flatten() {
            if let Ok(rc) = c.clone().validate_ca_at(issuer, false, t) {
                walk_resource_cert(w, fx, &rc);
            }
            if let Ok(rc) = c.clone().validate_ee_at(issuer, false, t) {
                walk_resource_cert(w, fx, &rc);
            }
            if let Ok(rc) = c.clone().validate_detached_ee_at(issuer, true, t) {
                walk_resource_cert(w, fx, &rc);
            }
            if let Ok(rc) = c.clone().verify_ca_at(issuer, true, t) {
                walk_resource_cert(w, fx, &rc);
            }
            if let Ok(rc) = c.clone().verify_ee_at(issuer, true, t) {
                walk_resource_cert(w, fx, &rc);
                w.see(rc.into_tal().name().len());
            }
        }
    }
    w.bytes(c.to_captured().as_slice());
    w.bytes(c.encode_ref().to_captured(Mode::Ber).as_slice());
    // the to-be-signed part re-encoded from its fields
    let tbs: &TbsCert = c.as_ref();
    w.bytes(tbs.encode_ref().to_captured(Mode::Der).as_slice());
    w.dbg(c.subject_key_identifier());
}

fn walk_idcert(w: &mut Walk, fx: &Fixed, c: &IdCert) {
    walk_serial(w, c.serial_number());
    walk_name(w, c.subject());
    let v = *c.validity();
    walk_time(w, fx, v.not_before());
    walk_time(w, fx, v.not_after());
    walk_pubkey(w, c.public_key());
    walk_pubkey(w, c.subject_public_key_info());
    walk_keyid(w, c.subject_key_identifier());
    walk_keyid(w, c.subject_key_id());
    if let Some(k) = c.authority_key_id() {
        walk_keyid(w, k);
    }
    let t = v.not_before();
    w.see(c.validate_ta_at(t).is_ok());
    w.see(c.validate_ta_at(fx.t_fixed).is_ok());
    w.see(c.validate_ee_at(&fx.key_rsa, t).is_ok());
    w.see(c.validate_ee_at(c.public_key(), t).is_ok());
    w.see(c.verify_validity(t).is_ok());
    w.see(c.validate_ta().is_ok());
    w.see(c.validate_ee(&fx.key_rsa).is_ok());
    w.see(c == c);
    w.bytes(c.encode_ref().to_captured(Mode::Ber).as_slice());
    let cap = c.to_captured();
    w.see(c.to_bytes().len());
    recode(w, cap.as_slice(), |b| IdCert::decode(b).is_ok());
}

//------------ CRL -----------------------------------------------------------------

const PROBE_SERIALS: [u64; 6] = [0, 1, 2, 127, 128, 0xffff_ffff_ffff_ffff];

fn walk_crl(w: &mut Walk, fx: &Fixed, mut c: Crl) {
    w.dbg(c.signature());
    walk_name(w, c.issuer());
    walk_time(w, fx, c.this_update());
    walk_time(w, fx, c.next_update());
    w.see(c.is_stale());
    walk_keyid(w, *c.authority_key_identifier());
    walk_serial(w, c.crl_number());
    w.see(c.signed_data().data().len());
    w.see(c.signed_data().signature().value().len());
    w.see(c.verify_signature(fx.ta_cert.subject_public_key_info()).is_ok());
    let mut first = None;
    let mut last = None;
    let mut n = 0usize;
    for e in c.revoked_certs().iter().take(ITER_CAP) {
        if first.is_none() {
            first = Some(e.user_certificate);
        }
        last = Some(e.user_certificate);
        if n < 64 {
            walk_serial(w, e.user_certificate);
            walk_time(w, fx, e.revocation_date);
        }
        n += 1;
    }
    w.see(n);
    let probes: Vec<Serial> = PROBE_SERIALS.iter().map(|s| Serial::from(*s)).chain(first).chain(last).collect();
    for s in &probes {
        w.see(c.contains(*s));
        w.see(c.revoked_certs().contains(*s));
    }
    w.bytes(c.revoked_certs().encode_ref().to_captured(Mode::Der).as_slice());
    w.bytes(c.as_cert_list().encode_ref().to_captured(Mode::Der).as_slice());
    for e in c.revoked_certs().iter().take(16) {
        w.bytes(e.encode().to_captured(Mode::Der).as_slice());
    }
    w.bytes(c.encode_ref().to_captured(Mode::Ber).as_slice());
    walk_crl_store(w, fx, &c, &probes);
    c.cache_serials();
    for s in &probes {
        w.see(c.contains(*s));
    }
    recode(w, c.to_captured().as_slice(), |b| Crl::decode(b).is_ok());
}

/// The (deprecated but public) store: lookups through a stored copy, with
/// and without the serial cache.
#[allow(deprecated)]
fn walk_crl_store(w: &mut Walk, fx: &Fixed, c: &Crl, probes: &[Serial]) {
    for cache in [false, true] {
        let mut store = CrlStore::new();
        if cache {
            store.enable_serial_caching();
        }
        store.push(fx.base.clone(), c.clone());
        if let Some(stored) = store.get(&fx.base) {
            for s in probes {
                w.see(stored.contains(*s));
            }
        }
    }
}

//------------ signed objects ------------------------------------------------------

fn walk_sigobj(w: &mut Walk, fx: &Fixed, s: SignedObject, strict: bool) {
    w.show(s.content_type());
    let content = s.content().to_bytes();
    w.bytes(content.as_ref());
    w.see(s.content().iter().count());
    walk_time(w, fx, s.signing_time());
    walk_cert(w, fx, s.cert(), true);
    w.see(s.decode_content(|cons| cons.skip_all()).is_ok());
    let t = s.cert().validity().not_before();
    let issuers: [Option<&ResourceCert>; 2] = [Some(&fx.ta), fx.ca.as_ref()];
    for issuer in issuers.into_iter().flatten() {
        match s.clone().validate_at(issuer, strict, t) {
            Ok(rc) => walk_resource_cert(w, fx, &rc),
            Err(e) => w.show(e),
        }
        w.see(s.clone().process(issuer, false, |_| Ok(())).is_ok());
        w.see(s.clone().validate(issuer, strict).is_ok());
    }
    let cap = s.encode_ref().to_captured(if strict { Mode::Der } else { Mode::Ber });
    recode(w, cap.as_slice(), |b| SignedObject::decode(b, strict).is_ok());
    let ct = s.content_type().clone();
    w.see(SignedObject::decode_if_type(cap.as_slice(), &ct, strict).is_ok());
}

fn walk_manifest(w: &mut Walk, fx: &Fixed, m: Manifest, strict: bool) {
    walk_cert(w, fx, m.cert(), false);
    walk_mft_content(w, fx, m.content(), m.cert().signed_object());
    walk_manifest_rest(w, fx, m, strict);
}

fn walk_mft_content(w: &mut Walk, fx: &Fixed, c: &rpki::repository::manifest::ManifestContent, own_base: Option<&uri::Rsync>) {
    {
        walk_serial(w, c.manifest_number());
        walk_time(w, fx, c.this_update());
        walk_time(w, fx, c.next_update());
        w.dbg(c.file_hash_alg());
        w.see(c.len());
        w.see(c.is_empty());
        w.see(c.is_stale());
        let mut n = 0usize;
        for f in c.iter().take(ITER_CAP) {
            w.bytes(f.file().as_ref());
            w.bytes(f.hash().as_ref());
            if n < 64 {
                w.bytes(f.encode_ref().to_captured(Mode::Der).as_slice());
                let (file, hash) = f.into_pair();
                w.see(file.len() + hash.len());
            }
            n += 1;
        }
        w.see(n);
        for (i, (u, h)) in c.iter_uris(&fx.base).take(ITER_CAP).enumerate() {
            w.see(u.as_str().len());
            w.bytes(h.as_slice());
            if i < 16 {
                w.see(h.verify(b"abc").is_ok());
                w.dbg(h.algorithm());
            }
        }
        if let Some(base) = own_base {
            w.see(c.iter_uris(base).take(ITER_CAP).count());
        }
        w.see(c.iter().count());
        w.see(c.iter().size_hint());
        w.see(c.iter().last().map(|f| f.file().len()));
        w.see(c.iter().nth(1).map(|f| f.hash().len()));
        w.bytes(c.encode_ref().to_captured(Mode::Der).as_slice());
        w.dbg(c.manifest_number());
    }
}

fn walk_manifest_rest(w: &mut Walk, fx: &Fixed, m: Manifest, strict: bool) {
    let t = m.cert().validity().not_before();
    let issuers: [Option<&ResourceCert>; 2] = [Some(&fx.ta), fx.ca.as_ref()];
    for issuer in issuers.into_iter().flatten() {
        match m.clone().validate_at(issuer, strict, t) {
            Ok((rc, content)) => {
                walk_resource_cert(w, fx, &rc);
                w.see(content.len());
            }
            Err(e) => w.show(e),
        }
        w.see(m.clone().validate(issuer, strict).is_ok());
    }
    w.bytes(m.encode_ref().to_captured(Mode::Ber).as_slice());
    recode(w, m.to_captured().as_slice(), |b| Manifest::decode(b, strict).is_ok());
}

fn walk_roa(w: &mut Walk, fx: &Fixed, r: Roa, strict: bool) {
    walk_cert(w, fx, r.cert(), false);
    walk_roa_content(w, fx, r.content());
    walk_roa_rest(w, fx, r, strict);
}

fn walk_roa_content(w: &mut Walk, fx: &Fixed, c: &rpki::repository::roa::RouteOriginAttestation) {
    {
        w.show(c.as_id());
        w.see(c.v4_addrs().is_empty());
        w.see(c.v6_addrs().is_empty());
        for (i, a) in c.v4_addrs().iter().chain(c.v6_addrs().iter()).take(ITER_CAP).enumerate() {
            w.see(a.prefix().addr_len());
            w.see(a.range());
            w.see(a.max_length());
            if i < 256 {
                w.see(fx.issuer_v4.contains_roa(&a));
                w.see(fx.issuer_v6.contains_roa(&a));
            }
        }
        for a in c.iter().take(ITER_CAP) {
            w.show(a);
            w.see(a.prefix());
            w.see(a.is_v4());
            w.see(a.address());
            w.see(a.address_length());
            w.see(a.max_length());
        }
        for o in c.iter_origins().take(ITER_CAP) {
            w.see(o.prefix.prefix().len());
            w.see(o.prefix.resolved_max_len());
            w.see(o.asn);
            w.dbg(o);
        }
        w.see(c.v4_addrs().iter().count());
        w.see(c.v6_addrs().iter().size_hint());
        w.see(c.v4_addrs().iter().last().map(|a| a.max_length()));
        w.see(c.v6_addrs().iter().nth(1).map(|a| a.max_length()));
        w.bytes(c.encode_ref().to_captured(Mode::Der).as_slice());
    }
}

fn walk_roa_rest(w: &mut Walk, fx: &Fixed, r: Roa, strict: bool) {
    let issuers: [Option<&ResourceCert>; 2] = [Some(&fx.ta), fx.ca.as_ref()];
    for issuer in issuers.into_iter().flatten() {
        match r.clone().process(issuer, strict, |_| Ok(())) {
            Ok((rc, content)) => {
                walk_resource_cert(w, fx, &rc);
                w.see(content.iter().take(ITER_CAP).count());
            }
            Err(e) => w.show(e),
        }
    }
    w.dbg(r.content().v4_addrs());
    w.bytes(r.encode_ref().to_captured(Mode::Ber).as_slice());
    recode(w, r.to_captured().as_slice(), |b| Roa::decode(b, strict).is_ok());
}

fn walk_aspa(w: &mut Walk, fx: &Fixed, a: Aspa, strict: bool) {
    walk_cert(w, fx, a.cert(), false);
    walk_aspa_content(w, fx, a.content());
    walk_aspa_rest(w, fx, a, strict);
}

fn walk_aspa_content(w: &mut Walk, fx: &Fixed, c: &rpki::repository::aspa::AsProviderAttestation) {
    {
        w.show(c.customer_as());
        let set = c.provider_as_set();
        w.see(set.len());
        let mut n = 0usize;
        for p in set.iter().take(ITER_CAP) {
            w.show(p);
            n += 1;
        }
        w.see(n);
        let s = set.to_set();
        w.see(s.len());
        w.see(s.iter().take(ITER_CAP).count());
        w.see(s.contains(c.customer_as()));
        w.dbg(set.len());
        walk_as_res(w, fx, &c.as_resources());
        w.see(set.iter().count());
        w.see(set.iter().size_hint());
        w.see(set.iter().last());
        w.see(set.iter().nth(1));
        w.bytes(c.encode_ref().to_captured(Mode::Der).as_slice());
    }
}

fn walk_aspa_rest(w: &mut Walk, fx: &Fixed, a: Aspa, strict: bool) {
    let issuers: [Option<&ResourceCert>; 2] = [Some(&fx.ta), fx.ca.as_ref()];
    for issuer in issuers.into_iter().flatten() {
        match a.clone().process(issuer, strict, |_| Ok(())) {
            Ok((rc, content)) => {
                walk_resource_cert(w, fx, &rc);
                w.see(content.provider_as_set().len());
            }
            Err(e) => w.show(e),
        }
    }
    w.bytes(a.encode_ref().to_captured(Mode::Ber).as_slice());
    recode(w, a.to_captured().as_slice(), |b| Aspa::decode(b, strict).is_ok());
}

fn walk_rta(w: &mut Walk, fx: &Fixed, r: Rta, strict: bool) {
    {
        let c = r.content();
        for k in c.subject_keys().iter().take(ITER_CAP) {
            walk_keyid(w, *k);
        }
        walk_as_blocks(w, fx, c.as_resources());
        walk_ip_blocks(w, fx, c.v4_resources(), true);
        walk_ip_blocks(w, fx, c.v6_resources(), false);
        w.dbg(c.digest_algorithm());
        w.bytes(c.message_digest().as_ref());
        w.bytes(c.encode_ref().to_captured(Mode::Der).as_slice());
    }
    for s in [false, true] {
        match Validation::new_at(&r, s, fx.t_fixed) {
            Ok(mut v) => {
                w.see(v.supply_tal(&fx.tal).is_ok());
                w.see(v.supply_ca(&fx.ta).is_ok());
                w.see(v.finalize().is_ok());
            }
            Err(e) => w.show(e),
        }
    }
    let cap = r.to_captured();
    recode(w, cap.as_slice(), |b| Rta::decode(b, strict).is_ok());
    // the CMS wrapper on its own
    if let Ok(m) = MultiSignedObject::decode(cap.as_slice(), strict) {
        w.bytes(m.content().to_bytes().as_ref());
        w.see(m.content().iter().count());
        w.see(m.decode_content(|cons| cons.skip_all()).is_ok());
        w.bytes(m.encode_ref().to_captured(Mode::Ber).as_slice());
    }
    // certificates, CRLs and signer infos carried by the object (the
    // builder is the public way to get at them)
    let b = RtaBuilder::from_rta(r);
    w.see(b.content().subject_keys().len());
    for c in b.certificates().iter().take(8) {
        walk_cert(w, fx, c, false);
    }
    for c in b.crls().iter().take(8) {
        walk_crl(w, fx, c.clone());
    }
    for si in b.signer_infos().iter().take(64) {
        walk_time(w, fx, si.signing_time());
        w.bytes(si.encode_ref().to_captured(Mode::Der).as_slice());
        w.dbg(si);
    }
    w.bytes(b.finalize().to_captured().as_slice());
}

//------------ TAL -----------------------------------------------------------------

fn walk_tal(w: &mut Walk, fx: &Fixed, mut t: Tal) {
    for u in t.uris().take(ITER_CAP) {
        w.show(u);
        w.see(u.is_rsync());
        w.see(u.is_https());
        w.see(u.as_str().len());
    }
    walk_pubkey(w, t.key_info());
    w.see(t.info().name().len());
    t.prefer_https();
    w.see(t.uris().count());
    w.see(t.key_info() == fx.tal.key_info());
    w.dbg(t.info());
}

//------------ CSRs ----------------------------------------------------------------

fn walk_ca_csr(w: &mut Walk, c: &RpkiCaCsr) {
    walk_name(w, c.subject());
    walk_pubkey(w, c.public_key());
    w.see(c.basic_ca());
    w.dbg(c.key_usage());
    if let Some(e) = c.extended_key_usage() {
        w.see(e.inspect_router().is_ok());
    }
    for u in [c.ca_repository(), c.rpki_manifest()] {
        if let Some(u) = u {
            walk_rsync(w, u);
        }
    }
    if let Some(u) = c.rpki_notify() {
        walk_https(w, u);
    }
    w.dbg(c.attributes());
    w.see(c.verify_signature().is_ok());
    recode(w, c.to_captured().as_slice(), |b| RpkiCaCsr::decode(b).is_ok());
}

fn walk_bgpsec_csr(w: &mut Walk, c: &BgpsecCsr) {
    walk_name(w, c.subject());
    walk_pubkey(w, c.public_key());
    if let Some(e) = c.attributes().extended_key_usage() {
        w.see(e.inspect_router().is_ok());
    }
    w.dbg(c.attributes());
    w.see(c.verify_signature().is_ok());
    recode(w, c.to_captured().as_slice(), |b| BgpsecCsr::decode(b).is_ok());
}

//------------ protocol CMS --------------------------------------------------------

fn walk_sigmsg(w: &mut Walk, fx: &Fixed, m: &SignedMessage) {
    w.show(m.content_type());
    let content = m.content().to_bytes();
    w.bytes(content.as_ref());
    w.see(m.validate_at(&fx.key_rsa, fx.t_fixed).is_ok());
    w.see(m.validate_at(fx.ta_cert.subject_public_key_info(), Time::utc(2012, 6, 1, 0, 0, 0)).is_ok());
    w.see(m.validate(&fx.key_rsa).is_ok());
    for (key, at) in extra() {
        let ok = m.validate_at(key, *at).is_ok();
        w.validated |= ok;
        w.see(ok);
    }
    w.dbg(m.content_type());
    w.see(m.content().iter().count());
    w.bytes(m.encode_ref().to_captured(Mode::Ber).as_slice());
    let cap = m.to_captured();
    recode(w, cap.as_slice(), |b| SignedMessage::decode(b, false).is_ok());
}

fn walk_prov(w: &mut Walk, fx: &Fixed, c: ProvisioningCms) {
    {
        let m = c.message();
        w.show(m.sender());
        w.show(m.recipient());
        w.dbg(m.payload());
        w.see(m.is_list_response());
        w.bytes(m.to_xml_bytes().as_ref());
        w.see(m.to_xml_string().len());
    }
    w.see(c.validate_at(&fx.key_rsa, fx.t_fixed).is_ok());
    w.see(c.validate(&fx.key_rsa).is_ok());
    for (key, at) in extra() {
        let ok = c.validate_at(key, *at).is_ok();
        w.validated |= ok;
        w.see(ok);
    }
    let b = c.to_bytes();
    recode(w, b.as_ref(), |b| ProvisioningCms::decode(b).is_ok());
    let (sm, msg) = c.unpack();
    walk_sigmsg(w, fx, &sm);
    w.see(msg.into_payload());
}

fn walk_publ(w: &mut Walk, fx: &Fixed, c: PublicationCms) {
    w.see(c.validate_at(&fx.key_rsa, fx.t_fixed).is_ok());
    w.see(c.validate(&fx.key_rsa).is_ok());
    for (key, at) in extra() {
        let ok = c.validate_at(key, *at).is_ok();
        w.validated |= ok;
        w.see(ok);
    }
    let b = c.to_bytes();
    recode(w, b.as_ref(), |b| PublicationCms::decode(b).is_ok());
    let (sm, msg) = c.unpack();
    walk_sigmsg(w, fx, &sm);
    w.dbg(&msg);
    w.bytes(msg.to_xml_bytes().as_ref());
    w.see(msg.to_xml_string().len());
    w.see(msg.clone().as_reply().is_ok());
    w.see(msg.as_query().is_ok());
}

//------------ counting allocator --------------------------------------------------

/// Global allocator wrapper that counts, per thread and only while a
/// measurement is active, allocation calls and peak live bytes.
///
/// Install with `#[global_allocator] static A: c04_walk::CountingAlloc = c04_walk::CountingAlloc;`
pub struct CountingAlloc;

#[derive(Clone, Copy, Debug, Default)]
pub struct AllocStats {
    /// alloc + realloc calls
    pub calls: u64,
    /// peak of (bytes allocated - bytes freed) since the measurement started
    pub peak: u64,
    /// the counting allocator is installed in this binary
    pub active: bool,
}

thread_local! {
    static ON: Cell<bool> = const { Cell::new(false) };
    static CALLS: Cell<u64> = const { Cell::new(0) };
    static LIVE: Cell<i64> = const { Cell::new(0) };
    static PEAK: Cell<i64> = const { Cell::new(0) };
}

#[inline]
fn note(delta: i64, call: bool) {
    let _ = ON.try_with(|on| {
        if on.get() {
            if call {
                let _ = CALLS.try_with(|c| c.set(c.get() + 1));
            }
            let _ = LIVE.try_with(|l| {
                let v = l.get() + delta;
                l.set(v);
                let _ = PEAK.try_with(|p| {
                    if v > p.get() {
                        p.set(v)
                    }
                });
            });
        }
    });
}

unsafe impl GlobalAlloc for CountingAlloc {
    unsafe fn alloc(&self, layout: Layout) -> *mut u8 {
        note(layout.size() as i64, true);
        System.alloc(layout)
    }
    unsafe fn alloc_zeroed(&self, layout: Layout) -> *mut u8 {
        note(layout.size() as i64, true);
        System.alloc_zeroed(layout)
    }
    unsafe fn dealloc(&self, ptr: *mut u8, layout: Layout) {
        note(-(layout.size() as i64), false);
        System.dealloc(ptr, layout)
    }
    unsafe fn realloc(&self, ptr: *mut u8, layout: Layout, new_size: usize) -> *mut u8 {
        note(new_size as i64 - layout.size() as i64, true);
        System.realloc(ptr, layout, new_size)
    }
}

/// Runs `f` with allocation counting switched on for the current thread.
pub fn measure<T>(f: impl FnOnce() -> T) -> (T, AllocStats) {
    struct Off;
    impl Drop for Off {
        fn drop(&mut self) {
            ON.with(|on| on.set(false));
        }
    }
    CALLS.with(|c| c.set(0));
    LIVE.with(|c| c.set(0));
    PEAK.with(|c| c.set(0));
    ON.with(|on| on.set(true));
    let off = Off;
    // probe: is the counting allocator the global one?
    let probe = std::hint::black_box(Box::new(0u64));
    let active = CALLS.with(|c| c.get()) > 0;
    drop(probe);
    CALLS.with(|c| c.set(0));
    LIVE.with(|c| c.set(0));
    PEAK.with(|c| c.set(0));
    let r = f();
    drop(off);
    let stats = AllocStats {
        calls: CALLS.with(|c| c.get()),
        peak: PEAK.with(|c| c.get()).max(0) as u64,
        active,
    };
    (r, stats)
}

/// The resource bound of C04: per decode + walk, peak live bytes
/// <= 64 * len + 1 MiB and allocation calls <= 64 * len + 4096.
/// `div` tightens the bound (calibration: the seed corpus has to stay within
/// the bound divided by 8).
pub fn within_bounds(len: usize, s: &AllocStats, div: u64) -> Result<(), &'static str> {
    let len = len as u64;
    let div = div.max(1);
    if s.peak > (64 * len + (1 << 20)) / div {
        return Err("alloc-peak");
    }
    if s.calls > (64 * len + 4096) / div {
        return Err("alloc-calls");
    }
    Ok(())
}
