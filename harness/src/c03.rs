//! C03 — stub (not built yet).

use crate::engine::*;

pub fn property() -> Property {
    Property { id: "C03", rule: "", assumptions: vec![], subs: vec![] }
}
