//! C03 — resource sets behave as exact, canonical sets of addresses / AS numbers.
//!
//! Oracle: `iset.rs` normalised interval sets (u32 for AS numbers, u128 in
//! the library's address space for IPv4/IPv6). Sub-checks:
//!
//! * `build`     every constructor / parser / decoder on one block sequence
//! * `pair`      ==, contains, union, intersection, difference, issuance
//!               (Refuse/Trim), block / ROA / ASN membership on two sets
//! * `rset`      `ResourceSet` operations and `RequestResourceLimit::apply_to`
//! * `text`      hostile text (inverted ranges, mixed families, whitespace, junk)
//! * `der`       harness-written DER with unsorted/overlapping/inverted ranges
//! * `prefixes`  `to_v4_prefixes` / `to_v6_prefixes` / `into_prefix`
//! * `constants` `all()` / `empty()` values, model self-test
//! * `enum-build`, `enum-pairs`  exhaustive: all sequences of <= 3 blocks and
//!               all pairs of sets over 8-point domains, bitmap oracle

#[path = "c03_util.rs"]
mod util;
#[path = "c03_sgen.rs"]
mod sgen;
#[path = "c03_more.rs"]
mod more;
#[path = "c03_enum.rs"]
mod enumerate;

use crate::engine::*;
use crate::gen::U128;
use crate::iset::{self, ISet};
use bcder::Mode;
use proptest::prelude::*;
use rpki::repository::cert::Overclaim;
use rpki::repository::resources::{
    AsBlocks, AsBlocksBuilder, AsResources, AsResourcesBuilder, IpBlock, IpBlocks, IpBlocksBuilder, IpResources,
    IpResourcesBuilder, Ipv4Block, Ipv4Blocks, Ipv6Block, Ipv6Blocks, Prefix,
};
use rpki::repository::roa::RoaIpAddress;
use serde::{Deserialize, Serialize};
use std::str::FromStr;
use util::*;

pub const RULE: &str = "build/pair/rset/text/der: random block sequences (0..12 blocks per set) over boundary-dense \
endpoints {0,1,2,max,max-1,2^k,2^k+-1, small windows at 0/max/2^16/2^24/2^31/2^64/2^127/::ffff:0:0/96/::/96, prefix \
shaped blocks} for AS numbers (u32), IPv4 (u32) and IPv6 (u128), with derived blocks forced by construction \
(duplicate, adjacent before/after, nested, bridging two earlier blocks, covering, gap filler, touching 0/max) and \
orders kept/sorted/reversed; related sets derived by per-block tweaks (equal, +-1 at either end, dropped, split, \
single end points). Every entry point (FromIterator, builders, FromStr, serde, DER via the library encoder and via \
the harness' own DER writer) is compared with the interval-set model for canonical form and denotation. \
Non-trivial = a sequence with >= 3 blocks, not sorted by lower bound, containing an overlap or adjacency (for \
prefixes: a range needing >= 2 prefixes). enum-build/enum-pairs: complete enumeration of all sequences of <= 3 \
blocks and all pairs of representable sets over 8-point domains (low, high, both ends with the gap between, \
around 2^31 resp. ::ffff:0:0) for each family, oracle = bitmap over the domain's atoms, cross-checked with iset. Iterator laws: AsBlocks::iter, iter_asns, AsBlock::iter / into_iter (also for blocks at the top of the number space), IpBlocks::iter and the range-to-prefix iterators are compared through nth, skip, take, step_by, count, last, fold and size_hint (before and after advancing) with what repeated next() yields. constants also: resource builders that were handed nothing (new(), Default, blocks(|_| ())) denote the empty set and never 'inherit'. rset also: the limit makes a serde round trip (explicitly empty limits for a type forced in a quarter of the limited cases) and must compare and apply identically. der also offers the harness-written IP lists to BER-mode decoders with non-zero unused bits in their BIT STRINGs (refused or the same set); rset also reads the limit from the older serde spellings (v4 / v6, \"none\": refused or an equal limit); one related-set case in eight starts from a sequence of up to 40 raw blocks.";

fn bad<E: std::fmt::Display>(what: &str) -> impl Fn(E) -> Fail + '_ {
    move |e| Fail::new(format!("{}: {}", what, e))
}

/// Failure for "the harness' own valid text was rejected".
fn text_rejected(fam: Fam, what: &str, text: &str, err: String) -> Fail {
    let sig = if fam == Fam::V6 && text.contains('.') { "text:v6-dotted-quad" } else { "text:rejected" };
    Fail::sig(sig, format!("{} rejected valid text {:?}: {}", what, text, err))
}

//------------ DER through the library -----------------------------------------------------------

fn dec_as_blocks(b: &[u8]) -> Result<AsBlocks, String> {
    Mode::Der.decode(b, |cons| AsBlocks::take_from(cons)).map_err(|e| e.to_string())
}

/// `list` is the SEQUENCE OF ASIdOrRange; wraps it as ASIdentifiers.
fn dec_as_resources(list: &[u8]) -> Result<AsResources, String> {
    let ext = der_seq(&[tlv(0xa0, list)]);
    Mode::Der.decode(ext.as_slice(), |cons| AsResources::take_from(cons)).map_err(|e| e.to_string())
}

fn dec_ip_blocks(b: &[u8], fam: Option<Fam>) -> Result<IpBlocks, String> {
    match fam {
        None => Mode::Der.decode(b, |cons| IpBlocks::take_from(cons)).map_err(|e| e.to_string()),
        Some(f) => Mode::Der.decode(b, |cons| IpBlocks::take_from_with_family(cons, f.afi())).map_err(|e| e.to_string()),
    }
}

fn dec_ip_resources(b: &[u8], fam: Fam) -> Result<IpResources, String> {
    Mode::Der.decode(b, |cons| IpResources::take_from(cons, fam.afi())).map_err(|e| e.to_string())
}

/// IPAddrBlocks with a single family.
fn dec_ip_families(list: &[u8], fam: Fam) -> Result<(Option<IpResources>, Option<IpResources>), String> {
    let afi = tlv(0x04, if fam == Fam::V4 { &[0, 1] } else { &[0, 2] });
    let ext = der_seq(&[der_seq(&[afi, list.to_vec()])]);
    Mode::Der.decode(ext.as_slice(), |cons| IpResources::take_families_from(cons)).map_err(|e| e.to_string())
}

/// The IP decoders under a BER-mode decoder.
fn dec_ip_ber(b: &[u8], fam: Fam) -> Vec<(&'static str, Result<IpBlocks, String>)> {
    let afi = tlv(0x04, if fam == Fam::V4 { &[0, 1] } else { &[0, 2] });
    let ext = der_seq(&[der_seq(&[afi, b.to_vec()])]);
    vec![
        ("IpBlocks::take_from (BER mode)", Mode::Ber.decode(b, |cons| IpBlocks::take_from(cons)).map_err(|e| e.to_string())),
        (
            "IpBlocks::take_from_with_family (BER mode)",
            Mode::Ber.decode(b, |cons| IpBlocks::take_from_with_family(cons, fam.afi())).map_err(|e| e.to_string()),
        ),
        (
            "IpResources::take_from (BER mode)",
            Mode::Ber
                .decode(b, |cons| IpResources::take_from(cons, fam.afi()))
                .map_err(|e| e.to_string())
                .and_then(|r| r.to_blocks().map_err(|e| e.to_string())),
        ),
        (
            "IpResources::take_families_from (BER mode)",
            Mode::Ber.decode(ext.as_slice(), |cons| IpResources::take_families_from(cons)).map_err(|e| e.to_string()).and_then(|(v4, v6)| {
                let own = if fam == Fam::V4 { v4 } else { v6 };
                own.ok_or_else(|| "family missing".to_string())?.to_blocks().map_err(|e| e.to_string())
            }),
        ),
    ]
}

//------------ build -----------------------------------------------------------------------------------

#[derive(Clone, Debug, Serialize, Deserialize)]
pub struct BuildCase {
    pub fam: Fam,
    pub blocks: Vec<Blk>,
    pub probes: Vec<U128>,
    pub style: u8,
}

fn build_strategy(_: Tier) -> BoxedStrategy<BuildCase> {
    sgen::fam_strategy()
        .prop_flat_map(|fam| {
            (sgen::seq(fam), prop::collection::vec(sgen::value(fam), 0..4), any::<u8>()).prop_map(move |(blocks, probes, style)| {
                BuildCase { fam, blocks, probes: probes.into_iter().map(U128).collect(), style }
            })
        })
        .boxed()
}

/// Probe items: generated ones plus every end point of the sequence and of
/// the model and their neighbours.
fn probe_points(fam: Fam, c: &BuildCase, vm: &ISet<u128>) -> Vec<u128> {
    let mut p: Vec<u128> = c.probes.iter().map(|x| x.0.min(fam.max())).collect();
    p.push(0);
    p.push(fam.max());
    for &(lo, hi) in vals(&c.blocks).iter().chain(vm.ranges().iter()) {
        for x in [lo, hi] {
            p.push(x);
            if x > 0 {
                p.push(x - 1);
            }
            if x < fam.max() {
                p.push(x + 1);
            }
        }
    }
    p.sort();
    p.dedup();
    p
}

fn run_build(c: &BuildCase, obs: &mut Obs) -> CheckResult {
    for b in &c.blocks {
        ensure!(b.lo.0 <= b.hi.0 && b.hi.0 <= c.fam.max(), "case outside the domain: {:?}", b);
    }
    let cls = classify(c.fam, &vals(&c.blocks));
    label_class(obs, c.fam, &cls);
    let r = if c.fam == Fam::As { build_as(c, obs) } else { build_ip(c, obs) };
    // a label counts once per case
    obs.labels.sort();
    obs.labels.dedup();
    r
}

fn build_as(c: &BuildCase, obs: &mut Obs) -> CheckResult {
    let m = as_model(&c.blocks);
    let vm = val_model(&c.blocks);
    let blocks: Vec<_> = c.blocks.iter().map(as_block).collect();

    // programmatic entry points
    let s1: AsBlocks = blocks.iter().copied().collect();
    check_as("AsBlocks::from_iter", &s1, &m)?;
    let mut b = AsBlocksBuilder::new();
    for x in &blocks {
        b.push(*x);
    }
    let s = b.finalize();
    check_as("AsBlocksBuilder::push", &s, &m)?;
    ensure!(s == s1, "builder result != from_iter result");
    let mut b = AsBlocksBuilder::default();
    b.extend(blocks.iter().copied());
    check_as("AsBlocksBuilder::extend", &b.finalize(), &m)?;
    let mut rb = AsResourcesBuilder::new();
    rb.blocks(|b| {
        for x in &blocks {
            b.push(*x)
        }
    });
    let res = rb.finalize();
    ensure!(res.is_present() == !m.is_empty() && !res.is_inherited(), "AsResourcesBuilder: presence flags");
    check_as("AsResourcesBuilder", &res.to_blocks().map_err(bad("to_blocks"))?, &m)?;
    check_as("AsBlocks::from_resources", &AsBlocks::from_resources(res.clone()).map_err(bad("from_resources"))?, &m)?;

    // text written by the harness
    let text = list_text(Fam::As, &c.blocks, c.style);
    let s = AsBlocks::from_str(&text).map_err(|e| text_rejected(Fam::As, "AsBlocks::from_str", &text, e.to_string()))?;
    check_as("AsBlocks::from_str", &s, &m)?;
    ensure!(s == s1 && !(s != s1), "== between parsed and collected set");
    if !m.is_empty() {
        let r = AsResources::from_str(&text).map_err(|e| text_rejected(Fam::As, "AsResources::from_str", &text, e.to_string()))?;
        check_as("AsResources::from_str", &r.to_blocks().map_err(bad("to_blocks"))?, &m)?;
    }
    let js = serde_json::to_string(&text).unwrap();
    let s: AsBlocks = serde_json::from_str(&js).map_err(|e| text_rejected(Fam::As, "AsBlocks deserialize", &text, e.to_string()))?;
    check_as("AsBlocks deserialize", &s, &m)?;

    // DER written by the harness: the raw sequence (may be unsorted or
    // overlapping: the decoder may refuse that, but not mis-decode it) ...
    let raw = der_as_list(&c.blocks);
    let raw_canonical = iset::check_canonical(&vals(&c.blocks)).is_ok();
    match dec_as_blocks(&raw) {
        Ok(s) => check_as("AsBlocks::take_from(raw DER)", &s, &m)?,
        Err(e) => {
            ensure!(!raw_canonical, "AsBlocks::take_from rejected canonical DER: {}", e);
            obs.label("der-raw-rejected");
        }
    }
    match dec_as_resources(&raw) {
        Ok(r) => check_as("AsResources::take_from(raw DER)", &r.to_blocks().map_err(bad("to_blocks"))?, &m)?,
        Err(e) => ensure!(!raw_canonical, "AsResources::take_from rejected canonical DER: {}", e),
    }
    // ... and the canonical list
    let canon: Vec<Blk> = m.ranges().iter().map(|&(lo, hi)| Blk::new(lo as u128, hi as u128, c.style)).collect();
    let s = dec_as_blocks(&der_as_list(&canon)).map_err(bad("AsBlocks::take_from(canonical DER)"))?;
    check_as("AsBlocks::take_from(canonical DER)", &s, &m)?;

    // round trips of the collected set
    let t = s1.to_string();
    let s = AsBlocks::from_str(&t).map_err(|e| Fail::sig("roundtrip:text", format!("AsBlocks Display {:?} does not parse: {}", t, e)))?;
    check_as("Display -> from_str", &s, &m)?;
    ensure!(s == s1, "Display -> from_str gives an unequal set");
    let js = serde_json::to_string(&s1).map_err(bad("serialize"))?;
    let s: AsBlocks = serde_json::from_str(&js).map_err(|e| Fail::sig("roundtrip:serde", format!("AsBlocks JSON {} does not parse: {}", js, e)))?;
    ensure!(s == s1, "serde round trip gives an unequal set");
    let der = enc(bcder::encode::sequence(s1.encode_ref()));
    ensure!(enc(bcder::encode::sequence(s1.clone().encode())) == der, "encode and encode_ref differ");
    let s = dec_as_blocks(&der).map_err(bad("take_from(encode)"))?;
    check_as("encode -> take_from", &s, &m)?;
    ensure!(s == s1, "DER round trip gives an unequal set");
    let own = rd_as_list(&der).map_err(bad("harness reader on AsBlocks::encode"))?;
    ensure!(own.as_slice() == m.ranges(), "AsBlocks::encode denotes {:?}, model {:?}", own, m.ranges());
    let res = AsResources::blocks(s1.clone());
    let r = Mode::Der.decode(enc(res.encode_ref()).as_slice(), |cons| AsResources::take_from(cons)).map_err(bad("AsResources round trip"))?;
    check_as("AsResources encode -> take_from", &r.to_blocks().map_err(bad("to_blocks"))?, &m)?;

    // membership, counts, iteration
    for p in probe_points(Fam::As, c, &vm) {
        let p = p as u32;
        ensure!(s1.contains_asn(asn(p)) == m.contains(p), "contains_asn({}) = {} on {:?}", p, !m.contains(p), m.ranges());
    }
    let count = m.count().unwrap();
    if count <= u32::MAX as u128 {
        ensure!(s1.asn_count() as u128 == count, "asn_count() = {} but the set {:?} has {} members", s1.asn_count(), m.ranges(), count);
    } else {
        obs.label("count-unrepresentable");
        guarded("asn-count:overflow", "asn_count() of a set with 2^32 members", || s1.asn_count())?;
    }
    for (b, &(lo, hi)) in s1.iter().zip(m.ranges()) {
        let n = hi as u64 - lo as u64 + 1;
        if n <= u32::MAX as u64 {
            ensure!(b.asn_count() as u64 == n, "AsBlock::asn_count of {}-{} = {}", lo, hi, b.asn_count());
        } else {
            guarded("asn-count:overflow", "AsBlock::asn_count() of AS0-AS4294967295", || b.asn_count())?;
        }
    }
    if let Some(items) = m.items(2048) {
        let got: Vec<u32> = s1.iter_asns().map(|a| a.into_u32()).collect();
        ensure!(got == items, "iter_asns() yields {} items, expected {}", got.len(), items.len());
        obs.label("iterated");
        if items.len() <= 200 {
            // (no adaptor between the library's iterator and the laws: Map and friends fall back
            // to next() and would hide an overridden nth / count / last)
            crate::iterlaws::check("AsBlocks::iter_asns()", "c03:iterator-laws", 256, || s1.iter_asns())?;
        }
    }
    // per-item membership through the iterators' adaptors (nth, skip, step_by, last, count,
    // size_hint) as well: they must agree with what next() yields, also for blocks at the ends
    // of the number space
    crate::iterlaws::check("AsBlocks::iter()", "c03:iterator-laws", 64, || s1.iter())?;
    for (b, &(lo, hi)) in s1.iter().zip(m.ranges()).take(3).chain(s1.iter().zip(m.ranges()).skip(3).last()) {
        let len = hi as u64 - lo as u64 + 1;
        crate::iterlaws::check_jump("AsBlock::iter()", "c03:iterator-laws", len, 4096, |k| asn(lo + k as u32), || b.iter())?;
        crate::iterlaws::check_jump("AsBlock::into_iter()", "c03:iterator-laws", len, 64, |k| asn(lo + k as u32), || b.into_iter())?;
        obs.label_if(hi == u32::MAX && len <= 4096, "iter-laws-at-max");
    }
    Ok(())
}

fn typed_text(fam: Fam, s: &IpBlocks) -> String {
    if fam == Fam::V4 { Ipv4Blocks::from(s.clone()).to_string() } else { Ipv6Blocks::from(s.clone()).to_string() }
}

fn typed_from_str(fam: Fam, text: &str) -> Result<IpBlocks, String> {
    if fam == Fam::V4 {
        Ipv4Blocks::from_str(text).map(|b| (*b).clone()).map_err(|e| e.to_string())
    } else {
        Ipv6Blocks::from_str(text).map(|b| (*b).clone()).map_err(|e| e.to_string())
    }
}

fn typed_from_json(fam: Fam, js: &str) -> Result<IpBlocks, String> {
    if fam == Fam::V4 {
        serde_json::from_str::<Ipv4Blocks>(js).map(|b| (*b).clone()).map_err(|e| e.to_string())
    } else {
        serde_json::from_str::<Ipv6Blocks>(js).map(|b| (*b).clone()).map_err(|e| e.to_string())
    }
}

fn typed_to_json(fam: Fam, s: &IpBlocks) -> Result<String, String> {
    if fam == Fam::V4 {
        serde_json::to_string(&Ipv4Blocks::from(s.clone())).map_err(|e| e.to_string())
    } else {
        serde_json::to_string(&Ipv6Blocks::from(s.clone())).map_err(|e| e.to_string())
    }
}

fn build_ip(c: &BuildCase, obs: &mut Obs) -> CheckResult {
    let fam = c.fam;
    let m = ip_model(fam, &c.blocks);
    let vm = val_model(&c.blocks);
    let blocks: Vec<IpBlock> = c.blocks.iter().map(|b| ip_block(fam, b)).collect();

    let s1: IpBlocks = blocks.iter().copied().collect();
    check_ip("IpBlocks::from_iter", fam, &s1, &m)?;
    crate::iterlaws::check("IpBlocks::iter()", "c03:iterator-laws", 64, || s1.iter())?;
    let mut b = IpBlocksBuilder::new();
    for x in &blocks {
        b.push(*x);
    }
    let s = b.finalize();
    check_ip("IpBlocksBuilder::push", fam, &s, &m)?;
    ensure!(s == s1, "builder result != from_iter result");
    let mut b = IpBlocksBuilder::default();
    b.extend(blocks.iter().copied());
    check_ip("IpBlocksBuilder::extend", fam, &b.finalize(), &m)?;
    let mut rb = IpResourcesBuilder::new();
    rb.blocks(|b| {
        for x in &blocks {
            b.push(*x)
        }
    });
    let res = rb.finalize();
    ensure!(res.is_present() == !m.is_empty() && !res.is_inherited(), "IpResourcesBuilder: presence flags");
    check_ip("IpResourcesBuilder", fam, &res.to_blocks().map_err(bad("to_blocks"))?, &m)?;
    check_ip("IpBlocks::from_resources", fam, &IpBlocks::from_resources(res.clone()).map_err(bad("from_resources"))?, &m)?;

    // text written by the harness
    let text = list_text(fam, &c.blocks, c.style);
    obs.label_if(fam == Fam::V6 && text.contains('.'), "v6-dotted-quad");
    let s = typed_from_str(fam, &text).map_err(|e| text_rejected(fam, "Ipv4Blocks/Ipv6Blocks::from_str", &text, e))?;
    check_ip("Ipv4Blocks/Ipv6Blocks::from_str", fam, &s, &m)?;
    ensure!(s == s1 && !(s != s1), "== between parsed and collected set");
    let s = IpBlocks::from_str(&text).map_err(|e| text_rejected(fam, "IpBlocks::from_str", &text, e.to_string()))?;
    check_ip("IpBlocks::from_str", fam, &s, &m)?;
    let js = serde_json::to_string(&text).unwrap();
    let s = typed_from_json(fam, &js).map_err(|e| text_rejected(fam, "Ipv4Blocks/Ipv6Blocks deserialize", &text, e))?;
    check_ip("Ipv4Blocks/Ipv6Blocks deserialize", fam, &s, &m)?;
    // FromIterator<Ipv4Block/Ipv6Block>, blocks parsed one by one
    let elems: Vec<String> =
        c.blocks.iter().enumerate().map(|(i, x)| elem_text(fam, x.lo.0, x.hi.0, x.form, c.style.wrapping_add(i as u8))).collect();
    let s: IpBlocks = if fam == Fam::V4 {
        let v: Result<Vec<Ipv4Block>, _> = elems.iter().map(|e| Ipv4Block::from_str(e)).collect();
        let v = v.map_err(|e| text_rejected(fam, "Ipv4Block::from_str", &text, e.to_string()))?;
        (*v.into_iter().collect::<Ipv4Blocks>()).clone()
    } else {
        let v: Result<Vec<Ipv6Block>, _> = elems.iter().map(|e| Ipv6Block::from_str(e)).collect();
        let v = v.map_err(|e| text_rejected(fam, "Ipv6Block::from_str", &text, e.to_string()))?;
        (*v.into_iter().collect::<Ipv6Blocks>()).clone()
    };
    check_ip("Ipv4Blocks/Ipv6Blocks::from_iter", fam, &s, &m)?;

    // DER written by the harness
    let raw = der_ip_list(fam, &c.blocks);
    let raw_canonical = iset::check_canonical(&vals(&c.blocks)).is_ok();
    for (name, r) in [
        ("IpBlocks::take_from(raw DER)", dec_ip_blocks(&raw, None)),
        ("IpBlocks::take_from_with_family(raw DER)", dec_ip_blocks(&raw, Some(fam))),
        ("IpResources::take_from(raw DER)", dec_ip_resources(&raw, fam).and_then(|r| r.to_blocks().map_err(|e| e.to_string()))),
    ] {
        match r {
            Ok(s) => check_ip(name, fam, &s, &m)?,
            Err(e) => {
                ensure!(!raw_canonical, "{} rejected canonical DER: {}", name, e);
                obs.label("der-raw-rejected");
            }
        }
    }
    let canon: Vec<Blk> = m
        .ranges()
        .iter()
        .map(|&(lo, hi)| {
            let (l, h) = from_addr(fam, lo, hi);
            Blk::new(l, h, c.style)
        })
        .collect();
    let cd = der_ip_list(fam, &canon);
    let s = dec_ip_blocks(&cd, Some(fam)).map_err(bad("IpBlocks::take_from_with_family(canonical DER)"))?;
    check_ip("IpBlocks::take_from_with_family(canonical DER)", fam, &s, &m)?;
    if !m.is_empty() {
        let (v4, v6) = dec_ip_families(&cd, fam).map_err(bad("IpResources::take_families_from(canonical DER)"))?;
        let (own, other) = if fam == Fam::V4 { (v4, v6) } else { (v6, v4) };
        ensure!(other.is_none(), "take_families_from: resources for the other family appeared");
        let own = own.ok_or_else(|| Fail::new("take_families_from: family missing"))?;
        check_ip("IpResources::take_families_from", fam, &own.to_blocks().map_err(bad("to_blocks"))?, &m)?;
    }

    // round trips of the collected set
    let t = typed_text(fam, &s1);
    let s = typed_from_str(fam, &t).map_err(|e| {
        let sig = if fam == Fam::V6 && t.contains('.') { "roundtrip:v6-dotted-quad" } else { "roundtrip:text" };
        Fail::sig(sig, format!("Display form {:?} does not parse back: {}", t, e))
    })?;
    check_ip("Display -> from_str", fam, &s, &m)?;
    ensure!(s == s1, "Display -> from_str gives an unequal set");
    let fam_text = if fam == Fam::V4 { s1.as_v4().to_string() } else { s1.as_v6().to_string() };
    ensure!(fam_text == t, "as_v4()/as_v6() text differs from the typed Display");
    let s = IpBlocks::from_str(&t).map_err(|e| {
        let sig = if fam == Fam::V6 && t.contains('.') { "roundtrip:v6-dotted-quad" } else { "roundtrip:text" };
        Fail::sig(sig, format!("IpBlocks::from_str of the Display form {:?} fails: {}", t, e))
    })?;
    ensure!(s == s1, "IpBlocks::from_str(Display) gives an unequal set");
    let js = typed_to_json(fam, &s1).map_err(bad("serialize"))?;
    let s = typed_from_json(fam, &js).map_err(|e| {
        let sig = if fam == Fam::V6 && js.contains('.') { "roundtrip:v6-dotted-quad" } else { "roundtrip:serde" };
        Fail::sig(sig, format!("JSON form {} does not parse back: {}", js, e))
    })?;
    ensure!(s == s1, "serde round trip gives an unequal set");
    let der = enc(s1.encode_ref());
    ensure!(enc(s1.clone().encode()) == der, "encode and encode_ref differ");
    let s = dec_ip_blocks(&der, Some(fam)).map_err(bad("take_from_with_family(encode)"))?;
    check_ip("encode -> take_from_with_family", fam, &s, &m)?;
    ensure!(s == s1, "DER round trip gives an unequal set");
    ensure!(dec_ip_blocks(&der, None).map_err(bad("take_from(encode)"))? == s1, "DER round trip (take_from) gives an unequal set");
    let own = rd_ip_list(&der).map_err(bad("harness reader on IpBlocks::encode"))?;
    ensure!(own.as_slice() == m.ranges(), "IpBlocks::encode denotes {}, model {}", fmt_ip(&own), fmt_ip(m.ranges()));

    // membership of single addresses and small blocks
    let pts = probe_points(fam, c, &vm);
    for w in pts.windows(2).map(|w| (w[0], w[1])).chain(pts.iter().map(|&p| (p, p))) {
        let (lo, hi) = to_addr(fam, w.0, w.1);
        let blk = IpBlock::from((addr(lo), addr(hi)));
        ensure!(s1.contains_block(blk) == m.contains_range(lo, hi), "contains_block({:x}-{:x}) on {}", lo, hi, fmt_ip(m.ranges()));
        ensure!(s1.intersects_block(blk) == m.intersects_range(lo, hi), "intersects_block({:x}-{:x}) on {}", lo, hi, fmt_ip(m.ranges()));
    }
    // prefix decomposition of every stored and every given block
    let mut multi = false;
    let mut ranges: Vec<(u128, u128)> = m.ranges().to_vec();
    ranges.extend(vals(&c.blocks).iter().map(|&(l, h)| to_addr(fam, l, h)));
    for (lo, hi) in ranges {
        multi |= check_prefixes(fam, lo, hi)? > 1;
    }
    obs.label_if(multi, "multi-prefix-range");
    Ok(())
}

//------------ pair ---------------------------------------------------------------------------------

#[derive(Clone, Debug, Serialize, Deserialize)]
pub struct PairCase {
    pub fam: Fam,
    pub a: Vec<Blk>,
    pub b: Vec<Blk>,
    pub probes: Vec<(U128, U128)>,
}

fn pair_strategy(_: Tier) -> BoxedStrategy<PairCase> {
    sgen::fam_strategy()
        .prop_flat_map(|fam| {
            (sgen::related(fam), prop::collection::vec((sgen::value(fam), 0u8..6, sgen::value(fam)), 0..3)).prop_map(move |(r, p)| {
                let probes = p
                    .into_iter()
                    .map(|(x, w, y)| if w < 5 { (U128(x), U128(x.saturating_add(w as u128).min(fam.max()))) } else { (U128(x.min(y)), U128(x.max(y))) })
                    .collect();
                PairCase { fam, a: r.a, b: r.b, probes }
            })
        })
        .boxed()
}

/// Probe blocks in value space: the generated ones and blocks derived from
/// the ends of both sets (equal, one less, one more, gaps).
pub(crate) fn probe_blocks(fam: Fam, gen: &[(U128, U128)], sets: &[&ISet<u128>]) -> Vec<(u128, u128)> {
    let max = fam.max();
    let mut out: Vec<(u128, u128)> = gen.iter().map(|(a, b)| (a.0.min(max), b.0.min(max))).filter(|(a, b)| a <= b).collect();
    out.push((0, 0));
    out.push((max, max));
    out.push((0, max));
    for s in sets {
        let r = s.ranges();
        for (i, &(lo, hi)) in r.iter().enumerate().take(6) {
            out.extend([(lo, hi), (lo, lo), (hi, hi)]);
            if lo > 0 {
                out.extend([(lo - 1, lo - 1), (lo - 1, lo), (lo - 1, hi)]);
            }
            if hi < max {
                out.extend([(hi + 1, hi + 1), (hi, hi + 1), (lo, hi + 1)]);
            }
            if hi - lo >= 2 {
                out.push((lo + 1, hi - 1));
            }
            if let Some(&(nlo, nhi)) = r.get(i + 1) {
                out.extend([(hi + 1, nlo - 1), (hi, nlo), (lo, nhi)]);
            }
        }
    }
    out.sort();
    out.dedup();
    out
}

fn pair_labels(obs: &mut Obs, eq: bool, sub: bool, sup: bool, disjoint: bool) {
    obs.label_if(eq, "equal");
    obs.label_if(sub && !eq, "b-strict-subset");
    obs.label_if(sup && !eq, "b-strict-superset");
    obs.label_if(disjoint, "disjoint");
    obs.label_if(!sub && !sup && !disjoint, "partial-overlap");
}

fn run_pair(c: &PairCase, obs: &mut Obs) -> CheckResult {
    for b in c.a.iter().chain(c.b.iter()) {
        ensure!(b.lo.0 <= b.hi.0 && b.hi.0 <= c.fam.max(), "case outside the domain: {:?}", b);
    }
    let (ca, cb) = (classify(c.fam, &vals(&c.a)), classify(c.fam, &vals(&c.b)));
    obs.label(c.fam.label());
    obs.label_if(ca.bridging || cb.bridging, "bridging");
    obs.label_if(ca.touch_bound || cb.touch_bound, "touching-bound");
    obs.nontrivial_if(ca.nontrivial || cb.nontrivial);
    if c.fam == Fam::As {
        pair_as(c, obs)
    } else {
        pair_ip(c, obs)
    }
}

fn pair_as(c: &PairCase, obs: &mut Obs) -> CheckResult {
    let (ma, mb) = (as_model(&c.a), as_model(&c.b));
    let (a, b) = (lib_as(&c.a), lib_as(&c.b));
    check_as("A", &a, &ma)?;
    check_as("B", &b, &mb)?;
    let (u, i, dab, dba) = (ma.union(&mb), ma.intersection(&mb), ma.difference(&mb), mb.difference(&ma));
    let (eq, sub, sup) = (ma == mb, mb.is_subset(&ma), ma.is_subset(&mb));
    pair_labels(obs, eq, sub, sup, i.is_empty());

    ensure!((a == b) == eq && (a != b) == !eq && (b == a) == eq, "A == B is {} for {:?} and {:?}", a == b, ma.ranges(), mb.ranges());
    ensure!(a.contains(&b) == sub, "A.contains(B) = {} for A={:?} B={:?}", !sub, ma.ranges(), mb.ranges());
    ensure!(b.contains(&a) == sup, "B.contains(A) = {} for A={:?} B={:?}", !sup, ma.ranges(), mb.ranges());
    check_as("A.union(B)", &a.union(&b), &u)?;
    check_as("B.union(A)", &b.union(&a), &u)?;
    check_as("A.intersection(B)", &a.intersection(&b), &i)?;
    check_as("B.intersection(A)", &b.intersection(&a), &i)?;
    let mut t = a.clone();
    t.intersection_assign(&b);
    check_as("A.intersection_assign(B)", &t, &i)?;
    check_as("A.difference(B)", &a.difference(&b), &dab)?;
    check_as("B.difference(A)", &b.difference(&a), &dba)?;

    // issuance: A issues a certificate claiming B
    let claim = AsResources::blocks(b.clone());
    match a.verify_issued(&claim, Overclaim::Refuse) {
        Ok(s) => {
            ensure!(sub, "verify_issued(Refuse) accepted an overclaim: issuer {:?} claim {:?}", ma.ranges(), mb.ranges());
            check_as("verify_issued(Refuse)", &s, &mb)?;
        }
        Err(e) => {
            ensure!(!sub, "verify_issued(Refuse) refused a covered claim: issuer {:?} claim {:?}", ma.ranges(), mb.ranges());
            let t = e.to_string();
            let list = t.strip_prefix("overclaimed AS resources: ").ok_or_else(|| Fail::new(format!("unexpected error text {:?}", t)))?;
            check_as("overclaim report", &AsBlocks::from_str(list).map_err(bad("overclaim report"))?, &dba)?;
        }
    }
    let s = a.verify_issued(&claim, Overclaim::Trim).map_err(bad("verify_issued(Trim)"))?;
    check_as("verify_issued(Trim)", &s, &i)?;
    for mode in [Overclaim::Refuse, Overclaim::Trim] {
        let s = a.verify_issued(&AsResources::inherit(), mode).map_err(bad("verify_issued(inherit)"))?;
        check_as("verify_issued(inherit)", &s, &ma)?;
        let s = a.verify_issued(&AsResources::missing(), mode).map_err(bad("verify_issued(missing)"))?;
        check_as("verify_issued(missing)", &s, &ISet::empty())?;
    }
    ensure!(b.verify_covered(&AsResources::blocks(a.clone())).is_ok() == sub, "verify_covered for A={:?} B={:?}", ma.ranges(), mb.ranges());
    ensure!(b.verify_covered(&AsResources::inherit()).is_ok(), "verify_covered(inherit)");

    let un = a.union(&b);
    let di = a.difference(&b);
    for (lo, hi) in probe_blocks(Fam::As, &c.probes, &[&val_model(&c.a), &val_model(&c.b)]) {
        for p in [lo as u32, hi as u32] {
            ensure!(a.contains_asn(asn(p)) == ma.contains(p), "A.contains_asn({})", p);
            ensure!(b.contains_asn(asn(p)) == mb.contains(p), "B.contains_asn({})", p);
            ensure!(un.contains_asn(asn(p)) == u.contains(p), "union.contains_asn({})", p);
            ensure!(di.contains_asn(asn(p)) == dab.contains(p), "difference.contains_asn({})", p);
        }
    }
    for (s, m) in [(&un, &u), (&di, &dab), (&a.intersection(&b), &i)] {
        let n = m.count().unwrap();
        if n <= u32::MAX as u128 {
            ensure!(s.asn_count() as u128 == n, "asn_count() = {} for {:?}", s.asn_count(), m.ranges());
        }
    }
    Ok(())
}

/// ROA prefixes (value space address, length) worth asking about a block.
pub(crate) fn roa_probes(fam: Fam, lo: u128, hi: u128) -> Vec<(u128, u8)> {
    let ps: Vec<(u128, u8)> = match fam {
        Fam::V4 => iset::range_to_prefixes(lo as u32, hi as u32).into_iter().map(|(a, l)| (a as u128, l)).collect(),
        _ => iset::range_to_prefixes(lo, hi),
    };
    let mut out = Vec::new();
    if let (Some(&f), Some(&l)) = (ps.first(), ps.last()) {
        out.push(f);
        out.push(l);
        for (a, len) in [f, l] {
            if len > 0 {
                out.push((a, len - 1)); // parent (host bits are cleared by Prefix::new)
            }
            if (len as u32) < fam.bits() {
                out.push((a, len + 1));
            }
        }
    }
    out
}

fn pair_ip(c: &PairCase, obs: &mut Obs) -> CheckResult {
    let fam = c.fam;
    let (ma, mb) = (ip_model(fam, &c.a), ip_model(fam, &c.b));
    let (a, b) = (lib_ip(fam, &c.a), lib_ip(fam, &c.b));
    check_ip("A", fam, &a, &ma)?;
    check_ip("B", fam, &b, &mb)?;
    let (u, i, dab, dba) = (ma.union(&mb), ma.intersection(&mb), ma.difference(&mb), mb.difference(&ma));
    let (eq, sub, sup) = (ma == mb, mb.is_subset(&ma), ma.is_subset(&mb));
    pair_labels(obs, eq, sub, sup, i.is_empty());
    let show = |m: &ISet<u128>| fmt_ip(m.ranges());

    ensure!((a == b) == eq && (a != b) == !eq && (b == a) == eq, "A == B is {} for {} and {}", a == b, show(&ma), show(&mb));
    ensure!(a.contains(&b) == sub, "A.contains(B) = {} for A={} B={}", !sub, show(&ma), show(&mb));
    ensure!(b.contains(&a) == sup, "B.contains(A) = {} for A={} B={}", !sup, show(&ma), show(&mb));
    check_ip("A.union(B)", fam, &a.union(&b), &u)?;
    check_ip("B.union(A)", fam, &b.union(&a), &u)?;
    check_ip("A.intersection(B)", fam, &a.intersection(&b), &i)?;
    check_ip("B.intersection(A)", fam, &b.intersection(&a), &i)?;
    let mut t = a.clone();
    t.intersection_assign(&b);
    check_ip("A.intersection_assign(B)", fam, &t, &i)?;
    check_ip("A.difference(B)", fam, &a.difference(&b), &dab)?;
    check_ip("B.difference(A)", fam, &b.difference(&a), &dba)?;

    let claim = IpResources::blocks(b.clone());
    match a.verify_issued(&claim, Overclaim::Refuse) {
        Ok(s) => {
            ensure!(sub, "verify_issued(Refuse) accepted an overclaim: issuer {} claim {}", show(&ma), show(&mb));
            check_ip("verify_issued(Refuse)", fam, &s, &mb)?;
        }
        Err(e) => {
            ensure!(!sub, "verify_issued(Refuse) refused a covered claim: issuer {} claim {}", show(&ma), show(&mb));
            let (t, pre) = if fam == Fam::V4 {
                (e.v4().to_string(), "overclaimed IPv4 resources: ")
            } else {
                (e.v6().to_string(), "overclaimed IPv6 resources: ")
            };
            let list = t.strip_prefix(pre).ok_or_else(|| Fail::new(format!("unexpected error text {:?}", t)))?;
            let s = typed_from_str(fam, list).map_err(|e| {
                let sig = if fam == Fam::V6 && list.contains('.') { "roundtrip:v6-dotted-quad" } else { "roundtrip:text" };
                Fail::sig(sig, format!("overclaim report {:?} does not parse: {}", list, e))
            })?;
            check_ip("overclaim report", fam, &s, &dba)?;
        }
    }
    let s = a.verify_issued(&claim, Overclaim::Trim).map_err(|_| Fail::new("verify_issued(Trim) failed"))?;
    check_ip("verify_issued(Trim)", fam, &s, &i)?;
    for mode in [Overclaim::Refuse, Overclaim::Trim] {
        let s = a.verify_issued(&IpResources::inherit(), mode).map_err(|_| Fail::new("verify_issued(inherit) failed"))?;
        check_ip("verify_issued(inherit)", fam, &s, &ma)?;
        let s = a.verify_issued(&IpResources::missing(), mode).map_err(|_| Fail::new("verify_issued(missing) failed"))?;
        check_ip("verify_issued(missing)", fam, &s, &ISet::empty())?;
    }
    ensure!(b.verify_covered(&IpResources::blocks(a.clone())).is_ok() == sub, "verify_covered for A={} B={}", show(&ma), show(&mb));
    ensure!(b.verify_covered(&IpResources::inherit()).is_ok(), "verify_covered(inherit)");

    let un = a.union(&b);
    let di = a.difference(&b);
    let it = a.intersection(&b);
    for (plo, phi) in probe_blocks(fam, &c.probes, &[&val_model(&c.a), &val_model(&c.b)]) {
        let (lo, hi) = to_addr(fam, plo, phi);
        let blk = IpBlock::from((addr(lo), addr(hi)));
        for (name, s, m) in [("A", &a, &ma), ("B", &b, &mb), ("union", &un, &u), ("difference", &di, &dab), ("intersection", &it, &i)] {
            ensure!(s.contains_block(blk) == m.contains_range(lo, hi), "{}.contains_block({:x}-{:x}) = {} on {}", name, lo, hi, !m.contains_range(lo, hi), show(m));
            ensure!(s.intersects_block(blk) == m.intersects_range(lo, hi), "{}.intersects_block({:x}-{:x}) = {} on {}", name, lo, hi, !m.intersects_range(lo, hi), show(m));
        }
        for (pa, len) in roa_probes(fam, plo, phi) {
            let p = Prefix::new(addr(to_addr(fam, pa, pa).0), len);
            let (rl, rh) = iset::prefix_range(to_addr(fam, pa, pa).0, len);
            ensure!((p.min().to_bits(), p.max().to_bits()) == (rl, rh), "Prefix::new range {:x}/{}", pa, len);
            let roa = RoaIpAddress::new(p, None);
            for (name, s, m) in [("A", &a, &ma), ("union", &un, &u), ("difference", &di, &dab)] {
                ensure!(s.contains_roa(&roa) == m.contains_range(rl, rh), "{}.contains_roa({:x}/{}) = {} on {}", name, rl, len, !m.contains_range(rl, rh), show(m));
            }
        }
    }
    Ok(())
}

//------------ property ---------------------------------------------------------------------------------

pub fn property() -> Property {
    Property {
        id: "C03",
        rule: RULE,
        assumptions: vec![
            "std::net address formatting/parsing is correct (used by the harness' text writer and by the library)",
            "blocks handed to FromIterator/builders have min <= max (AsBlock::from((a,b)) / AddressRange::new do not check; inverted pairs are generated for text and DER only)",
            "iset.rs is the reference; it is itself compared with a bitmap on every run (constants, enum-*)",
            "a decoder may refuse DER whose block list is not canonical (RFC 3779 requires sorted lists); what it accepts must denote the union",
        ],
        subs: vec![
            PropSub {
                name: "build",
                strategy: build_strategy,
                cases: |t| t.pick(600_000, 4_000_000),
                run: run_build,
                floors: &[("bridging", 0.10), ("touching-bound", 0.10), ("adjacent", 0.10), ("nested", 0.10), ("v6-dotted-quad", 0.02)],
            }
            .boxed(),
            PropSub {
                name: "pair",
                strategy: pair_strategy,
                cases: |t| t.pick(500_000, 3_000_000),
                run: run_pair,
                floors: &[("bridging", 0.05), ("touching-bound", 0.10), ("equal", 0.05), ("b-strict-subset", 0.05), ("partial-overlap", 0.10)],
            }
            .boxed(),
            more::rset_sub(),
            more::text_sub(),
            more::der_sub(),
            more::prefixes_sub(),
            enumerate::constants_sub(),
            enumerate::enum_build_sub(),
            enumerate::enum_pairs_sub(),
        ],
    }
}
