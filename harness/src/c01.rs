//! C01 — stub (not built yet).

use crate::engine::*;

pub fn property() -> Property {
    Property { id: "C01", rule: "", assumptions: vec![], subs: vec![] }
}
