//! C01 — certificate validation: only correctly issued certificates are
//! accepted, and the resources of the validated result never grow.
//!
//! Chains TA -> CA{0..2} -> leaf are built with the library's own `TbsCert`
//! builder and `PoolSigner`, DER-encoded, re-decoded with `Cert::decode` and
//! validated top-down. The oracle is a small reference model (interval sets
//! on integers, written here, no code shared with `chain.rs`).

use crate::engine::*;
use crate::gen::{dense_u128, dense_u32, pick_idx, U128};
use crate::keys::{self, PoolSigner, POOL_SIZE};
use chrono::{TimeZone, Utc};
use proptest::prelude::*;
use rpki::crypto::KeyIdentifier;
use rpki::repository::cert::{Cert, ExtendedKeyUsage, KeyUsage, Overclaim, ResourceCert, TbsCert};
use rpki::repository::resources::{Addr, AsBlock, Asn, IpBlock};
use rpki::repository::tal::TalInfo;
use rpki::repository::x509::{Time, Validity};
use rpki::uri;
use serde::{Deserialize, Serialize};
use std::str::FromStr;

pub const RULE: &str = "chains: random chains TA -> CA{0..2} -> leaf (EE | detached EE | router | CA) built with TbsCert + \
PoolSigner, DER-encoded and re-decoded before validation; per certificate overclaim policy (refuse/trim), per family \
(v4,v6,AS) missing / inherit / blocks drawn relative to the issuer's validated set (equal, strict subset, partially \
outside incl. exactly one item past a block end, disjoint incl. adjacent, superset, touching 0/max, arbitrary \
boundary-dense), validity window and an evaluation time (millisecond resolution) at -1s,-1ms,edge,+1ms,+1s,mid,far of \
both edges, both strict values; oracle = reference model (time in window, TA without inherit, refuse => claimed ⊆ \
issuer, validated = none / issuer's / claimed / claimed ∩ issuer) compared with accept/reject of validate_*_at and, on \
accept, with v4/v6/as_resources() as sets, plus ⊆ issuer and canonical order; non-trivial = a chain with >= 1 \
intermediate CA or any inherit / trim / overclaim. tamper: an accepted chain plus one single-point tamper of one \
certificate (bit flip in TBS bytes, bit flip in signature value, sibling issuer with another key, signed by another \
key, time just outside the window, AKI replaced and re-signed, SKI replaced in the TBS by DER patching and re-signed \
with the issuer key, one claimed block replaced by one outside the issuer, notBefore/notAfter swapped in the TBS \
(empty window) and re-signed, evaluated between the ends); oracle = rejected, except block tamper \
under trim = accepted with the intersection; every tamper case is non-trivial. Alternative routes: every verdict is also obtained through inspect_*(strict) followed by verify_*_at and, for trust anchors, verify_ta_ref_at - same accept/reject, same resources; the claimed resources reach the certificate through one of four public routes chosen by the serial number (closure builders, *_from_iter, ready-made IpResources/AsResources values incl. missing()/inherit(), resource builders obtained through Default). Foreign dress (der::Dress, about 60 % of the certificates, also under every tamper kind): the DER the builder produced is re-written as another conforming writer might have and signed again by the issuer - extensions in another order, unknown non-critical extensions, a CPS qualifier, further CRL-DP / SIA entries, AS numbers as one-element ranges, algorithm identifiers without NULL, the IP families in reverse order, resource lists reversed / with a repeated entry / with a range or prefix cut into pieces (same set); for dressed certificates only 'accepted => the model accepts and the validated resources are the model's' is demanded (a refusal is counted).";

//------------ private interval-set model ---------------------------------------

type Iv = (u128, u128);

/// Canonical set: ascending, disjoint, non-adjacent closed intervals.
#[derive(Clone, Debug, PartialEq, Eq, Default)]
struct Set(Vec<Iv>);

impl Set {
    fn from_ranges(v: &[Iv]) -> Set {
        let mut v: Vec<Iv> = v.iter().copied().filter(|(a, b)| a <= b).collect();
        v.sort();
        let mut out: Vec<Iv> = Vec::new();
        for (a, b) in v {
            match out.last_mut() {
                Some(last) if last.1 == u128::MAX || a <= last.1 + 1 => {
                    if b > last.1 {
                        last.1 = b;
                    }
                }
                _ => out.push((a, b)),
            }
        }
        Set(out)
    }
    fn is_empty(&self) -> bool {
        self.0.is_empty()
    }
    fn intersection(&self, o: &Set) -> Set {
        let (mut i, mut j) = (0, 0);
        let mut out = Vec::new();
        while i < self.0.len() && j < o.0.len() {
            let (a, b) = self.0[i];
            let (c, d) = o.0[j];
            let lo = a.max(c);
            let hi = b.min(d);
            if lo <= hi {
                out.push((lo, hi));
            }
            if b < d {
                i += 1;
            } else {
                j += 1;
            }
        }
        Set(out)
    }
    fn is_subset(&self, o: &Set) -> bool {
        self.0.iter().all(|&(a, b)| o.0.iter().any(|&(c, d)| c <= a && b <= d))
    }
    fn complement(&self, max: u128) -> Set {
        let mut out = Vec::new();
        let mut next: Option<u128> = Some(0);
        for &(a, b) in &self.0 {
            if let Some(n) = next {
                if a > n {
                    out.push((n, a - 1));
                }
            }
            next = if b >= max { None } else { Some(b + 1) };
        }
        if let Some(n) = next {
            if n <= max {
                out.push((n, max));
            }
        }
        Set(out)
    }
}

/// Is a foreign list in canonical form?
fn canonical(v: &[Iv]) -> bool {
    v.iter().all(|(a, b)| a <= b) && v.windows(2).all(|w| w[0].1 < u128::MAX && w[0].1 + 1 < w[1].0)
}

#[derive(Clone, Copy, Debug, PartialEq, Eq)]
enum Fam {
    V4,
    V6,
    As,
}

const FAMS: [Fam; 3] = [Fam::V4, Fam::V6, Fam::As];

impl Fam {
    fn max(self) -> u128 {
        match self {
            Fam::V6 => u128::MAX,
            _ => u32::MAX as u128,
        }
    }
    fn name(self) -> &'static str {
        match self {
            Fam::V4 => "v4",
            Fam::V6 => "v6",
            Fam::As => "as",
        }
    }
}

const LOW96: u128 = (1u128 << 96) - 1;

//------------ case types -------------------------------------------------------------

#[derive(Clone, Debug, PartialEq, Serialize, Deserialize)]
pub enum Res {
    Missing,
    Inherit,
    /// Pre-normalised (ascending, disjoint, non-adjacent) closed ranges in the
    /// family's own integer space (IPv4 and AS: 32 bits).
    Blocks(Vec<(U128, U128)>),
}

impl Res {
    fn from_set(s: &Set) -> Res {
        if s.is_empty() {
            Res::Missing
        } else {
            Res::Blocks(s.0.iter().map(|&(a, b)| (U128(a), U128(b))).collect())
        }
    }
    fn set(&self) -> Set {
        match self {
            Res::Blocks(v) => Set::from_ranges(&v.iter().map(|(a, b)| (a.0, b.0)).collect::<Vec<_>>()),
            _ => Set::default(),
        }
    }
}

#[derive(Clone, Debug, Serialize, Deserialize)]
pub struct CertSpec {
    /// index of the subject key (RSA pool key; P-256 key for a router leaf)
    pub key: u8,
    pub trim: bool,
    pub v4: Res,
    pub v6: Res,
    pub asn: Res,
    /// validity window, seconds since the epoch
    pub nb: i64,
    pub na: i64,
    /// evaluation time used when this certificate is validated, milliseconds
    pub eval_ms: i64,
    pub serial: u64,
    /// how a foreign implementation would have written the same certificate
    /// (extension order, extra non-critical extensions, optional parts), applied
    /// to the DER the library builder produced and signed again by the issuer
    #[serde(default)]
    pub dress: crate::der::Dress,
}

impl CertSpec {
    fn res(&self, f: Fam) -> &Res {
        match f {
            Fam::V4 => &self.v4,
            Fam::V6 => &self.v6,
            Fam::As => &self.asn,
        }
    }
    fn res_mut(&mut self, f: Fam) -> &mut Res {
        match f {
            Fam::V4 => &mut self.v4,
            Fam::V6 => &mut self.v6,
            Fam::As => &mut self.asn,
        }
    }
    fn in_window(&self, eval_ms: i64) -> bool {
        (self.nb as i128) * 1000 <= eval_ms as i128 && eval_ms as i128 <= (self.na as i128) * 1000
    }
}

#[derive(Clone, Copy, Debug, PartialEq, Eq, Serialize, Deserialize)]
pub enum Leaf {
    Ee,
    DetachedEe,
    Router,
    Ca,
}

#[derive(Clone, Debug, Serialize, Deserialize)]
pub struct Chain {
    pub strict: bool,
    /// the TA carries an authority key identifier (equal to its SKI)
    pub ta_aki: bool,
    /// certs[0] is the TA, the last one the leaf, CAs in between
    pub certs: Vec<CertSpec>,
    pub leaf: Leaf,
    /// a pool key not used by any certificate of the chain
    pub sibling_key: u8,
}

#[derive(Clone, Copy, Debug, Serialize, Deserialize)]
pub struct Tamper {
    pub idx: u16,
    pub kind: u8,
    pub a: u64,
    pub b: u64,
    pub c: u64,
}

#[derive(Clone, Debug, Serialize, Deserialize)]
pub struct TamperCase {
    pub chain: Chain,
    pub t: Tamper,
}

#[derive(Clone, Copy, Debug, PartialEq, Eq)]
enum Kind {
    Ta,
    Ca,
    Ee,
    DetachedEe,
    Router,
}

impl Chain {
    fn kind(&self, i: usize) -> Kind {
        if i == 0 {
            Kind::Ta
        } else if i + 1 < self.certs.len() {
            Kind::Ca
        } else {
            match self.leaf {
                Leaf::Ee => Kind::Ee,
                Leaf::DetachedEe => Kind::DetachedEe,
                Leaf::Router => Kind::Router,
                Leaf::Ca => Kind::Ca,
            }
        }
    }
}

//------------ reference model --------------------------------------------------------

#[derive(Clone, Debug, Default, PartialEq)]
struct Validated {
    v4: Set,
    v6: Set,
    asn: Set,
}

impl Validated {
    fn get(&self, f: Fam) -> &Set {
        match f {
            Fam::V4 => &self.v4,
            Fam::V6 => &self.v6,
            Fam::As => &self.asn,
        }
    }
    fn get_mut(&mut self, f: Fam) -> &mut Set {
        match f {
            Fam::V4 => &mut self.v4,
            Fam::V6 => &mut self.v6,
            Fam::As => &mut self.asn,
        }
    }
}

/// Expected outcome of validating `spec` as `kind` under `issuer` at `eval_ms`.
fn model_step(
    issuer: Option<&Validated>,
    spec: &CertSpec,
    kind: Kind,
    eval_ms: i64,
) -> Result<Validated, &'static str> {
    if FAMS.iter().all(|&f| *spec.res(f) == Res::Missing) {
        // "both AS and IP resources extensions are missing": not decodable
        return Err("no-resources");
    }
    if kind == Kind::Router {
        // RFC 8209 profile as inspected by the library
        if spec.v4 != Res::Missing || spec.v6 != Res::Missing || !matches!(spec.asn, Res::Blocks(_)) {
            return Err("router-profile");
        }
    }
    if !spec.in_window(eval_ms) {
        return Err("time");
    }
    let mut out = Validated::default();
    for f in FAMS {
        let v = match (spec.res(f), issuer) {
            (Res::Missing, _) => Set::default(),
            (Res::Inherit, None) => return Err("ta-inherit"),
            (Res::Inherit, Some(i)) => i.get(f).clone(),
            (Res::Blocks(_), None) => spec.res(f).set(),
            (Res::Blocks(_), Some(i)) => {
                let b = spec.res(f).set();
                if spec.trim {
                    b.intersection(i.get(f))
                } else if b.is_subset(i.get(f)) {
                    b
                } else {
                    return Err("overclaim");
                }
            }
        };
        *out.get_mut(f) = v;
    }
    Ok(out)
}

//------------ building certificates --------------------------------------------------

fn time_s(secs: i64) -> Result<Time, Fail> {
    Utc.timestamp_opt(secs, 0)
        .single()
        .map(Time::new)
        .ok_or_else(|| Fail::new(format!("generator: time {} s out of range", secs)))
}

fn time_ms(ms: i64) -> Result<Time, Fail> {
    Utc.timestamp_millis_opt(ms)
        .single()
        .map(Time::new)
        .ok_or_else(|| Fail::new(format!("generator: time {} ms out of range", ms)))
}

fn rsync(s: &str) -> uri::Rsync {
    uri::Rsync::from_str(s).expect("static uri")
}

#[derive(Default)]
struct Overrides {
    /// replace the authority key identifier
    aki: Option<Option<KeyIdentifier>>,
    /// use this (RSA pool) subject key instead of the spec's
    subject_key: Option<usize>,
    /// sign with this pool key instead of the issuer's
    signer_key: Option<usize>,
}

fn subject_key(c: &Chain, i: usize, ov: &Overrides) -> rpki::crypto::PublicKey {
    let signer = PoolSigner::new();
    match ov.subject_key {
        Some(k) => signer.info(k),
        None if c.kind(i) == Kind::Router => keys::ec_key(c.certs[i].key as usize),
        None => signer.info(c.certs[i].key as usize),
    }
}

fn push_ip(spec: &Res, f: Fam) -> Vec<IpBlock> {
    let Res::Blocks(v) = spec else { return Vec::new() };
    v.iter()
        .map(|&(a, b)| {
            let (lo, hi) = if f == Fam::V4 { (a.0 << 96, (b.0 << 96) | LOW96) } else { (a.0, b.0) };
            IpBlock::from((Addr::from_bits(lo), Addr::from_bits(hi)))
        })
        .collect()
}

/// Builds certificate `i` of the chain, signs it and returns its DER encoding.
fn build_der(c: &Chain, i: usize, ov: &Overrides) -> Result<Vec<u8>, Fail> {
    let signer = PoolSigner::new();
    let spec = &c.certs[i];
    let kind = c.kind(i);
    let issuer_key = if i == 0 { ov.subject_key.unwrap_or(spec.key as usize) } else { c.certs[i - 1].key as usize };
    let issuer_pub = signer.info(issuer_key);
    let subject_pub = subject_key(c, i, ov);
    let overclaim = if spec.trim { Overclaim::Trim } else { Overclaim::Refuse };
    let usage = if matches!(kind, Kind::Ta | Kind::Ca) { KeyUsage::Ca } else { KeyUsage::Ee };
    let mut tbs = TbsCert::new(
        spec.serial.into(),
        issuer_pub.to_subject_name(),
        Validity::new(time_s(spec.nb)?, time_s(spec.na)?),
        None,
        subject_pub.clone(),
        usage,
        overclaim,
    );
    let base = "rsync://example.net/repo/";
    match kind {
        Kind::Ta | Kind::Ca => {
            tbs.set_basic_ca(Some(true));
            tbs.set_ca_repository(Some(rsync(&format!("{}ca{}/", base, i))));
            tbs.set_rpki_manifest(Some(rsync(&format!("{}ca{}/m.mft", base, i))));
        }
        Kind::Ee => tbs.set_signed_object(Some(rsync(&format!("{}ca{}/o.roa", base, i)))),
        Kind::DetachedEe => {
            if spec.serial % 2 == 0 {
                tbs.set_signed_object(Some(rsync(&format!("{}ca{}/o.sig", base, i))));
            }
        }
        Kind::Router => tbs.set_extended_key_usage(Some(ExtendedKeyUsage::create_router())),
    }
    if kind == Kind::Ta {
        if c.ta_aki {
            tbs.set_authority_key_identifier(Some(subject_pub.key_identifier()));
        }
    } else {
        tbs.set_authority_key_identifier(Some(issuer_pub.key_identifier()));
        tbs.set_crl_uri(Some(rsync(&format!("{}ca{}/c.crl", base, i - 1))));
        tbs.set_ca_issuer(Some(rsync(&format!("{}ca{}.cer", base, i - 1))));
    }
    if let Some(aki) = ov.aki {
        tbs.set_authority_key_identifier(aki);
    }
    // The resources reach the certificate through one of the public routes (chosen by the
    // serial number, so it is part of the case): the closure builders, the *_from_iter
    // setters, ready-made IpResources / AsResources values, or resource builders obtained
    // through Default. All of them must put the same claim on the wire.
    use rpki::repository::resources::{AsBlocks, AsResources, AsResourcesBuilder, IpBlocks, IpResources, IpResourcesBuilder};
    let route = spec.serial % 4;
    let as_blocks = |v: &Vec<(U128, U128)>| -> Vec<AsBlock> {
        v.iter()
            .map(|&(lo, hi)| {
                let (lo, hi) = (Asn::from_u32(lo.0 as u32), Asn::from_u32(hi.0 as u32));
                if lo == hi { AsBlock::Id(lo) } else { AsBlock::from((lo, hi)) }
            })
            .collect()
    };
    for f in [Fam::V4, Fam::V6] {
        let r = spec.res(f);
        let blocks = push_ip(r, f);
        let value: Option<IpResources> = match (r, route) {
            (Res::Missing, 0) => None,
            (Res::Missing, 1) => Some(IpResourcesBuilder::default().finalize()),
            (Res::Missing, 2) => Some(IpResources::missing()),
            (Res::Missing, _) => Some(IpResourcesBuilder::new().finalize()),
            (Res::Inherit, 0) | (Res::Inherit, 1) => {
                if f == Fam::V4 { tbs.set_v4_resources_inherit() } else { tbs.set_v6_resources_inherit() }
                None
            }
            (Res::Inherit, 2) => Some(IpResources::inherit()),
            (Res::Inherit, _) => {
                let mut b = IpResourcesBuilder::default();
                b.inherit();
                Some(b.finalize())
            }
            (Res::Blocks(_), 0) => {
                let op = |b: &mut rpki::repository::resources::IpBlocksBuilder| blocks.iter().for_each(|x| b.push(*x));
                if f == Fam::V4 { tbs.build_v4_resource_blocks(op) } else { tbs.build_v6_resource_blocks(op) }
                None
            }
            (Res::Blocks(_), 1) => {
                if f == Fam::V4 { tbs.v4_resources_from_iter(blocks.iter().copied()) } else { tbs.v6_resources_from_iter(blocks.iter().copied()) }
                None
            }
            (Res::Blocks(_), 2) => Some(IpResources::blocks(blocks.iter().copied().collect::<IpBlocks>())),
            (Res::Blocks(_), _) => {
                let mut b = IpResourcesBuilder::default();
                b.blocks(|b| blocks.iter().for_each(|x| b.push(*x)));
                Some(b.finalize())
            }
        };
        if let Some(v) = value {
            if f == Fam::V4 { tbs.set_v4_resources(v) } else { tbs.set_v6_resources(v) }
        }
    }
    match (&spec.asn, route) {
        (Res::Missing, 0) => {}
        (Res::Missing, 1) => tbs.set_as_resources(AsResourcesBuilder::default().finalize()),
        (Res::Missing, 2) => tbs.set_as_resources(AsResources::missing()),
        (Res::Missing, _) => tbs.set_as_resources(AsResourcesBuilder::new().finalize()),
        (Res::Inherit, 0) | (Res::Inherit, 1) => tbs.set_as_resources_inherit(),
        (Res::Inherit, 2) => tbs.set_as_resources(AsResources::inherit()),
        (Res::Inherit, _) => {
            let mut b = AsResourcesBuilder::default();
            b.inherit();
            tbs.set_as_resources(b.finalize())
        }
        (Res::Blocks(v), 0) => tbs.build_as_resource_blocks(|b| as_blocks(v).into_iter().for_each(|x| b.push(x))),
        (Res::Blocks(v), 1) => tbs.as_resources_from_iter(as_blocks(v)),
        (Res::Blocks(v), 2) => tbs.set_as_resources(AsResources::blocks(as_blocks(v).into_iter().collect::<AsBlocks>())),
        (Res::Blocks(v), _) => {
            let mut b = AsResourcesBuilder::default();
            b.blocks(|b| as_blocks(v).into_iter().for_each(|x| b.push(x)));
            tbs.set_as_resources(b.finalize())
        }
    }
    let sign_with = ov.signer_key.unwrap_or(issuer_key);
    let cert = tbs
        .into_cert(&signer, &signer.key(sign_with))
        .map_err(|e| Fail::new(format!("signing failed: {}", e)))?;
    let der = cert.to_captured().into_bytes().to_vec();
    if spec.dress.is_plain() {
        return Ok(der);
    }
    crate::der::dress_cert(&der, sign_with, &spec.dress).map_err(|e| Fail::new(format!("harness: dressing failed: {}", e)))
}

//------------ validating through the library -----------------------------------------

enum Outcome {
    Rejected(String),
    /// `None` for router certificates (validation returns `()`).
    Accepted(Option<Box<ResourceCert>>),
}

fn validate(der: &[u8], kind: Kind, issuer: Option<&ResourceCert>, strict: bool, now: Time) -> Result<Outcome, Fail> {
    let cert = match no_panic("Cert::decode", || Cert::decode(der))? {
        Ok(c) => c,
        Err(e) => return Ok(Outcome::Rejected(format!("decode: {}", e))),
    };
    let need_issuer = || Fail::new("harness: issuer missing");
    let alt_cert = cert.clone();
    let res = no_panic("validate", || -> Result<Result<Option<ResourceCert>, String>, Fail> {
        Ok(match kind {
            Kind::Ta => cert
                .validate_ta_at(TalInfo::from_name("c01".into()).into_arc(), strict, now)
                .map(Some)
                .map_err(|e| e.to_string()),
            Kind::Ca => cert.validate_ca_at(issuer.ok_or_else(need_issuer)?, strict, now).map(Some).map_err(|e| e.to_string()),
            Kind::Ee => cert.validate_ee_at(issuer.ok_or_else(need_issuer)?, strict, now).map(Some).map_err(|e| e.to_string()),
            Kind::DetachedEe => cert
                .validate_detached_ee_at(issuer.ok_or_else(need_issuer)?, strict, now)
                .map(Some)
                .map_err(|e| e.to_string()),
            Kind::Router => cert
                .validate_router_at(issuer.ok_or_else(need_issuer)?, strict, now)
                .map(|()| None)
                .map_err(|e| e.to_string()),
        })
    })??;
    // The same question through the other public routes: the documented two-step form
    // ("validate = inspect + verify": inspect_*(strict) followed by verify_*_at) and, for trust
    // anchors, the borrowing verify_ta_ref_at. They must give the same verdict and resources.
    let alt = no_panic("inspect + verify", || -> Result<Result<Option<ResourceCert>, String>, Fail> {
        let c = alt_cert.clone();
        let s = |e: &dyn std::fmt::Display| e.to_string();
        Ok(match kind {
            Kind::Ta => match c.inspect_ta(strict) {
                Err(e) => Err(s(&e)),
                Ok(()) => {
                    let by_ref = c.verify_ta_ref_at(strict, now).map_err(|e| s(&e));
                    let owned = c.verify_ta_at(TalInfo::from_name("c01".into()).into_arc(), strict, now).map(Some).map_err(|e| s(&e));
                    if by_ref.is_ok() != owned.is_ok() {
                        return Err(Fail::sig(
                            "c01:entry-points-disagree",
                            format!("trust anchor: verify_ta_ref_at says {:?}, verify_ta_at says {:?}", by_ref, owned.as_ref().map(|_| ())),
                        ));
                    }
                    owned
                }
            },
            Kind::Ca => match c.inspect_ca(strict) {
                Err(e) => Err(s(&e)),
                Ok(()) => c.verify_ca_at(issuer.ok_or_else(need_issuer)?, strict, now).map(Some).map_err(|e| s(&e)),
            },
            Kind::Ee => match c.inspect_ee(strict) {
                Err(e) => Err(s(&e)),
                Ok(()) => c.verify_ee_at(issuer.ok_or_else(need_issuer)?, strict, now).map(Some).map_err(|e| s(&e)),
            },
            Kind::DetachedEe => match c.inspect_detached_ee(strict) {
                Err(e) => Err(s(&e)),
                Ok(()) => c.verify_ee_at(issuer.ok_or_else(need_issuer)?, strict, now).map(Some).map_err(|e| s(&e)),
            },
            Kind::Router => match c.inspect_router(strict) {
                Err(e) => Err(s(&e)),
                Ok(()) => c.verify_router_at(issuer.ok_or_else(need_issuer)?, strict, now).map(|()| None).map_err(|e| s(&e)),
            },
        })
    })??;
    // The clock-based variants (validate_*, verify_* without _at) are the same functions at
    // Time::now(): asked whenever the certificate's window ends are more than a day away from
    // the present, they must give the verdict the *_at variants give for Time::now().
    {
        let (nb, na) = (alt_cert.validity().not_before().timestamp(), alt_cert.validity().not_after().timestamp());
        let t = chrono::Utc::now().timestamp();
        if (nb - t).abs() > 86_400 && (na - t).abs() > 86_400 {
            let tal = || TalInfo::from_name("c01".into()).into_arc();
            let s = |e: &dyn std::fmt::Display| e.to_string();
            let pairs = no_panic("clock-based validation", || -> Result<Vec<(&'static str, Result<(), String>, Result<(), String>)>, Fail> {
                let c = &alt_cert;
                Ok(match kind {
                    Kind::Ta => vec![
                        ("validate_ta", c.clone().validate_ta(tal(), strict).map(|_| ()).map_err(|e| s(&e)), c.clone().validate_ta_at(tal(), strict, Time::now()).map(|_| ()).map_err(|e| s(&e))),
                        ("verify_ta", c.clone().verify_ta(tal(), strict).map(|_| ()).map_err(|e| s(&e)), c.clone().verify_ta_at(tal(), strict, Time::now()).map(|_| ()).map_err(|e| s(&e))),
                        ("verify_ta_ref", c.verify_ta_ref(strict).map_err(|e| s(&e)), c.verify_ta_ref_at(strict, Time::now()).map_err(|e| s(&e))),
                    ],
                    Kind::Ca => {
                        let i = issuer.ok_or_else(need_issuer)?;
                        vec![
                            ("validate_ca", c.clone().validate_ca(i, strict).map(|_| ()).map_err(|e| s(&e)), c.clone().validate_ca_at(i, strict, Time::now()).map(|_| ()).map_err(|e| s(&e))),
                            ("verify_ca", c.clone().verify_ca(i, strict).map(|_| ()).map_err(|e| s(&e)), c.clone().verify_ca_at(i, strict, Time::now()).map(|_| ()).map_err(|e| s(&e))),
                        ]
                    }
                    Kind::Ee => {
                        let i = issuer.ok_or_else(need_issuer)?;
                        vec![
                            ("validate_ee", c.clone().validate_ee(i, strict).map(|_| ()).map_err(|e| s(&e)), c.clone().validate_ee_at(i, strict, Time::now()).map(|_| ()).map_err(|e| s(&e))),
                            ("verify_ee", c.clone().verify_ee(i, strict).map(|_| ()).map_err(|e| s(&e)), c.clone().verify_ee_at(i, strict, Time::now()).map(|_| ()).map_err(|e| s(&e))),
                        ]
                    }
                    Kind::DetachedEe => {
                        let i = issuer.ok_or_else(need_issuer)?;
                        vec![(
                            "validate_detached_ee",
                            c.clone().validate_detached_ee(i, strict).map(|_| ()).map_err(|e| s(&e)),
                            c.clone().validate_detached_ee_at(i, strict, Time::now()).map(|_| ()).map_err(|e| s(&e)),
                        )]
                    }
                    Kind::Router => {
                        let i = issuer.ok_or_else(need_issuer)?;
                        vec![
                            ("validate_router", c.validate_router(i, strict).map_err(|e| s(&e)), c.validate_router_at(i, strict, Time::now()).map_err(|e| s(&e))),
                            ("verify_router", c.verify_router(i, strict).map_err(|e| s(&e)), c.verify_router_at(i, strict, Time::now()).map_err(|e| s(&e))),
                        ]
                    }
                })
            })??;
            for (what, by_clock, at_now) in pairs {
                ensure_sig!(by_clock.is_ok() == at_now.is_ok(), "c01:entry-points-disagree",
                    "{} (evaluation time = the clock) says {:?}, the _at variant at Time::now() says {:?}", what, by_clock, at_now);
            }
        }
    }
    match (&res, &alt) {
        (Ok(a), Ok(b)) => {
            if let (Some(a), Some(b)) = (a, b) {
                for f in FAMS {
                    let (x, y) = (lib_lists(a, f)?, lib_lists(b, f)?);
                    ensure_sig!(x == y, "c01:entry-points-disagree",
                        "{:?}: validate_*_at yields {} resources {:x?}, inspect + verify_*_at yields {:x?}", kind, f.name(), x, y);
                }
            }
        }
        (Err(_), Err(_)) => {}
        (a, b) => {
            return Err(Fail::sig(
                "c01:entry-points-disagree",
                format!("{:?}: validate_*_at says {:?} but inspect_* followed by verify_*_at says {:?}",
                    kind, a.as_ref().map(|_| "accepted"), b.as_ref().map(|_| "accepted")),
            ))
        }
    }
    Ok(match res {
        Ok(rc) => Outcome::Accepted(rc.map(Box::new)),
        Err(e) => Outcome::Rejected(e),
    })
}

/// The validated resources as reported by the library, mapped into the model's
/// integer spaces (raw lists, in the library's order).
fn lib_lists(rc: &ResourceCert, f: Fam) -> Result<Vec<Iv>, Fail> {
    match f {
        Fam::As => Ok(rc
            .as_resources()
            .iter()
            .map(|b| (b.min().into_u32() as u128, b.max().into_u32() as u128))
            .collect()),
        Fam::V6 => Ok(rc.v6_resources().iter().map(|b| (b.min().to_bits(), b.max().to_bits())).collect()),
        Fam::V4 => {
            let mut out = Vec::new();
            for b in rc.v4_resources().iter() {
                let (lo, hi) = (b.min().to_bits(), b.max().to_bits());
                ensure_sig!(
                    lo & LOW96 == 0 && hi & LOW96 == LOW96,
                    "c01:resources-differ",
                    "validated IPv4 block {:x}-{:x} is not made of whole IPv4 addresses",
                    lo,
                    hi
                );
                out.push((lo >> 96, hi >> 96));
            }
            Ok(out)
        }
    }
}

fn check_resources(
    what: &str,
    rc: &ResourceCert,
    expected: &Validated,
    issuer: Option<&ResourceCert>,
) -> CheckResult {
    for f in FAMS {
        let raw = lib_lists(rc, f)?;
        ensure_sig!(
            canonical(&raw),
            "c01:noncanonical",
            "{}: validated {} resources are not an ascending list of disjoint, non-adjacent blocks: {:x?}",
            what,
            f.name(),
            raw
        );
        let got = Set::from_ranges(&raw);
        ensure_sig!(
            got == *expected.get(f),
            "c01:resources-differ",
            "{}: validated {} resources {:x?} differ from the model {:x?}",
            what,
            f.name(),
            got.0,
            expected.get(f).0
        );
        if let Some(i) = issuer {
            let iss = Set::from_ranges(&lib_lists(i, f)?);
            ensure_sig!(
                got.is_subset(&iss),
                "c01:resources-grow",
                "{}: validated {} resources {:x?} are not a subset of the issuer's {:x?}",
                what,
                f.name(),
                got.0,
                iss.0
            );
        }
    }
    Ok(())
}

/// Validates certificate `i` (given as DER) and compares with the model.
/// Returns the validated certificate and model state on (expected and actual)
/// acceptance, `None` on (expected and actual) rejection.
#[allow(clippy::too_many_arguments)]
fn step(
    c: &Chain,
    i: usize,
    der: &[u8],
    spec: &CertSpec,
    eval_ms: i64,
    issuer: Option<(&ResourceCert, &Validated)>,
    what: &str,
) -> Result<Option<(Option<Box<ResourceCert>>, Validated)>, Fail> {
    let kind = c.kind(i);
    let expected = model_step(issuer.map(|x| x.1), spec, kind, eval_ms);
    let got = validate(der, kind, issuer.map(|x| x.0), c.strict, time_ms(eval_ms)?)?;
    match (expected, got) {
        (Ok(m), Outcome::Accepted(rc)) => {
            if let Some(rc) = &rc {
                check_resources(what, rc, &m, issuer.map(|x| x.0))?;
            }
            Ok(Some((rc, m)))
        }
        (Err(_), Outcome::Rejected(_)) => Ok(None),
        // A certificate in foreign dress that the library turns down is outside the
        // statement ("succeeds only if"): counted, never a violation.
        (Ok(_), Outcome::Rejected(e)) if !spec.dress.is_plain() => Err(Fail::sig(DRESSED_REJECTED, e)),
        (Ok(_), Outcome::Rejected(e)) => Err(Fail::sig(
            "c01:rejects-valid",
            format!("{} (cert {} as {:?}): the model accepts, the library rejects: {}", what, i, kind, e),
        )),
        (Err(why), Outcome::Accepted(_)) => Err(Fail::sig(
            format!("c01:accepts:{}", why),
            format!("{} (cert {} as {:?}): accepted although the model rejects ({})", what, i, kind, why),
        )),
    }
}

//------------ sub-check: chains ------------------------------------------------------

fn relation(b: &Set, issuer: &Set) -> &'static str {
    if b == issuer {
        "rel-equal"
    } else if b.is_subset(issuer) {
        "rel-subset"
    } else if issuer.is_subset(b) {
        "rel-superset"
    } else if b.intersection(issuer).is_empty() {
        "rel-disjoint"
    } else {
        "rel-partial"
    }
}

/// Class labels, at most once per case.
#[derive(Default)]
struct Labels(std::collections::BTreeSet<&'static str>);

impl Labels {
    fn label(&mut self, l: &'static str) {
        self.0.insert(l);
    }
    fn label_if(&mut self, c: bool, l: &'static str) {
        if c {
            self.0.insert(l);
        }
    }
}

const DRESSED_REJECTED: &str = "c01:internal:dressed-rejected";

/// Turns the internal "library rejected a certificate in foreign dress that the model
/// accepts" outcome into a counted, passing case.
fn dressed_ok(res: CheckResult, label: &mut dyn FnMut(&'static str)) -> CheckResult {
    match res {
        Err(f) if f.sig == DRESSED_REJECTED => {
            label("dressed-rejected-by-library");
            Ok(())
        }
        other => other,
    }
}

fn run_chain(c: &Chain, real_obs: &mut Obs) -> CheckResult {
    let mut labels = Labels::default();
    let mut nontrivial = false;
    let res = run_chain_inner(c, &mut labels, &mut nontrivial);
    let res = dressed_ok(res, &mut |l| labels.label(l));
    for l in labels.0 {
        real_obs.label(l);
    }
    real_obs.nontrivial_if(nontrivial);
    res
}

fn run_chain_inner(c: &Chain, obs: &mut Labels, nontrivial_out: &mut bool) -> CheckResult {
    ensure!(c.certs.len() >= 2 && c.certs.len() <= 4, "malformed case: {} certificates", c.certs.len());
    let n = c.certs.len();
    obs.label(match n {
        2 => "depth-0",
        3 => "depth-1",
        _ => "depth-2",
    });
    obs.label(match c.leaf {
        Leaf::Ee => "leaf-ee",
        Leaf::DetachedEe => "leaf-detached-ee",
        Leaf::Router => "leaf-router",
        Leaf::Ca => "leaf-ca",
    });
    obs.label(if c.strict { "strict" } else { "relaxed" });
    let mut nontrivial = n >= 3;
    let mut state: Option<(Option<Box<ResourceCert>>, Validated)> = None;
    let mut accepted = true;
    for i in 0..n {
        let spec = &c.certs[i];
        // class labels (by what the case actually is, not by what the generator intended)
        if i > 0 {
            obs.label(if spec.trim { "policy-trim" } else { "policy-refuse" });
            let iv = &state.as_ref().unwrap().1;
            for f in FAMS {
                match spec.res(f) {
                    Res::Missing => obs.label("fam-missing"),
                    Res::Inherit => {
                        obs.label("fam-inherit");
                        nontrivial = true;
                    }
                    Res::Blocks(_) => {
                        obs.label("fam-blocks");
                        let b = spec.res(f).set();
                        let rel = relation(&b, iv.get(f));
                        obs.label(rel);
                        if !b.is_subset(iv.get(f)) {
                            obs.label(if spec.trim { "overclaim-trimmed" } else { "overclaim-refused" });
                            nontrivial = true;
                        }
                        obs.label_if(b.0.first().map(|x| x.0) == Some(0), "touch-0");
                        obs.label_if(b.0.last().map(|x| x.1) == Some(f.max()), "touch-max");
                    }
                }
            }
            nontrivial |= spec.trim;
        }
        let ms = spec.eval_ms as i128;
        let (lo, hi) = (spec.nb as i128 * 1000, spec.na as i128 * 1000);
        obs.label(if spec.in_window(spec.eval_ms) { "in-window" } else { "out-of-window" });
        obs.label_if(ms == lo || ms == hi, "time-on-edge");
        obs.label_if((ms - lo).abs() == 1 || (ms - hi).abs() == 1, "time-1ms-off-edge");
        if !spec.dress.is_plain() {
            let d = &spec.dress;
            obs.label("dressed");
            nontrivial = true;
            obs.label_if(d.perm != 0, "dress-ext-order");
            obs.label_if(!d.unknown.is_empty(), "dress-unknown-ext");
            obs.label_if(d.cps || d.crldp_https != 0, "dress-policy-crldp");
            obs.label_if(d.sia != 0, "dress-sia");
            obs.label_if(d.as_id_as_range != 0, "dress-as-range");
            obs.label_if(d.no_null, "dress-no-null");
            obs.label_if(d.ip_family_swap, "dress-ip-family-order");
            obs.label_if(d.res_noncanon & 0x3f != 0, "dress-resources-noncanonical");
        }
        let der = build_der(c, i, &Overrides::default())?;
        let issuer = match &state {
            Some((Some(rc), m)) => Some((&**rc, m)),
            Some((None, _)) => return Err(Fail::new("malformed case: router certificate used as issuer")),
            None => None,
        };
        match step(c, i, &der, spec, spec.eval_ms, issuer, "chain")? {
            Some(s) => state = Some(s),
            None => {
                accepted = false;
                obs.label(match model_step(issuer.map(|x| x.1), spec, c.kind(i), spec.eval_ms) {
                    Err("time") => "reject-time",
                    Err("overclaim") => "reject-overclaim",
                    Err("ta-inherit") => "reject-ta-inherit",
                    _ => "reject-other",
                });
                break;
            }
        }
    }
    obs.label(if accepted { "accepted" } else { "rejected" });
    obs.label_if(accepted && c.certs.iter().any(|s| !s.dress.is_plain()), "accepted-dressed");
    *nontrivial_out = nontrivial;
    Ok(())
}

//------------ sub-check: tamper ------------------------------------------------------

/// (tag, content start, content end) of the TLV starting at `pos`.
fn tlv(buf: &[u8], pos: usize) -> Option<(u8, usize, usize)> {
    let tag = *buf.get(pos)?;
    let l0 = *buf.get(pos + 1)? as usize;
    let (len, hdr) = if l0 < 0x80 {
        (l0, 2)
    } else {
        let n = l0 & 0x7f;
        if n == 0 || n > 4 {
            return None;
        }
        let mut l = 0usize;
        for k in 0..n {
            l = (l << 8) | *buf.get(pos + 2 + k)? as usize;
        }
        (l, 2 + n)
    };
    let start = pos + hdr;
    let end = start.checked_add(len)?;
    if end > buf.len() {
        return None;
    }
    Some((tag, start, end))
}

struct CertLayout {
    /// the TBSCertificate TLV including its header (= the signed bytes)
    tbs: (usize, usize),
    /// the signature value (BIT STRING content without the unused-bits octet)
    sig: (usize, usize),
    /// the 20 octets of the subject key identifier
    ski: (usize, usize),
}

fn layout(der: &[u8]) -> Option<CertLayout> {
    let (t, s, _) = tlv(der, 0)?;
    if t != 0x30 {
        return None;
    }
    let (t, tbs_s, tbs_e) = tlv(der, s)?;
    if t != 0x30 {
        return None;
    }
    let (_, _, alg_e) = tlv(der, tbs_e)?;
    let (t, sig_s, sig_e) = tlv(der, alg_e)?;
    if t != 0x03 || sig_e != der.len() {
        return None;
    }
    // walk the TBS for the [3] extensions
    let mut pos = tbs_s;
    let mut ski = None;
    while pos < tbs_e {
        let (t, cs, ce) = tlv(der, pos)?;
        if t == 0xA3 {
            let (_, mut p, e) = tlv(der, cs)?;
            while p < e {
                let (_, xs, xe) = tlv(der, p)?;
                let (ot, os, oe) = tlv(der, xs)?;
                if ot == 0x06 && der[os..oe] == [0x55, 0x1D, 0x0E] {
                    let mut q = oe;
                    let (mut vt, mut vs, mut ve) = tlv(der, q)?;
                    if vt == 0x01 {
                        q = ve;
                        (vt, vs, ve) = tlv(der, q)?;
                    }
                    if vt != 0x04 {
                        return None;
                    }
                    let (it, is, ie) = tlv(der, vs)?;
                    if it != 0x04 || ie != ve || ie - is != 20 {
                        return None;
                    }
                    ski = Some((is, ie));
                }
                p = xe;
            }
        }
        pos = ce;
    }
    Some(CertLayout { tbs: (s, tbs_e), sig: (sig_s + 1, sig_e), ski: ski? })
}

/// Positions of the two Time TLVs inside the TBS: (start of notBefore, start of
/// notAfter, end of notAfter). Validity is the third SEQUENCE among the
/// top-level TBS fields (after signature algorithm and issuer).
fn validity_span(der: &[u8], lay: &CertLayout) -> Option<(usize, usize, usize)> {
    let (_, tbs_cs, tbs_ce) = tlv(der, lay.tbs.0)?;
    let mut pos = tbs_cs;
    let mut seqs = 0;
    while pos < tbs_ce {
        let (t, cs, ce) = tlv(der, pos)?;
        if t == 0x30 {
            seqs += 1;
            if seqs == 3 {
                let (t1, _, e1) = tlv(der, cs)?;
                let (t2, _, e2) = tlv(der, e1)?;
                if !(t1 == 0x17 || t1 == 0x18) || !(t2 == 0x17 || t2 == 0x18) || e2 != ce {
                    return None;
                }
                return Some((cs, e1, e2));
            }
        }
        pos = ce;
    }
    None
}

const TAMPER_KINDS: [&str; 9] = [
    "tamper-tbs-bit",
    "tamper-sig-bit",
    "tamper-sibling-issuer",
    "tamper-wrong-signer",
    "tamper-time",
    "tamper-aki",
    "tamper-ski",
    "tamper-block",
    "tamper-window-inverted",
];

fn run_tamper(tc: &TamperCase, obs: &mut Obs) -> CheckResult {
    let res = run_tamper_inner(tc, obs);
    dressed_ok(res, &mut |l| obs.label(l))
}

fn run_tamper_inner(tc: &TamperCase, obs: &mut Obs) -> CheckResult {
    let c = &tc.chain;
    let t = tc.t;
    ensure!(c.certs.len() >= 2 && c.certs.len() <= 4, "malformed case: {} certificates", c.certs.len());
    let n = c.certs.len();
    let wanted = [0usize, 1, 2, 3, 4, 5, 6, 7, 7, 8][t.kind as usize % 10];
    // sibling issuer and block tamper need an issuer: aim below the TA
    let idx = if wanted == 2 || wanted == 7 { 1 + pick_idx(t.idx, n - 1) } else { pick_idx(t.idx, n) };
    obs.nontrivial();
    obs.label(match idx {
        0 => "tamper-at-ta",
        i if i + 1 == n => "tamper-at-leaf",
        _ => "tamper-at-ca",
    });
    // 1. the untampered chain down to idx must be accepted
    let mut states: Vec<(Option<Box<ResourceCert>>, Validated)> = Vec::new();
    let mut ders: Vec<Vec<u8>> = Vec::new();
    for i in 0..=idx {
        let der = build_der(c, i, &Overrides::default())?;
        let issuer = match states.last() {
            Some((Some(rc), m)) => Some((&**rc, m)),
            Some((None, _)) => return Err(Fail::new("malformed case: router certificate used as issuer")),
            None => None,
        };
        let spec = &c.certs[i];
        ensure!(
            model_step(issuer.map(|x| x.1), spec, c.kind(i), spec.eval_ms).is_ok(),
            "malformed case: base chain is not accepted by the model at certificate {}",
            i
        );
        let s = step(c, i, &der, spec, spec.eval_ms, issuer, "tamper base chain")?
            .ok_or_else(|| Fail::new("unreachable: model accepted"))?;
        states.push(s);
        ders.push(der);
    }
    let spec = &c.certs[idx];
    obs.label_if(!spec.dress.is_plain(), "tamper-dressed");
    let kind = c.kind(idx);
    let issuer_state = if idx > 0 { Some(&states[idx - 1]) } else { None };
    let issuer = issuer_state.map(|(rc, m)| (&**rc.as_ref().expect("issuer is a CA"), m));
    let issuer_key = if idx == 0 { spec.key as usize } else { c.certs[idx - 1].key as usize };
    let sibling = c.sibling_key as usize % POOL_SIZE;
    ensure!(
        c.certs.iter().enumerate().all(|(i, s)| c.kind(i) == Kind::Router || s.key as usize % POOL_SIZE != sibling),
        "malformed case: sibling key is used in the chain"
    );

    // 2. pick an applicable tamper kind
    let mut k = wanted;
    // block tamper needs a claimed block list and room outside the issuer
    let block_choice = || -> Option<(Fam, Set)> {
        let (_, im) = issuer?;
        let cands: Vec<(Fam, Set)> = FAMS
            .iter()
            .filter_map(|&f| {
                let gaps = im.get(f).complement(f.max());
                (matches!(spec.res(f), Res::Blocks(_)) && !gaps.is_empty()).then_some((f, gaps))
            })
            .collect();
        if cands.is_empty() {
            None
        } else {
            Some(cands[(t.a % cands.len() as u64) as usize].clone())
        }
    };
    if k == 7 && block_choice().is_none() {
        k = 4;
    }
    if k == 2 && idx == 0 {
        k = 3;
    }
    // an inverted window needs two different ends
    if k == 8 && spec.nb >= spec.na {
        k = 4;
    }
    obs.label(TAMPER_KINDS[k]);

    let expect_reject = |der: &[u8], issuer: Option<&ResourceCert>, eval_ms: i64, what: &str| -> CheckResult {
        match validate(der, kind, issuer, c.strict, time_ms(eval_ms)?)? {
            Outcome::Rejected(_) => Ok(()),
            Outcome::Accepted(_) => Err(Fail::sig(
                format!("c01:accepts:{}", TAMPER_KINDS[k]),
                format!("certificate {} ({:?}) still accepted after tamper: {}", idx, kind, what),
            )),
        }
    };
    let irc = issuer.map(|x| x.0);
    match k {
        0 => {
            let lay = layout(&ders[idx]).ok_or_else(|| Fail::new("harness: cannot locate TBS in the certificate"))?;
            let off = lay.tbs.0 + (t.a % (lay.tbs.1 - lay.tbs.0) as u64) as usize;
            let mut der = ders[idx].clone();
            der[off] ^= 1 << (t.b % 8);
            expect_reject(&der, irc, spec.eval_ms, &format!("bit {} of TBS octet at offset {} flipped", t.b % 8, off))
        }
        1 => {
            let lay = layout(&ders[idx]).ok_or_else(|| Fail::new("harness: cannot locate the signature"))?;
            let off = lay.sig.0 + (t.a % (lay.sig.1 - lay.sig.0) as u64) as usize;
            let mut der = ders[idx].clone();
            der[off] ^= 1 << (t.b % 8);
            expect_reject(&der, irc, spec.eval_ms, &format!("bit {} of signature octet at offset {} flipped", t.b % 8, off))
        }
        2 => {
            // the same issuer certificate issued for another key
            let sib_der = build_der(c, idx - 1, &Overrides { subject_key: Some(sibling), ..Default::default() })?;
            let grand = if idx >= 2 {
                let (rc, m) = &states[idx - 2];
                Some((&**rc.as_ref().expect("CA"), m))
            } else {
                None
            };
            let ispec = &c.certs[idx - 1];
            let sib = step(c, idx - 1, &sib_der, ispec, ispec.eval_ms, grand, "sibling issuer")?
                .ok_or_else(|| Fail::new("unreachable: sibling accepted by the model"))?;
            let sib_rc = sib.0.ok_or_else(|| Fail::new("harness: sibling is not a CA"))?;
            expect_reject(&ders[idx], Some(&sib_rc), spec.eval_ms, "validated under a sibling issuer with another key")
        }
        3 => {
            let der = build_der(c, idx, &Overrides { signer_key: Some(sibling), ..Default::default() })?;
            expect_reject(&der, irc, spec.eval_ms, "signed with a key that is not the issuer's")
        }
        4 => {
            let delta: i64 = match t.b % 4 {
                0 => 1,
                1 => 1000,
                2 => 86_400_000,
                _ => 1 + (t.c % 3_000_000_000) as i64,
            };
            let eval = if t.a % 2 == 0 { spec.nb * 1000 - delta } else { spec.na * 1000 + delta };
            expect_reject(&ders[idx], irc, eval, &format!("evaluation time moved {} ms outside the window", delta))
        }
        5 => {
            let own = if idx == 0 { subject_key(c, 0, &Overrides::default()).key_identifier() } else { PoolSigner::new().info(issuer_key).key_identifier() };
            let mut bytes = [0u8; 20];
            bytes[..8].copy_from_slice(&t.a.to_le_bytes());
            bytes[8..16].copy_from_slice(&t.b.to_le_bytes());
            bytes[16..].copy_from_slice(&t.c.to_le_bytes()[..4]);
            let mut other = KeyIdentifier::from(bytes);
            if t.c % 3 == 0 {
                other = PoolSigner::new().info(sibling).key_identifier();
            } else if t.c % 3 == 1 {
                // differs from the right one in a single bit
                let mut b: [u8; 20] = own.into();
                b[(t.a % 20) as usize] ^= 1 << (t.b % 8);
                other = KeyIdentifier::from(b);
            }
            if other == own {
                let mut b: [u8; 20] = own.into();
                b[0] ^= 1;
                other = KeyIdentifier::from(b);
            }
            let aki = if idx > 0 && t.c % 7 == 6 { None } else { Some(other) };
            let der = build_der(c, idx, &Overrides { aki: Some(aki), ..Default::default() })?;
            expect_reject(&der, irc, spec.eval_ms, &format!("authority key identifier replaced by {:?}", aki))
        }
        6 => {
            let mut der = ders[idx].clone();
            let lay = layout(&der).ok_or_else(|| Fail::new("harness: cannot locate the SKI"))?;
            let pos = lay.ski.0 + (t.a % 20) as usize;
            if t.c % 2 == 0 {
                der[pos] ^= 1 << (t.b % 8);
            } else {
                let mut bytes = [0u8; 20];
                bytes[..8].copy_from_slice(&t.a.to_le_bytes());
                bytes[8..16].copy_from_slice(&t.b.to_le_bytes());
                if bytes[..] == der[lay.ski.0..lay.ski.1] {
                    bytes[0] ^= 1;
                }
                der[lay.ski.0..lay.ski.1].copy_from_slice(&bytes);
            }
            // re-sign so that only the SKI is wrong
            let sig = keys::raw_sign(issuer_key, &der[lay.tbs.0..lay.tbs.1]);
            ensure!(sig.len() == lay.sig.1 - lay.sig.0, "harness: signature length changed");
            der[lay.sig.0..lay.sig.1].copy_from_slice(&sig);
            // the patched certificate must still carry a good signature (checked without the library)
            ensure!(
                keys::raw_verify(issuer_key, &der[lay.tbs.0..lay.tbs.1], &der[lay.sig.0..lay.sig.1]),
                "harness: re-signing failed"
            );
            expect_reject(&der, irc, spec.eval_ms, "subject key identifier replaced in the TBS, re-signed by the issuer")
        }
        8 => {
            // notBefore and notAfter swapped in the signed bytes, re-signed by the
            // issuer: the window is empty, no evaluation time lies inside it — in
            // particular not the (originally valid) one between the two ends.
            let mut der = ders[idx].clone();
            let lay = layout(&der).ok_or_else(|| Fail::new("harness: cannot locate the TBS"))?;
            let (s1, s2, e2) = validity_span(&der, &lay).ok_or_else(|| Fail::new("harness: cannot locate the validity"))?;
            let first = der[s1..s2].to_vec();
            let second = der[s2..e2].to_vec();
            let mut swapped = second.clone();
            swapped.extend_from_slice(&first);
            der[s1..e2].copy_from_slice(&swapped);
            let sig = keys::raw_sign(issuer_key, &der[lay.tbs.0..lay.tbs.1]);
            ensure!(sig.len() == lay.sig.1 - lay.sig.0, "harness: signature length changed");
            der[lay.sig.0..lay.sig.1].copy_from_slice(&sig);
            ensure!(
                keys::raw_verify(issuer_key, &der[lay.tbs.0..lay.tbs.1], &der[lay.sig.0..lay.sig.1]),
                "harness: re-signing failed"
            );
            let eval = match t.a % 4 {
                0 => spec.eval_ms,
                1 => spec.nb * 1000,
                2 => spec.na * 1000,
                _ => spec.nb * 1000 + ((t.b as i64).rem_euclid((spec.na - spec.nb).max(1) * 1000)),
            };
            expect_reject(&der, irc, eval, "notBefore and notAfter swapped (empty window), re-signed by the issuer")
        }
        _ => {
            let (f, gaps) = block_choice().expect("checked above");
            let mut list = spec.res(f).set().0;
            let j = pick_idx((t.b & 0xFFFF) as u16, list.len());
            let (g_lo, g_hi) = gaps.0[pick_idx(((t.b >> 16) & 0xFFFF) as u16, gaps.0.len())];
            let span = g_hi - g_lo;
            let new = match t.c % 4 {
                0 => (g_lo, g_hi),
                1 => (g_lo, g_lo),
                2 => (g_hi, g_hi),
                _ => {
                    let x = upto(t.c >> 2, span);
                    let y = upto(t.a, span - x);
                    (g_lo + x, g_lo + x + y)
                }
            };
            list[j] = new;
            let mut c2 = c.clone();
            *c2.certs[idx].res_mut(f) = Res::from_set(&Set::from_ranges(&list));
            let spec2 = c2.certs[idx].clone();
            let der = build_der(&c2, idx, &Overrides::default())?;
            let what = format!("{} block {} replaced by {:x?} outside the issuer", f.name(), j, new);
            if spec2.trim {
                obs.label("tamper-block-trim");
                // accepted with the intersection
                step(&c2, idx, &der, &spec2, spec2.eval_ms, issuer, &what)?
                    .ok_or_else(|| Fail::new("unreachable: trim accepted by the model"))?;
                Ok(())
            } else {
                obs.label("tamper-block-refuse");
                expect_reject(&der, irc, spec.eval_ms, &what)
            }
        }
    }
}

//------------ strategies -------------------------------------------------------------

#[derive(Clone, Debug)]
struct FamR {
    class: u16,
    d: [u128; 4],
    r: [u64; 4],
}

#[derive(Clone, Debug)]
struct CertR {
    trim: bool,
    fam: [FamR; 3],
    base_c: u16,
    base_r: i64,
    len_c: u16,
    len_r: u32,
    eval_c: u16,
    eval_r: u32,
    serial: u64,
    dress_c: u16,
    dress_r: u64,
}

#[derive(Clone, Debug)]
struct ChainR {
    strict: bool,
    ta_aki: bool,
    n_ca: u16,
    leaf: u16,
    key_base: u8,
    certs: [CertR; 4],
}

fn fam_r(bits32: bool) -> BoxedStrategy<FamR> {
    let d = if bits32 { dense_u32().prop_map(|x| x as u128).boxed() } else { dense_u128() };
    (any::<u16>(), prop::array::uniform4(d), prop::array::uniform4(any::<u64>()))
        .prop_map(|(class, d, r)| FamR { class, d, r })
        .boxed()
}

fn cert_r() -> BoxedStrategy<CertR> {
    (
        any::<bool>(),
        (fam_r(true), fam_r(false), fam_r(true)),
        any::<u16>(),
        -2_000_000_000i64..5_000_000_000i64,
        any::<u16>(),
        any::<u32>(),
        any::<u16>(),
        any::<u32>(),
        prop_oneof![Just(0u64), Just(1u64), any::<u64>()],
        (any::<u16>(), any::<u64>()),
    )
        .prop_map(|(trim, (a, b, c), base_c, base_r, len_c, len_r, eval_c, eval_r, serial, (dress_c, dress_r))| CertR {
            trim,
            fam: [a, b, c],
            base_c,
            base_r,
            len_c,
            len_r,
            eval_c,
            eval_r,
            serial,
            dress_c,
            dress_r,
        })
        .boxed()
}


fn chain_r() -> BoxedStrategy<ChainR> {
    (any::<bool>(), any::<bool>(), any::<u16>(), any::<u16>(), 0u8..8, prop::array::uniform4(cert_r()))
        .prop_map(|(strict, ta_aki, n_ca, leaf, key_base, certs)| ChainR { strict, ta_aki, n_ca, leaf, key_base, certs })
        .boxed()
}

/// Maps a raw u16 through a weight table (monotone, so shrinking moves
/// towards the first entries).
fn weighted(raw: u16, weights: &[u32]) -> usize {
    let total: u32 = weights.iter().sum();
    let x = (raw as u64 * total as u64 >> 16) as u32;
    let mut acc = 0;
    for (i, w) in weights.iter().enumerate() {
        acc += w;
        if x < acc {
            return i;
        }
    }
    weights.len() - 1
}

/// A block list from the recipe's dense values, independent of the issuer.
fn arbitrary_blocks(fr: &FamR, max: u128) -> Vec<Iv> {
    let d: Vec<u128> = fr.d.iter().map(|&x| x.min(max)).collect();
    let n = 1 + (fr.r[0] % 2) as usize;
    (0..n).map(|k| (d[2 * k].min(d[2 * k + 1]), d[2 * k].max(d[2 * k + 1]))).collect()
}

/// A value in `[0, span]`.
fn upto(raw: u64, span: u128) -> u128 {
    let wide = ((raw as u128) << 64) | (raw.rotate_left(29) as u128);
    if span == u128::MAX {
        wide
    } else if span < u64::MAX as u128 {
        raw as u128 % (span + 1)
    } else {
        wide % (span + 1)
    }
}

/// Derives a claimed block list of the given class relative to the issuer's
/// validated set `iss`.
fn derive(class: usize, fr: &FamR, iss: &Set, max: u128) -> Vec<Iv> {
    let r = &fr.r;
    let pick = |raw: u64, s: &Set| s.0[pick_idx((raw & 0xFFFF) as u16, s.0.len())];
    // a small or arbitrary offset not larger than `room`
    let off = |raw: u64, room: u128| -> u128 {
        if room == 0 {
            return 0;
        }
        match raw % 4 {
            0 => 1,
            1 => 2.min(room),
            2 => 1 + (raw as u128 >> 2) % room.min(1 << 20),
            _ => 1 + upto(raw, room - 1),
        }
        .min(room)
    };
    let gaps = iss.complement(max);
    match class {
        // equal
        2 => iss.0.clone(),
        // strict subset
        3 if !iss.is_empty() => {
            let (a, b) = pick(r[0], iss);
            let others: Vec<Iv> =
                iss.0.iter().copied().enumerate().filter(|(k, iv)| *iv != (a, b) && (r[3] >> (k % 60)) & 1 == 1).map(|x| x.1).collect();
            let mut v = match r[1] % 6 {
                0 if b > a => vec![(a, b - off(r[2], b - a))],
                1 if b > a => vec![(a + off(r[2], b - a), b)],
                2 if b - a >= 2 => {
                    let x = off(r[2], b - a - 1);
                    let y = off(r[2] >> 7, b - a - x);
                    vec![(a + x, b - y)]
                }
                3 => vec![(a, a)],
                4 => vec![(b, b)],
                _ => vec![],
            };
            v.extend(others);
            v
        }
        // partially outside
        4 if !iss.is_empty() => {
            let (a, b) = pick(r[0], iss);
            let start = a + upto(r[2], b - a);
            match r[1] % 3 {
                0 if b < max => vec![(start, b + off(r[3], max - b))],
                1 if a > 0 => {
                    let end = start;
                    vec![(a - off(r[3], a), end)]
                }
                _ => {
                    // bridge to the next block of the issuer (or extend to the right end)
                    let k = iss.0.iter().position(|iv| *iv == (a, b)).unwrap_or(0);
                    match iss.0.get(k + 1) {
                        Some(&(c, _)) => vec![(start, c)],
                        None if b < max => vec![(start, max)],
                        None if a > 0 => vec![(0, start)],
                        None => iss.0.clone(),
                    }
                }
            }
        }
        // disjoint
        5 if !gaps.is_empty() => {
            let (g, h) = pick(r[0], &gaps);
            match r[1] % 4 {
                0 => vec![(g, h)],
                1 => vec![(g, g + off(r[2], h - g).saturating_sub(1).min(h - g))],
                2 => vec![(h - off(r[2], h - g).saturating_sub(1).min(h - g), h)],
                _ => {
                    let x = upto(r[2], h - g);
                    vec![(g + x, g + x + upto(r[3], h - g - x))]
                }
            }
        }
        // superset
        6 if !gaps.is_empty() => {
            let mut v = iss.0.clone();
            match r[1] % 3 {
                0 => v = vec![(0, max)],
                1 => {
                    let (g, h) = pick(r[0], &gaps);
                    let x = upto(r[2], h - g);
                    v.push((g + x, g + x + off(r[3], h - g - x)));
                }
                _ => {
                    // one item past the end of a block / before its start
                    let (g, h) = pick(r[0], &gaps);
                    v.push(if r[2] % 2 == 0 { (g, g) } else { (h, h) });
                }
            }
            v
        }
        // touching 0 / max
        7 => match r[1] % 6 {
            0 => vec![(0, fr.d[0].min(max))],
            1 => vec![(fr.d[0].min(max), max)],
            2 => vec![(0, max)],
            3 => vec![(0, 0)],
            4 => vec![(max, max)],
            _ => vec![(0, 0), (max, max)],
        },
        // arbitrary boundary-dense blocks
        8 => arbitrary_blocks(fr, max),
        // classes that could not be realised fall back to "equal"
        _ => iss.0.clone(),
    }
}

const BASES: [i64; 12] = [
    0,
    946_684_800,    // 2000-01-01
    1_767_225_600,  // 2026-01-01
    2_524_607_999,  // 2049-12-31T23:59:59
    2_524_608_000,  // 2050-01-01
    -631_152_000,   // 1950-01-01
    -631_152_001,   // 1949-12-31T23:59:59
    4_102_444_800,  // 2100-01-01
    951_782_400,    // 2000-02-29
    1_000_000_000,
    -1,
    2_147_483_647,
];

fn make_chain(r: &ChainR, accept_only: bool) -> Chain {
    let n_ca = weighted(r.n_ca, &[30, 40, 30]);
    let leaf = [Leaf::Ee, Leaf::DetachedEe, Leaf::Router, Leaf::Ca][weighted(r.leaf, &[35, 15, 25, 25])];
    let n = n_ca + 2;
    let mut certs: Vec<CertSpec> = Vec::new();
    let mut issuer = Validated::default();
    for i in 0..n {
        let cr = &r.certs[i];
        let is_router = i + 1 == n && leaf == Leaf::Router;
        let mut spec = CertSpec {
            key: (r.key_base as usize + i) as u8 % POOL_SIZE as u8,
            trim: cr.trim,
            v4: Res::Missing,
            v6: Res::Missing,
            asn: Res::Missing,
            nb: 0,
            na: 0,
            eval_ms: 0,
            serial: cr.serial,
            dress: crate::der::Dress::from_raw(cr.dress_c, cr.dress_r),
        };
        // resources
        for (k, f) in FAMS.into_iter().enumerate() {
            let fr = &cr.fam[k];
            let res = if i == 0 {
                // trust anchor: blocks, everything, missing, (rarely) inherit
                match weighted(fr.class, &[45, 25, 15, 13, 2]) {
                    0 => Res::from_set(&Set::from_ranges(&arbitrary_blocks(fr, f.max()))),
                    1 => Res::Blocks(vec![(U128(0), U128(f.max()))]),
                    2 => Res::from_set(&Set::from_ranges(&derive(7, fr, &Set::default(), f.max()))),
                    3 => Res::Missing,
                    _ if accept_only => Res::Missing,
                    _ => Res::Inherit,
                }
            } else {
                // 0 missing, 1 inherit, 2 equal, 3 subset, 4 partial, 5 disjoint, 6 superset, 7 touch, 8 arbitrary
                let class = weighted(fr.class, &[10, 20, 14, 32, 5, 3, 4, 7, 5]);
                match class {
                    0 => Res::Missing,
                    1 => Res::Inherit,
                    _ => Res::from_set(&Set::from_ranges(&derive(class, fr, issuer.get(f), f.max()))),
                }
            };
            *spec.res_mut(f) = res;
        }
        if is_router {
            spec.v4 = Res::Missing;
            spec.v6 = Res::Missing;
            if !matches!(spec.asn, Res::Blocks(_)) {
                spec.asn = if issuer.asn.is_empty() {
                    Res::Blocks(vec![(U128(64496), U128(64496))])
                } else {
                    Res::from_set(&issuer.asn)
                };
            }
        }
        if accept_only && i > 0 && !spec.trim {
            for f in FAMS {
                if let Res::Blocks(_) = spec.res(f) {
                    let b = spec.res(f).set().intersection(issuer.get(f));
                    *spec.res_mut(f) = if b.is_empty() && !(is_router && f == Fam::As) { Res::Inherit } else { Res::from_set(&b) };
                }
            }
            if is_router {
                spec.v4 = Res::Missing;
                spec.v6 = Res::Missing;
                if spec.asn == Res::Missing {
                    // nothing can be claimed without overclaiming: use the trimming policy
                    spec.trim = true;
                    spec.asn = Res::Blocks(vec![(U128(64496), U128(64496))]);
                }
            }
        }
        if FAMS.iter().all(|&f| *spec.res(f) == Res::Missing) && (accept_only || cr.serial % 8 != 0) {
            // a certificate without any resource extension cannot be decoded; keep this rare
            if i == 0 {
                spec.asn = Res::Blocks(vec![(U128(0), U128(u32::MAX as u128))]);
            } else {
                spec.asn = Res::Inherit;
            }
        }
        // validity window and evaluation time
        let nb = match weighted(cr.base_c, &[60, 40]) {
            0 => BASES[pick_idx(cr.base_c.wrapping_mul(31), BASES.len())],
            _ => cr.base_r,
        };
        let len: i64 = match weighted(cr.len_c, &[4, 6, 10, 30, 30, 20]) {
            0 => 0,
            1 => 1,
            2 => 60,
            3 => 86_400,
            4 => 315_360_000,
            _ => cr.len_r as i64,
        };
        spec.nb = nb;
        spec.na = nb + len;
        let (lo, hi) = (spec.nb * 1000, spec.na * 1000);
        let weights: &[u32] = if accept_only { &[50, 10, 10, 5, 5, 2, 2, 0, 0, 0, 0, 0, 0] } else { &[50, 10, 10, 5, 5, 2, 2, 2, 2, 1, 1, 1, 1] };
        spec.eval_ms = match weighted(cr.eval_c, weights) {
            0 => lo + ((cr.eval_r as i64) % (hi - lo + 1).max(1)),
            1 => lo,
            2 => hi,
            3 => lo + 1,
            4 => hi - 1,
            5 => lo + 1000,
            6 => hi - 1000,
            7 => lo - 1,
            8 => hi + 1,
            9 => lo - 1000,
            10 => hi + 1000,
            11 => lo - 1 - (cr.eval_r as i64) * 1000,
            _ => hi + 1 + (cr.eval_r as i64) * 1000,
        };
        if accept_only && !spec.in_window(spec.eval_ms) {
            spec.eval_ms = lo;
        }
        // model state for the next certificate (continue with what would be valid)
        let kind_is_ta = i == 0;
        let mut next = Validated::default();
        for f in FAMS {
            *next.get_mut(f) = match spec.res(f) {
                Res::Missing => Set::default(),
                Res::Inherit => issuer.get(f).clone(),
                Res::Blocks(_) if kind_is_ta => spec.res(f).set(),
                Res::Blocks(_) => spec.res(f).set().intersection(issuer.get(f)),
            };
        }
        issuer = next;
        certs.push(spec);
    }
    Chain {
        strict: r.strict,
        ta_aki: r.ta_aki,
        certs,
        leaf,
        sibling_key: (r.key_base as usize + 5) as u8 % POOL_SIZE as u8,
    }
}

fn chain_strategy(_: Tier) -> BoxedStrategy<Chain> {
    chain_r().prop_map(|r| make_chain(&r, false)).boxed()
}

fn tamper_strategy(_: Tier) -> BoxedStrategy<TamperCase> {
    (chain_r(), any::<u16>(), 0u8..10, any::<u64>(), any::<u64>(), any::<u64>())
        .prop_map(|(r, idx, kind, a, b, c)| TamperCase { chain: make_chain(&r, true), t: Tamper { idx, kind, a, b, c } })
        .boxed()
}

pub fn property() -> Property {
    Property {
        id: "C01",
        rule: RULE,
        assumptions: vec![
            "RSA-SHA256 (aws-lc) rejects every modified signed byte / signature bit; bit flips are confined to the TBS bytes and the signature value",
            "certificates are profile-conforming by construction (names, key usage, SIA/AIA/CRL-DP per kind); only time, issuer, key identifiers, signature and resources vary",
            "claimed block lists are handed to the builder pre-normalised (ascending, disjoint, non-adjacent), so the check does not depend on resource-set construction (C03)",
            "validity windows and evaluation times lie in years 1770-2400; evaluation times have millisecond resolution",
        ],
        subs: vec![
            PropSub {
                name: "chains",
                strategy: chain_strategy,
                cases: |t| t.pick(80_000, 1_000_000),
                run: run_chain,
                floors: &[
                    ("accepted", 0.2),
                    ("rejected", 0.2),
                    ("reject-time", 0.1),
                    ("reject-overclaim", 0.1),
                    ("fam-inherit", 0.2),
                    ("policy-trim", 0.2),
                    ("overclaim-trimmed", 0.1),
                    ("rel-subset", 0.2),
                    ("rel-equal", 0.2),
                    ("rel-partial", 0.06),
                    ("rel-disjoint", 0.06),
                    ("rel-superset", 0.1),
                    ("touch-0", 0.2),
                    ("touch-max", 0.2),
                    ("time-on-edge", 0.2),
                    ("time-1ms-off-edge", 0.15),
                    ("leaf-router", 0.1),
                    ("depth-2", 0.15),
                    ("dressed", 0.4),
                    ("accepted-dressed", 0.1),
                    ("dress-ext-order", 0.2),
                    ("dress-unknown-ext", 0.15),
                    ("dress-sia", 0.15),
                    ("dress-as-range", 0.1),
                    ("dress-ip-family-order", 0.04),
                    ("dress-resources-noncanonical", 0.08),
                ],
            }
            .boxed(),
            PropSub {
                name: "tamper",
                strategy: tamper_strategy,
                cases: |t| t.pick(100_000, 1_200_000),
                run: run_tamper,
                floors: &[
                    ("tamper-tbs-bit", 0.05),
                    ("tamper-sig-bit", 0.05),
                    ("tamper-sibling-issuer", 0.05),
                    ("tamper-wrong-signer", 0.05),
                    ("tamper-time", 0.05),
                    ("tamper-aki", 0.05),
                    ("tamper-ski", 0.05),
                    ("tamper-block", 0.07),
                    ("tamper-window-inverted", 0.04),
                    ("tamper-block-trim", 0.03),
                    ("tamper-block-refuse", 0.03),
                    ("tamper-dressed", 0.3),
                ],
            }
            .boxed(),
        ],
    }
}
