//! iset — shared helper (see DESIGN.md section 2); filled in by the module that owns it.
