//! iset — independent reference model: normalised sets of integers kept as
//! closed intervals. Owned by C03; also used by C01 / C02 for "resources as
//! sets" oracles. No code is shared with rpki-rs (`chain.rs`).
//!
//! # API
//!
//! ```text
//! trait Int                    implemented for u8, u32, u128 (ZERO, MAX, BITS, succ, pred, to_u128, from_u128)
//!
//! ISet<T>                      a set of T; invariant: `ranges()` is ascending, pairwise disjoint,
//!                              non-adjacent, every (lo, hi) has lo <= hi  (= the canonical form)
//!   ISet::empty() / full()
//!   ISet::from_ranges(iter)    any order, overlaps/adjacency/duplicates allowed; a pair with
//!                              lo > hi denotes the empty set and is ignored
//!   ISet::from_sorted_unchecked(vec)   for callers that already hold a canonical list
//!   .ranges() -> &[(T, T)]     the canonical list
//!   .is_empty() .is_full()
//!   .contains(x)               membership of one item
//!   .contains_range(lo, hi)    [lo, hi] ⊆ self        (lo <= hi required)
//!   .intersects_range(lo, hi)  [lo, hi] ∩ self ≠ ∅    (lo <= hi required)
//!   .is_subset(&other)         self ⊆ other
//!   .union(&o) .intersection(&o) .difference(&o) .complement()
//!   .count() -> Option<u128>   number of items; None only for the full u128 set (2^128)
//!   .items(limit) -> Option<Vec<T>>   all items ascending if there are at most `limit`
//!
//! check_canonical(&[(T, T)]) -> Result<(), NonCanonical>
//!                              is a foreign list in canonical form? reports the first
//!                              violation (Inverted / Unsorted / Overlap / Adjacent, index)
//! prefix_range(addr, len)      (first, last) item of the prefix addr/len in a T::BITS-bit space
//! range_prefix_len(lo, hi)     Some(len) iff [lo, hi] is exactly one prefix
//! range_to_prefixes(lo, hi)    minimal ascending list of (addr, len) whose union is [lo, hi]
//!
//! v4_embed(lo, hi) / v4_embed_set(&ISet<u32>)   IPv4 -> rpki-rs `Addr` space (address in the upper
//!                              32 bits; a block's last address has the lower 96 bits set)
//! v4_project(lo, hi)           inverse; None if the pair is not 2^96-aligned
//! ```
//!
//! Everything is deterministic and allocation is proportional to the number
//! of intervals.

use std::fmt::Debug;

//------------ Int -----------------------------------------------------------

pub trait Int: Copy + Ord + Eq + Debug + std::hash::Hash {
    const ZERO: Self;
    const MAX: Self;
    const BITS: u32;
    fn succ(self) -> Option<Self>;
    fn pred(self) -> Option<Self>;
    fn to_u128(self) -> u128;
    /// Truncating conversion.
    fn from_u128(v: u128) -> Self;
}

macro_rules! int_impl {
    ($t:ty) => {
        impl Int for $t {
            const ZERO: Self = 0;
            const MAX: Self = <$t>::MAX;
            const BITS: u32 = <$t>::BITS;
            fn succ(self) -> Option<Self> {
                self.checked_add(1)
            }
            fn pred(self) -> Option<Self> {
                self.checked_sub(1)
            }
            fn to_u128(self) -> u128 {
                self as u128
            }
            fn from_u128(v: u128) -> Self {
                v as $t
            }
        }
    };
}
int_impl!(u8);
int_impl!(u32);
int_impl!(u128);

//------------ ISet ----------------------------------------------------------

#[derive(Clone, Debug, PartialEq, Eq, Hash, Default)]
pub struct ISet<T: Int> {
    r: Vec<(T, T)>,
}

impl<T: Int> ISet<T> {
    pub fn empty() -> Self {
        ISet { r: Vec::new() }
    }

    pub fn full() -> Self {
        ISet { r: vec![(T::ZERO, T::MAX)] }
    }

    pub fn from_ranges<I: IntoIterator<Item = (T, T)>>(it: I) -> Self {
        let mut v: Vec<(T, T)> = it.into_iter().filter(|(lo, hi)| lo <= hi).collect();
        v.sort();
        let mut r: Vec<(T, T)> = Vec::with_capacity(v.len());
        for (lo, hi) in v {
            match r.last_mut() {
                // lo >= last.lo by sorting; merge if lo <= last.hi + 1
                Some(last) if last.1 >= lo || last.1.succ() == Some(lo) => {
                    if hi > last.1 {
                        last.1 = hi;
                    }
                }
                _ => r.push((lo, hi)),
            }
        }
        ISet { r }
    }

    /// The caller guarantees the canonical form (checked in debug builds).
    pub fn from_sorted_unchecked(r: Vec<(T, T)>) -> Self {
        debug_assert!(check_canonical(&r).is_ok());
        ISet { r }
    }

    pub fn ranges(&self) -> &[(T, T)] {
        &self.r
    }

    pub fn is_empty(&self) -> bool {
        self.r.is_empty()
    }

    pub fn is_full(&self) -> bool {
        self.r.len() == 1 && self.r[0] == (T::ZERO, T::MAX)
    }

    /// Index of the interval with the largest lower bound <= x.
    fn locate(&self, x: T) -> Option<usize> {
        let n = self.r.partition_point(|&(lo, _)| lo <= x);
        n.checked_sub(1)
    }

    pub fn contains(&self, x: T) -> bool {
        match self.locate(x) {
            Some(i) => x <= self.r[i].1,
            None => false,
        }
    }

    pub fn contains_range(&self, lo: T, hi: T) -> bool {
        assert!(lo <= hi, "contains_range: lo > hi");
        match self.locate(lo) {
            Some(i) => hi <= self.r[i].1,
            None => false,
        }
    }

    pub fn intersects_range(&self, lo: T, hi: T) -> bool {
        assert!(lo <= hi, "intersects_range: lo > hi");
        // some interval starts inside [lo, hi], or the one starting before lo reaches lo
        let first_after = self.r.partition_point(|&(l, _)| l < lo);
        if first_after < self.r.len() && self.r[first_after].0 <= hi {
            return true;
        }
        first_after > 0 && self.r[first_after - 1].1 >= lo
    }

    pub fn is_subset(&self, other: &Self) -> bool {
        self.r.iter().all(|&(lo, hi)| other.contains_range(lo, hi))
    }

    pub fn union(&self, o: &Self) -> Self {
        Self::from_ranges(self.r.iter().chain(o.r.iter()).copied())
    }

    pub fn complement(&self) -> Self {
        let mut out = Vec::with_capacity(self.r.len() + 1);
        let mut cur = Some(T::ZERO);
        for &(lo, hi) in &self.r {
            if let Some(c) = cur {
                if c < lo {
                    // lo > c >= 0, so pred exists
                    out.push((c, lo.pred().unwrap()));
                }
            }
            cur = hi.succ();
        }
        if let Some(c) = cur {
            out.push((c, T::MAX));
        }
        ISet { r: out }
    }

    pub fn intersection(&self, o: &Self) -> Self {
        let (a, b) = (&self.r, &o.r);
        let (mut i, mut j) = (0, 0);
        let mut out = Vec::new();
        while i < a.len() && j < b.len() {
            let lo = a[i].0.max(b[j].0);
            let hi = a[i].1.min(b[j].1);
            if lo <= hi {
                out.push((lo, hi));
            }
            if a[i].1 < b[j].1 {
                i += 1;
            } else {
                j += 1;
            }
        }
        // pieces are separated by a gap of one operand, hence already canonical;
        // normalise anyway so the invariant does not rest on that argument
        Self::from_ranges(out)
    }

    pub fn difference(&self, o: &Self) -> Self {
        self.intersection(&o.complement())
    }

    pub fn count(&self) -> Option<u128> {
        let mut n: u128 = 0;
        for &(lo, hi) in &self.r {
            let span = hi.to_u128() - lo.to_u128(); // size - 1
            n = n.checked_add(span)?.checked_add(1)?;
        }
        Some(n)
    }

    pub fn items(&self, limit: usize) -> Option<Vec<T>> {
        match self.count() {
            Some(n) if n <= limit as u128 => {}
            _ => return None,
        }
        let mut out = Vec::new();
        for &(lo, hi) in &self.r {
            let mut x = lo;
            loop {
                out.push(x);
                if x == hi {
                    break;
                }
                x = x.succ().unwrap();
            }
        }
        Some(out)
    }
}

//------------ canonical form of foreign lists ---------------------------------

#[derive(Clone, Copy, Debug, PartialEq, Eq)]
pub enum NonCanonical {
    /// block `i` has lo > hi
    Inverted(usize),
    /// block `i` starts before block `i-1` starts (or at the same item)
    Unsorted(usize),
    /// block `i` starts inside block `i-1`
    Overlap(usize),
    /// block `i` starts right after block `i-1` ends
    Adjacent(usize),
}

pub fn check_canonical<T: Int>(r: &[(T, T)]) -> Result<(), NonCanonical> {
    for (i, &(lo, hi)) in r.iter().enumerate() {
        if lo > hi {
            return Err(NonCanonical::Inverted(i));
        }
    }
    for i in 1..r.len() {
        let (plo, phi) = r[i - 1];
        let (lo, _) = r[i];
        if lo <= plo {
            return Err(NonCanonical::Unsorted(i));
        }
        if lo <= phi {
            return Err(NonCanonical::Overlap(i));
        }
        if phi.succ() == Some(lo) {
            return Err(NonCanonical::Adjacent(i));
        }
    }
    Ok(())
}

//------------ prefixes ----------------------------------------------------------

fn low_mask(host_bits: u32) -> u128 {
    if host_bits >= 128 {
        u128::MAX
    } else {
        (1u128 << host_bits) - 1
    }
}

/// First and last item of prefix `addr/len` (host bits of `addr` are ignored).
pub fn prefix_range<T: Int>(addr: T, len: u8) -> (T, T) {
    assert!(len as u32 <= T::BITS, "prefix length exceeds the address width");
    let m = low_mask(T::BITS - len as u32);
    let a = addr.to_u128();
    (T::from_u128(a & !m), T::from_u128(a | m))
}

/// `Some(len)` iff `[lo, hi]` is exactly the prefix `lo/len`.
pub fn range_prefix_len<T: Int>(lo: T, hi: T) -> Option<u8> {
    if lo > hi {
        return None;
    }
    let (l, h) = (lo.to_u128(), hi.to_u128());
    let span = h - l; // size - 1; must be 2^k - 1 with l aligned to 2^k
    if span & span.wrapping_add(1) != 0 {
        return None;
    }
    if l & span != 0 {
        return None;
    }
    let host = 128 - span.leading_zeros(); // k
    Some((T::BITS - host) as u8)
}

/// Minimal ascending decomposition of `[lo, hi]` into prefixes `(addr, len)`.
pub fn range_to_prefixes<T: Int>(lo: T, hi: T) -> Vec<(T, u8)> {
    let mut out = Vec::new();
    if lo > hi {
        return out;
    }
    let h = hi.to_u128();
    let mut cur = lo.to_u128();
    loop {
        // largest k with cur aligned to 2^k and cur + 2^k - 1 <= h
        let align = if cur == 0 { T::BITS } else { cur.trailing_zeros().min(T::BITS) };
        let span = h - cur; // remaining - 1
        // 2^k - 1 <= span  <=>  k <= floor(log2(span + 1)); avoid the +1 overflow
        let fit = if span == u128::MAX { 128 } else { 127 - (span + 1).leading_zeros() };
        let k = align.min(fit);
        out.push((T::from_u128(cur), (T::BITS - k) as u8));
        let last = cur | low_mask(k);
        if last >= h {
            break;
        }
        cur = last + 1;
    }
    out
}

//------------ IPv4 in rpki-rs address space -----------------------------------------

const LOW96: u128 = (1u128 << 96) - 1;

/// IPv4 block `[lo, hi]` as the pair of 128-bit values rpki-rs' `Addr` uses.
pub fn v4_embed(lo: u32, hi: u32) -> (u128, u128) {
    ((lo as u128) << 96, ((hi as u128) << 96) | LOW96)
}

pub fn v4_embed_set(s: &ISet<u32>) -> ISet<u128> {
    ISet::from_ranges(s.ranges().iter().map(|&(lo, hi)| v4_embed(lo, hi)))
}

/// Inverse of `v4_embed`; `None` if the pair is not aligned to 2^96.
pub fn v4_project(lo: u128, hi: u128) -> Option<(u32, u32)> {
    if lo & LOW96 != 0 || hi & LOW96 != LOW96 {
        return None;
    }
    Some(((lo >> 96) as u32, (hi >> 96) as u32))
}

//------------ self test against a brute-force bitmap (u8) --------------------------------

/// Exhaustive comparison of the model with a 256-bit bitmap over `u8`, for all
/// pairs of sets built from `n` ranges drawn from `points`. Returns the number
/// of evaluations or a description of the first disagreement. Called by the
/// C03 enumeration so that the oracle itself is checked on every run.
pub fn self_test(points: &[u8]) -> Result<u64, String> {
    fn bitmap(r: &[(u8, u8)]) -> [bool; 256] {
        let mut m = [false; 256];
        for &(lo, hi) in r {
            if lo <= hi {
                for x in lo..=hi {
                    m[x as usize] = true;
                }
            }
        }
        m
    }
    fn of(m: &[bool; 256]) -> Vec<(u8, u8)> {
        let mut out = Vec::new();
        let mut x = 0usize;
        while x < 256 {
            if m[x] {
                let lo = x;
                while x + 1 < 256 && m[x + 1] {
                    x += 1;
                }
                out.push((lo as u8, x as u8));
            }
            x += 1;
        }
        out
    }
    let mut blocks = Vec::new();
    for &a in points {
        for &b in points {
            blocks.push((a, b)); // includes inverted pairs (ignored by from_ranges)
        }
    }
    let mut seqs: Vec<Vec<(u8, u8)>> = vec![vec![]];
    for &b1 in &blocks {
        seqs.push(vec![b1]);
        for &b2 in &blocks {
            seqs.push(vec![b1, b2]);
        }
    }
    let mut n = 0u64;
    let sets: Vec<(ISet<u8>, [bool; 256])> = seqs
        .iter()
        .map(|s| (ISet::from_ranges(s.iter().copied()), bitmap(s)))
        .collect();
    for (s, m) in &sets {
        n += 1;
        if s.ranges() != of(m).as_slice() {
            return Err(format!("from_ranges: {:?} vs bitmap {:?}", s.ranges(), of(m)));
        }
        if check_canonical(s.ranges()).is_err() {
            return Err(format!("from_ranges result not canonical: {:?}", s.ranges()));
        }
        let c: Vec<(u8, u8)> = of(&std::array::from_fn(|i| !m[i]));
        if s.complement().ranges() != c.as_slice() {
            return Err(format!("complement of {:?}", s.ranges()));
        }
        if s.count() != Some(m.iter().filter(|b| **b).count() as u128) {
            return Err(format!("count of {:?}", s.ranges()));
        }
        for x in 0..=255u8 {
            if s.contains(x) != m[x as usize] {
                return Err(format!("contains({}) on {:?}", x, s.ranges()));
            }
        }
        for &(lo, hi) in &blocks {
            if lo > hi {
                continue;
            }
            let all = (lo..=hi).all(|x| m[x as usize]);
            let any = (lo..=hi).any(|x| m[x as usize]);
            if s.contains_range(lo, hi) != all || s.intersects_range(lo, hi) != any {
                return Err(format!("range predicates [{}, {}] on {:?}", lo, hi, s.ranges()));
            }
        }
    }
    // pair operations on a stride of the sets (all pairs would be ~10^7)
    let step = (sets.len() / 300).max(1);
    for (a, ma) in sets.iter().step_by(step) {
        for (b, mb) in sets.iter().step_by(step) {
            n += 1;
            let u = of(&std::array::from_fn(|i| ma[i] || mb[i]));
            let i = of(&std::array::from_fn(|i| ma[i] && mb[i]));
            let d = of(&std::array::from_fn(|i| ma[i] && !mb[i]));
            let sub = (0..256).all(|i| !ma[i] || mb[i]);
            if a.union(b).ranges() != u.as_slice()
                || a.intersection(b).ranges() != i.as_slice()
                || a.difference(b).ranges() != d.as_slice()
                || a.is_subset(b) != sub
            {
                return Err(format!("pair operation on {:?} and {:?}", a.ranges(), b.ranges()));
            }
        }
    }
    // prefixes over the whole u8 space
    for lo in 0..=255u8 {
        for hi in lo..=255u8 {
            n += 1;
            let p = range_to_prefixes(lo, hi);
            let mut next = lo as u32;
            for &(addr, len) in &p {
                let (f, l) = prefix_range(addr, len);
                if f != addr || f as u32 != next {
                    return Err(format!("range_to_prefixes({}, {}) = {:?}", lo, hi, p));
                }
                next = l as u32 + 1;
            }
            if next != hi as u32 + 1 {
                return Err(format!("range_to_prefixes({}, {}) = {:?} does not end at hi", lo, hi, p));
            }
            let single = range_prefix_len(lo, hi);
            if single.is_some() != (p.len() == 1) || (p.len() == 1 && single != Some(p[0].1)) {
                return Err(format!("range_prefix_len({}, {}) = {:?} vs {:?}", lo, hi, single, p));
            }
        }
    }
    Ok(n)
}
