//! C09 — RRDP files round-trip; hostile XML is rejected within fixed bounds.
//!
//! Sub-checks:
//!  * `roundtrip`      value -> write_xml -> parse (owned parsers and harness
//!                     implementations of ProcessSnapshot / ProcessDelta)
//!  * `big`            files larger than the header limit whose single
//!                     elements stay below the limits must still parse
//!  * `bytes`          arbitrary / XML-aware mutated bytes: Ok or Err, no panic
//!  * `streams-header` unbounded lazy streams bounded by the 1 MB limit
//!  * `streams-file`   unbounded lazy streams bounded by the 100 MB limit
//!  * `deltas`         sort_and_verify_deltas / has_matching_origins vs model

use crate::engine::*;
use crate::gen::{dense_u128, U128};
use bytes::Bytes;
use proptest::prelude::*;
use rpki::rrdp::{
    Delta, DeltaElement, DeltaInfo, Hash, NotificationFile, ObjectReader, ProcessDelta, ProcessError,
    ProcessSnapshot, PublishElement, Snapshot, UpdateElement, UriAndHash, WithdrawElement,
};
use rpki::uri;
use serde::{Deserialize, Serialize};
use std::io::{self, BufRead, Read};
use std::str::FromStr;
use uuid::Uuid;

#[path = "c09_bytes.rs"]
mod bytes_check;
#[path = "c09_streams.rs"]
mod streams;

pub const RULE: &str = "roundtrip: random NotificationFile / Snapshot / Delta values (UUID and serial from boundary-dense \
strategies over the whole range, HTTPS/rsync URIs over the library's URI alphabet with elevated '&' and ''' and \
mixed-case scheme/authority, hashes, object bytes 0..64 KiB incl. empty, 0..200 deltas, any element order), written with \
write_xml and read back through parse / parse_limited and through harness implementations of ProcessSnapshot / \
ProcessDelta (object data read in chunks of 1..n bytes), reader buffer sizes 1 byte..whole file; oracle = field-by-field \
comparison with the generated plain data plus library ==; non-trivial = >=2 elements and a URI containing & or '. \
hash-text: the text form of a hash (64 hex digits exactly; one character replaced, multi-octet characters inside a 64-octet string at even and odd offsets, wrong lengths, arbitrary strings) through FromStr and through serde (borrowed, escaped, value, reader): accepted iff 64 ASCII hex digits, value / Display / Serialize / TryFrom agree, no panic. big: fixed files of 1.3-24 MB whose elements are each below the limits (they must parse). bytes: arbitrary bytes, \
hand-written templates, written files and /repo/test-data/rrdp files under 0..6 XML-aware mutations (dictionary token \
insertion at syntax positions, splice, duplicate, truncate, bit flip, nesting, global token replacement) into every \
parser; oracle = no panic, and every Ok value v satisfies parse(write(v)) == v; non-trivial = at least one parser \
returned Ok after >=1 mutation or all returned Err. streams: complete enumeration of (file kind x place x opener x \
endless filler x number of preceding valid elements x reader buffer size) for unbounded lazily generated streams; oracle \
= Err and bytes consumed <= start of the offending element + configured limit (1 000 000 header / 100 000 000 publish) \
+ 2 buffers, the reader itself fails 16 MiB later; every case non-trivial. deltas: serial multisets (duplicates, gaps, \
u64::MAX, unsorted, empty) x limits (None, 0, 1, n-1, n, n+1, large) and authority sets (case variants, ports, empty); \
oracle = sort / keep newest limit / windows(2) b == a+1 with checked arithmetic, authorities equal ignoring ASCII case; \
non-trivial = >=3 serials with a duplicate or gap. roundtrip also re-spells every written file of up to 48 KiB (xmlrespell: attribute order, quote character, white space inside tags, <x/> versus <x></x>, comments and white space between elements, character references in attribute values): parsed to an equal value or refused.";

//------------ small helpers ---------------------------------------------------

pub(crate) fn splitmix(x: &mut u64) -> u64 {
    *x = x.wrapping_add(0x9E37_79B9_7F4A_7C15);
    let mut z = *x;
    z = (z ^ (z >> 30)).wrapping_mul(0xBF58_476D_1CE4_E5B9);
    z = (z ^ (z >> 27)).wrapping_mul(0x94D0_49BB_1331_11EB);
    z ^ (z >> 31)
}

pub(crate) fn gen_bytes(seed: u64, len: usize) -> Vec<u8> {
    let mut x = seed;
    let mut out = Vec::with_capacity(len + 8);
    while out.len() < len {
        out.extend_from_slice(&splitmix(&mut x).to_le_bytes());
    }
    out.truncate(len);
    out
}

pub(crate) fn hash32(seed: u64) -> [u8; 32] {
    match seed {
        0 => [0u8; 32],
        u64::MAX => [0xffu8; 32],
        s => {
            let v = gen_bytes(s, 32);
            let mut out = [0u8; 32];
            out.copy_from_slice(&v);
            out
        }
    }
}

pub(crate) fn dense_u64() -> BoxedStrategy<u64> {
    prop_oneof![
        3 => prop::sample::select(vec![
            0u64, 1, 2, u64::MAX, u64::MAX - 1, u64::MAX - 2, 1 << 63, (1 << 63) - 1,
            u32::MAX as u64, u32::MAX as u64 + 1, i64::MAX as u64 + 1, 9_999_999_999_999_999_999, 10_000_000_000_000_000_000
        ]),
        2 => (0u32..64, -1i64..=1).prop_map(|(k, d)| (1u64 << k).wrapping_add(d as u64)),
        2 => 0u64..1000,
        2 => any::<u64>(),
    ]
    .boxed()
}

//------------ plain-data specs -------------------------------------------------

#[derive(Clone, Debug, Serialize, Deserialize, PartialEq, Eq)]
pub enum DataSpec {
    Lit(Vec<u8>),
    Gen { seed: u64, len: u32 },
}

impl DataSpec {
    pub fn bytes(&self) -> Vec<u8> {
        match self {
            DataSpec::Lit(v) => v.clone(),
            DataSpec::Gen { seed, len } => gen_bytes(*seed, *len as usize),
        }
    }
}

#[derive(Clone, Debug, Serialize, Deserialize)]
pub struct DeltaInfoSpec {
    pub serial: u64,
    pub uri: String,
    pub hash: u64,
}

#[derive(Clone, Debug, Serialize, Deserialize)]
pub struct NotifSpec {
    pub session: U128,
    pub serial: u64,
    pub snap_uri: String,
    pub snap_hash: u64,
    pub deltas: Vec<DeltaInfoSpec>,
}

#[derive(Clone, Debug, Serialize, Deserialize)]
pub struct PubSpec {
    pub uri: String,
    pub data: DataSpec,
}

#[derive(Clone, Debug, Serialize, Deserialize)]
pub struct SnapSpec {
    pub session: U128,
    pub serial: u64,
    pub elements: Vec<PubSpec>,
}

#[derive(Clone, Debug, Serialize, Deserialize)]
pub enum ElSpec {
    Publish { uri: String, data: DataSpec },
    Update { uri: String, hash: u64, data: DataSpec },
    Withdraw { uri: String, hash: u64 },
}

#[derive(Clone, Debug, Serialize, Deserialize)]
pub struct DeltaSpec {
    pub session: U128,
    pub serial: u64,
    pub elements: Vec<ElSpec>,
}

#[derive(Clone, Debug, Serialize, Deserialize)]
pub enum FileSpec {
    Notification(NotifSpec),
    Snapshot(SnapSpec),
    Delta(DeltaSpec),
}

#[derive(Clone, Debug, Serialize, Deserialize)]
pub struct RoundTrip {
    pub file: FileSpec,
    /// 0: parse from a slice; otherwise BufReader capacity.
    pub bufsize: u16,
    /// 0: read_to_end; otherwise the chunk size used to read object data.
    pub read_chunk: u8,
    /// delta limit for parse_limited
    pub limit: u8,
}

/// The delta limit handed to `parse_limited`: small values as they are, the
/// top of the range stands for "effectively unlimited" arguments a caller
/// may pass (the work and memory spent must not depend on them).
pub fn real_limit(l: u8) -> usize {
    match l {
        0..=215 => l as usize,
        216..=223 => 65_536,
        224..=231 => 1 << 24,
        232..=239 => u32::MAX as usize,
        240..=247 => usize::MAX / 2,
        _ => usize::MAX,
    }
}

//------------ URI strategies ----------------------------------------------------

fn uri_char() -> BoxedStrategy<char> {
    prop_oneof![
        3 => prop::sample::select(vec!['&', '\'']),
        2 => prop::sample::select(vec![';', '=', '+', ',', '$', '!', '*', '(', ')', '~', ':', '%', '_', '-', '.']),
        4 => prop::sample::select(
            "abcdefghijklmnopqrstuvwxyzABCDEFGHIJKLMNOPQRSTUVWXYZ0123456789".chars().collect::<Vec<_>>()
        ),
    ]
    .boxed()
}

fn segment() -> BoxedStrategy<String> {
    prop::collection::vec(uri_char(), 1..8)
        .prop_map(|v| {
            let s: String = v.into_iter().collect();
            if s == "." || s == ".." { "x".to_string() } else { s }
        })
        .boxed()
}

pub(crate) fn authority() -> BoxedStrategy<String> {
    prop_oneof![
        4 => prop::sample::select(vec![
            "example.com", "EXAMPLE.com", "rpki.example.net:8443", "h", "10.0.0.1", "a-b.c", "rrdp.ripe.net"
        ]).prop_map(|s| s.to_string()),
        1 => "[A-Za-z0-9][A-Za-z0-9.-]{0,10}".prop_map(|s| s),
        1 => "[a-z]{1,3}".prop_map(|s| format!("{}&{}'", s, s)),
    ]
    .boxed()
}

pub(crate) fn rsync_uri() -> BoxedStrategy<String> {
    (
        prop::sample::select(vec!["rsync://", "rsync://", "rsync://", "RSYNC://", "rSync://"]),
        authority(),
        segment(),
        prop::collection::vec(segment(), 0..4),
        any::<bool>(),
    )
        .prop_map(|(scheme, auth, module, segs, dir)| {
            let mut s = format!("{}{}/{}/", scheme, auth, module);
            s.push_str(&segs.join("/"));
            if dir && !segs.is_empty() {
                s.push('/');
            }
            s
        })
        .boxed()
}

pub(crate) fn https_uri() -> BoxedStrategy<String> {
    (
        prop::sample::select(vec!["https://", "https://", "https://", "HTTPS://", "hTTps://"]),
        authority(),
        prop::option::weighted(0.9, prop::collection::vec(prop_oneof![6 => segment(), 1 => Just(String::new()), 1 => Just(".".to_string())], 0..4)),
    )
        .prop_map(|(scheme, auth, path)| {
            let mut s = format!("{}{}", scheme, auth);
            if let Some(segs) = path {
                s.push('/');
                s.push_str(&segs.join("/"));
            }
            s
        })
        .boxed()
}

fn data_spec() -> BoxedStrategy<DataSpec> {
    prop_oneof![
        2 => Just(DataSpec::Lit(vec![])),
        5 => prop::collection::vec(any::<u8>(), 0..12).prop_map(DataSpec::Lit),
        4 => (any::<u64>(), 0u32..400).prop_map(|(seed, len)| DataSpec::Gen { seed, len }),
        1 => (any::<u64>(), prop::sample::select(vec![1u32, 2, 3, 56, 57, 58, 1023, 1024, 1025, 8191, 8192, 8193, 49151, 49152, 65535, 65536]))
            .prop_map(|(seed, len)| DataSpec::Gen { seed, len }),
        1 => (any::<u64>(), 0u32..=65536).prop_map(|(seed, len)| DataSpec::Gen { seed, len }),
    ]
    .boxed()
}

fn count_strategy(max: usize) -> BoxedStrategy<usize> {
    prop_oneof![4 => 0usize..4, 3 => 0usize..20, 1 => 0usize..=max].boxed()
}

fn hash_seed() -> BoxedStrategy<u64> {
    prop_oneof![1 => Just(0u64), 1 => Just(u64::MAX), 6 => any::<u64>()].boxed()
}

fn notif_spec() -> BoxedStrategy<NotifSpec> {
    count_strategy(200)
        .prop_flat_map(|n| {
            (
                dense_u128(),
                dense_u64(),
                https_uri(),
                hash_seed(),
                prop::collection::vec((dense_u64(), https_uri(), hash_seed()), n..=n),
            )
        })
        .prop_map(|(session, serial, snap_uri, snap_hash, deltas)| NotifSpec {
            session: U128(session),
            serial,
            snap_uri,
            snap_hash,
            deltas: deltas.into_iter().map(|(serial, uri, hash)| DeltaInfoSpec { serial, uri, hash }).collect(),
        })
        .boxed()
}

fn snap_spec() -> BoxedStrategy<SnapSpec> {
    count_strategy(40)
        .prop_flat_map(|n| (dense_u128(), dense_u64(), prop::collection::vec((rsync_uri(), data_spec()), n..=n)))
        .prop_map(|(session, serial, els)| SnapSpec {
            session: U128(session),
            serial,
            elements: els.into_iter().map(|(uri, data)| PubSpec { uri, data }).collect(),
        })
        .boxed()
}

fn el_spec() -> BoxedStrategy<ElSpec> {
    prop_oneof![
        (rsync_uri(), data_spec()).prop_map(|(uri, data)| ElSpec::Publish { uri, data }),
        (rsync_uri(), hash_seed(), data_spec()).prop_map(|(uri, hash, data)| ElSpec::Update { uri, hash, data }),
        (rsync_uri(), hash_seed()).prop_map(|(uri, hash)| ElSpec::Withdraw { uri, hash }),
    ]
    .boxed()
}

fn delta_spec() -> BoxedStrategy<DeltaSpec> {
    count_strategy(40)
        .prop_flat_map(|n| (dense_u128(), dense_u64(), prop::collection::vec(el_spec(), n..=n)))
        .prop_map(|(session, serial, elements)| DeltaSpec { session: U128(session), serial, elements })
        .boxed()
}

pub(crate) fn file_spec() -> BoxedStrategy<FileSpec> {
    prop_oneof![
        notif_spec().prop_map(FileSpec::Notification),
        snap_spec().prop_map(FileSpec::Snapshot),
        delta_spec().prop_map(FileSpec::Delta),
    ]
    .boxed()
}

fn roundtrip_strategy(_: Tier) -> BoxedStrategy<RoundTrip> {
    (
        file_spec(),
        prop_oneof![3 => Just(0u16), 2 => 1u16..64, 1 => any::<u16>()],
        prop_oneof![2 => Just(0u8), 2 => 1u8..8, 1 => any::<u8>()],
        any::<u8>(),
    )
        .prop_map(|(file, bufsize, read_chunk, limit)| RoundTrip { file, bufsize, read_chunk, limit })
        .boxed()
}

//------------ building library values ---------------------------------------------

fn gen_err(what: &str, s: &str, e: impl std::fmt::Display) -> Fail {
    Fail::new(format!("generator produced an invalid {} '{}': {}", what, s, e))
}

pub(crate) fn https(s: &str) -> Result<uri::Https, Fail> {
    uri::Https::from_str(s).map_err(|e| gen_err("https URI", s, e))
}

pub(crate) fn rsync(s: &str) -> Result<uri::Rsync, Fail> {
    uri::Rsync::from_str(s).map_err(|e| gen_err("rsync URI", s, e))
}

pub(crate) fn build_notification(n: &NotifSpec) -> Result<NotificationFile, Fail> {
    let mut deltas = Vec::with_capacity(n.deltas.len());
    for d in &n.deltas {
        deltas.push(DeltaInfo::new(d.serial, https(&d.uri)?, Hash::from(hash32(d.hash))));
    }
    Ok(NotificationFile::new(
        Uuid::from_u128(n.session.0),
        n.serial,
        UriAndHash::new(https(&n.snap_uri)?, Hash::from(hash32(n.snap_hash))),
        deltas,
    ))
}

pub(crate) fn build_snapshot(s: &SnapSpec) -> Result<Snapshot, Fail> {
    let mut els = Vec::with_capacity(s.elements.len());
    for e in &s.elements {
        els.push(PublishElement::new(rsync(&e.uri)?, Bytes::from(e.data.bytes())));
    }
    Ok(Snapshot::new(Uuid::from_u128(s.session.0), s.serial, els))
}

pub(crate) fn build_delta(d: &DeltaSpec) -> Result<Delta, Fail> {
    let mut els = Vec::with_capacity(d.elements.len());
    for e in &d.elements {
        els.push(match e {
            ElSpec::Publish { uri, data } => DeltaElement::Publish(PublishElement::new(rsync(uri)?, Bytes::from(data.bytes()))),
            ElSpec::Update { uri, hash, data } => DeltaElement::Update(UpdateElement::new(
                rsync(uri)?,
                Hash::from(hash32(*hash)),
                Bytes::from(data.bytes()),
            )),
            ElSpec::Withdraw { uri, hash } => DeltaElement::Withdraw(WithdrawElement::new(rsync(uri)?, Hash::from(hash32(*hash)))),
        });
    }
    Ok(Delta::new(Uuid::from_u128(d.session.0), d.serial, els))
}

pub(crate) fn write_file(f: &FileSpec) -> Result<Vec<u8>, Fail> {
    let mut out = Vec::new();
    let r = match f {
        FileSpec::Notification(n) => build_notification(n)?.write_xml(&mut out),
        FileSpec::Snapshot(s) => build_snapshot(s)?.write_xml(&mut out),
        FileSpec::Delta(d) => build_delta(d)?.write_xml(&mut out),
    };
    r.map_err(|e| Fail::new(format!("write_xml into a Vec failed: {}", e)))?;
    // the same file through a writer that takes a few octets per call: write_xml may report
    // an error (object content goes through base64's EncoderWriter, which documents WriteZero
    // under short writes), but a claimed success must have delivered the same octets
    struct Short(Vec<u8>, usize);
    impl io::Write for Short {
        fn write(&mut self, buf: &[u8]) -> io::Result<usize> {
            const TAKE: [usize; 7] = [1, 3, 2, 5, 1, 8, 4];
            let n = buf.len().min(TAKE[self.1 % TAKE.len()]);
            self.1 += 1;
            self.0.extend_from_slice(&buf[..n]);
            Ok(n)
        }
        fn flush(&mut self) -> io::Result<()> {
            Ok(())
        }
    }
    if out.len() <= 20_000 {
        let mut w = Short(Vec::new(), 0);
        let r = no_panic("write_xml (short writes)", || match f {
            FileSpec::Notification(n) => build_notification(n).and_then(|v| Ok(v.write_xml(&mut w))),
            FileSpec::Snapshot(s) => build_snapshot(s).and_then(|v| Ok(v.write_xml(&mut w))),
            FileSpec::Delta(d) => build_delta(d).and_then(|v| Ok(v.write_xml(&mut w))),
        })??;
        if r.is_ok() && w.0 != out {
            let at = w.0.iter().zip(out.iter()).position(|(a, b)| a != b).unwrap_or(w.0.len().min(out.len()));
            return Err(Fail::sig(
                "c09:writers-differ",
                format!("write_xml delivers {} octets to a writer taking short writes and {} to a Vec; they differ from octet {}", w.0.len(), out.len(), at),
            ));
        }
    }
    Ok(out)
}

//------------ harness processors ---------------------------------------------------

fn read_object(data: &mut ObjectReader, chunk: u8) -> Result<Vec<u8>, io::Error> {
    let mut out = Vec::new();
    if chunk == 0 {
        data.read_to_end(&mut out)?;
    } else {
        let mut buf = vec![0u8; chunk as usize];
        loop {
            let n = data.read(&mut buf)?;
            if n == 0 {
                break;
            }
            out.extend_from_slice(&buf[..n]);
        }
    }
    Ok(out)
}

/// What a processor saw, in call order.
#[derive(Debug, PartialEq, Eq, Clone)]
pub(crate) enum Seen {
    Meta(u128, u64),
    Publish(String, Option<[u8; 32]>, Vec<u8>),
    Withdraw(String, [u8; 32]),
}

pub(crate) struct Collector {
    pub seen: Vec<Seen>,
    pub chunk: u8,
    /// do not read the object data at all
    pub skip_data: bool,
}

impl Collector {
    pub fn new(chunk: u8) -> Self {
        Collector { seen: Vec::new(), chunk, skip_data: false }
    }
}

fn hash_arr(h: &Hash) -> [u8; 32] {
    let mut a = [0u8; 32];
    a.copy_from_slice(h.as_slice());
    a
}

impl ProcessSnapshot for Collector {
    type Err = ProcessError;
    fn meta(&mut self, session_id: Uuid, serial: u64) -> Result<(), ProcessError> {
        self.seen.push(Seen::Meta(session_id.as_u128(), serial));
        Ok(())
    }
    fn publish(&mut self, uri: uri::Rsync, data: &mut ObjectReader) -> Result<(), ProcessError> {
        let d = if self.skip_data { Vec::new() } else { read_object(data, self.chunk)? };
        self.seen.push(Seen::Publish(uri.as_str().to_string(), None, d));
        Ok(())
    }
}

pub(crate) struct DeltaCollector(pub Collector);

impl ProcessDelta for DeltaCollector {
    type Err = ProcessError;
    fn meta(&mut self, session_id: Uuid, serial: u64) -> Result<(), ProcessError> {
        self.0.seen.push(Seen::Meta(session_id.as_u128(), serial));
        Ok(())
    }
    fn publish(&mut self, uri: uri::Rsync, hash: Option<Hash>, data: &mut ObjectReader) -> Result<(), ProcessError> {
        let d = if self.0.skip_data { Vec::new() } else { read_object(data, self.0.chunk)? };
        self.0.seen.push(Seen::Publish(uri.as_str().to_string(), hash.as_ref().map(hash_arr), d));
        Ok(())
    }
    fn withdraw(&mut self, uri: uri::Rsync, hash: Hash) -> Result<(), ProcessError> {
        self.0.seen.push(Seen::Withdraw(uri.as_str().to_string(), hash_arr(&hash)));
        Ok(())
    }
}

/// Runs `f` on a reader over `bytes` with the requested buffering.
pub(crate) fn with_reader<T>(bytes: &[u8], bufsize: u16, f: impl FnOnce(&mut dyn BufRead) -> T) -> T {
    if bufsize == 0 {
        let mut s = bytes;
        f(&mut s)
    } else {
        let mut r = io::BufReader::with_capacity(bufsize as usize, bytes);
        f(&mut r)
    }
}

//------------ roundtrip --------------------------------------------------------------

fn special(u: &str) -> bool {
    u.contains('&') || u.contains('\'')
}

/// URIs compare like the library compares them (scheme and authority ignore
/// ASCII case); the spec string is parsed again for that.
fn same_rsync(got: &uri::Rsync, spec: &str) -> Result<bool, Fail> {
    Ok(*got == rsync(spec)?)
}

/// The written file in other, equivalent spellings (`xmlrespell`): a parser may refuse one,
/// but what it accepts is the value that was written.
fn respelled<T: PartialEq + std::fmt::Debug>(xml: &[u8], value: &T, obs: &mut Obs, parse: impl Fn(&[u8]) -> Result<T, String>) -> CheckResult {
    if xml.len() > 48 << 10 {
        return Ok(());
    }
    let Ok(text) = std::str::from_utf8(xml) else { return Ok(()) };
    let h = xml.iter().fold(0xcbf2_9ce4_8422_2325u64, |h, &b| (h ^ b as u64).wrapping_mul(0x100_0000_01b3));
    for k in 0..2u64 {
        let Some(r) = crate::xmlrespell::respell(text, h.wrapping_add(k)) else {
            obs.label("respell-not-applicable");
            return Ok(());
        };
        match parse(r.text.as_bytes()) {
            Err(_) => obs.label("respelled-refused"),
            Ok(v) => {
                obs.label("respelled-accepted");
                ensure_sig!(
                    v == *value,
                    "respelled-parses-differently",
                    "an equivalent spelling of the written file parses to a different value:\n{}\n--- written by the library:\n{}",
                    &r.text[..r.text.len().min(1500)], &text[..text.len().min(1500)]
                );
            }
        }
    }
    Ok(())
}

fn run_roundtrip(c: &RoundTrip, obs: &mut Obs) -> CheckResult {
    let xml = write_file(&c.file)?;
    match &c.file {
        FileSpec::Notification(n) => {
            obs.label("notification");
            let value = build_notification(n)?;
            let parsed = with_reader(&xml, c.bufsize, |r| NotificationFile::parse(r));
            let parsed = match parsed {
                Ok(p) => p,
                Err(e) => {
                    return Err(Fail::sig(
                        "roundtrip-parse-failed",
                        format!("written notification does not parse back: {} ({} bytes)", e, xml.len()),
                    ))
                }
            };
            ensure_eq!(parsed.session_id().as_u128(), n.session.0, "notification session_id");
            ensure_eq!(parsed.serial(), n.serial, "notification serial");
            ensure!(parsed.snapshot().uri() == &https(&n.snap_uri)?, "snapshot uri {} read back as {}", n.snap_uri, parsed.snapshot().uri());
            ensure_eq!(hash_arr(&parsed.snapshot().hash()), hash32(n.snap_hash), "snapshot hash");
            ensure!(parsed.delta_status().is_ok(), "unlimited parse reports a delta list error");
            ensure_eq!(parsed.deltas().len(), n.deltas.len(), "number of deltas");
            for (i, (got, exp)) in parsed.deltas().iter().zip(n.deltas.iter()).enumerate() {
                ensure!(got.serial() == exp.serial, "delta #{} serial {} read back as {}", i, exp.serial, got.serial());
                ensure!(got.uri() == &https(&exp.uri)?, "delta #{} uri {} read back as {}", i, exp.uri, got.uri());
                ensure!(hash_arr(&got.hash()) == hash32(exp.hash), "delta #{} hash differs", i);
            }
            ensure!(parsed == value, "parsed notification != written value (library ==)");
            respelled(&xml, &value, obs, |b| NotificationFile::parse(b).map_err(|e| e.to_string()))?;
            // parse_limited: documented behaviour on both sides of the limit
            let limit = real_limit(c.limit);
            obs.label_if(limit > 1 << 30, "huge-delta-limit");
            let limited = with_reader(&xml, c.bufsize, |r| NotificationFile::parse_limited(r, limit))
                .map_err(|e| Fail::new(format!("parse_limited({}) failed on a written notification: {}", limit, e)))?;
            if n.deltas.len() > limit {
                obs.label("over-delta-limit");
                ensure!(limited.delta_status().is_err(), "{} deltas with limit {}: delta_status is Ok", n.deltas.len(), limit);
                ensure!(limited.deltas().is_empty(), "oversized delta list not empty");
                ensure!(limited.serial() == n.serial && limited.session_id().as_u128() == n.session.0, "limited header fields");
            } else {
                ensure!(limited == value, "parse_limited({}) with {} deltas differs from the written value", limit, n.deltas.len());
            }
            let sp = special(&n.snap_uri) || n.deltas.iter().any(|d| special(&d.uri));
            obs.label_if(sp, "special-uri");
            obs.nontrivial_if(sp && !n.deltas.is_empty());
        }
        FileSpec::Snapshot(s) => {
            obs.label("snapshot");
            let value = build_snapshot(s)?;
            let parsed = with_reader(&xml, c.bufsize, |r| Snapshot::parse(r));
            let parsed = match parsed {
                Ok(p) => p,
                Err(e) => {
                    return Err(Fail::sig(
                        "roundtrip-parse-failed",
                        format!("written snapshot does not parse back: {} ({} bytes)", e, xml.len()),
                    ))
                }
            };
            ensure_eq!(parsed.session_id().as_u128(), s.session.0, "snapshot session_id");
            ensure_eq!(parsed.serial(), s.serial, "snapshot serial");
            ensure_eq!(parsed.elements().len(), s.elements.len(), "number of publish elements");
            for (i, (got, exp)) in parsed.elements().iter().zip(s.elements.iter()).enumerate() {
                ensure!(same_rsync(got.uri(), &exp.uri)?, "publish #{} uri {} read back as {}", i, exp.uri, got.uri());
                ensure!(got.data().as_ref() == exp.data.bytes().as_slice(), "publish #{} data differs ({} bytes written, {} read)", i, exp.data.bytes().len(), got.data().len());
            }
            ensure!(parsed == value, "parsed snapshot != written value (library ==)");
            respelled(&xml, &value, obs, |b| Snapshot::parse(b).map_err(|e| e.to_string()))?;
            // harness processor
            let mut col = Collector::new(c.read_chunk);
            with_reader(&xml, c.bufsize, |r| col.process(r))
                .map_err(|e| Fail::new(format!("ProcessSnapshot::process failed on a written snapshot: {}", e)))?;
            ensure_eq!(col.seen.len(), s.elements.len() + 1, "number of processor calls");
            ensure!(col.seen[0] == Seen::Meta(s.session.0, s.serial), "first call is not meta(session, serial): {:?}", col.seen[0]);
            for (i, exp) in s.elements.iter().enumerate() {
                match &col.seen[i + 1] {
                    Seen::Publish(u, None, d) => {
                        ensure!(same_rsync(&rsync(u)?, &exp.uri)?, "processor publish #{} uri {} vs {}", i, u, exp.uri);
                        ensure!(d == &exp.data.bytes(), "processor publish #{} data differs (chunk {})", i, c.read_chunk);
                    }
                    other => return Err(Fail::new(format!("processor call #{} is {:?}", i + 1, other))),
                }
            }
            let sp = s.elements.iter().any(|e| special(&e.uri));
            obs.label_if(sp, "special-uri");
            obs.label_if(s.elements.iter().any(|e| e.data.bytes().is_empty()), "empty-object");
            obs.nontrivial_if(sp && s.elements.len() >= 2);
        }
        FileSpec::Delta(d) => {
            obs.label("delta");
            let value = build_delta(d)?;
            let parsed = with_reader(&xml, c.bufsize, |r| Delta::parse(r));
            let parsed = match parsed {
                Ok(p) => p,
                Err(e) => {
                    return Err(Fail::sig(
                        "roundtrip-parse-failed",
                        format!("written delta does not parse back: {} ({} bytes)", e, xml.len()),
                    ))
                }
            };
            ensure_eq!(parsed.session_id().as_u128(), d.session.0, "delta session_id");
            ensure_eq!(parsed.serial(), d.serial, "delta serial");
            ensure_eq!(parsed.elements().len(), d.elements.len(), "number of delta elements");
            let mut col = DeltaCollector(Collector::new(c.read_chunk));
            with_reader(&xml, c.bufsize, |r| col.process(r))
                .map_err(|e| Fail::new(format!("ProcessDelta::process failed on a written delta: {}", e)))?;
            ensure_eq!(col.0.seen.len(), d.elements.len() + 1, "number of processor calls");
            ensure!(col.0.seen[0] == Seen::Meta(d.session.0, d.serial), "first call is not meta(session, serial): {:?}", col.0.seen[0]);
            for (i, (got, exp)) in parsed.elements().iter().zip(d.elements.iter()).enumerate() {
                let seen = &col.0.seen[i + 1];
                match (got, exp, seen) {
                    (DeltaElement::Publish(g), ElSpec::Publish { uri, data }, Seen::Publish(su, None, sd)) => {
                        ensure!(same_rsync(g.uri(), uri)? && same_rsync(&rsync(su)?, uri)?, "element #{} publish uri {}", i, uri);
                        ensure!(g.data().as_ref() == data.bytes().as_slice() && sd == &data.bytes(), "element #{} publish data differs", i);
                    }
                    (DeltaElement::Update(g), ElSpec::Update { uri, hash, data }, Seen::Publish(su, Some(sh), sd)) => {
                        ensure!(same_rsync(g.uri(), uri)? && same_rsync(&rsync(su)?, uri)?, "element #{} update uri {}", i, uri);
                        ensure!(hash_arr(g.hash()) == hash32(*hash) && *sh == hash32(*hash), "element #{} update hash", i);
                        ensure!(g.data().as_ref() == data.bytes().as_slice() && sd == &data.bytes(), "element #{} update data differs", i);
                    }
                    (DeltaElement::Withdraw(g), ElSpec::Withdraw { uri, hash }, Seen::Withdraw(su, sh)) => {
                        ensure!(same_rsync(g.uri(), uri)? && same_rsync(&rsync(su)?, uri)?, "element #{} withdraw uri {}", i, uri);
                        ensure!(hash_arr(g.hash()) == hash32(*hash) && *sh == hash32(*hash), "element #{} withdraw hash", i);
                    }
                    (g, e, s) => {
                        return Err(Fail::new(format!("element #{}: written {:?}, parsed {:?}, processor saw {:?}", i, e, g, s)))
                    }
                }
            }
            ensure!(parsed == value, "parsed delta != written value (library ==)");
            respelled(&xml, &value, obs, |b| Delta::parse(b).map_err(|e| e.to_string()))?;
            let uri_of = |e: &ElSpec| match e {
                ElSpec::Publish { uri, .. } | ElSpec::Update { uri, .. } | ElSpec::Withdraw { uri, .. } => uri.clone(),
            };
            let sp = d.elements.iter().any(|e| special(&uri_of(e)));
            obs.label_if(sp, "special-uri");
            obs.nontrivial_if(sp && d.elements.len() >= 2);
        }
    }
    obs.label_if(c.bufsize != 0 && c.bufsize < 64, "tiny-buffer");
    Ok(())
}

//------------ big files ---------------------------------------------------------------

#[derive(Clone, Debug, Serialize, Deserialize)]
pub struct Big {
    /// 0 notification, 1 snapshot, 2 delta
    pub kind: u8,
    pub elements: u32,
    pub object_len: u32,
}

fn big_cases(tier: Tier) -> Vec<Big> {
    let mut v = vec![
        Big { kind: 0, elements: 9000, object_len: 0 },
        Big { kind: 1, elements: 24, object_len: 65536 },
        Big { kind: 2, elements: 24, object_len: 65536 },
        Big { kind: 1, elements: 1, object_len: 1_600_000 },
        Big { kind: 2, elements: 2, object_len: 900_000 },
    ];
    if tier == Tier::Thorough {
        v.push(Big { kind: 0, elements: 60_000, object_len: 0 });
        v.push(Big { kind: 1, elements: 300, object_len: 65536 });
        v.push(Big { kind: 1, elements: 1, object_len: 18_000_000 });
        v.push(Big { kind: 2, elements: 3, object_len: 6_000_000 });
    }
    v
}

fn run_big(c: &Big, obs: &mut Obs) -> CheckResult {
    obs.nontrivial();
    let session = U128(0x9df4b597_af9e_4dca_bdda_719cce2c4e28);
    let spec = match c.kind {
        0 => FileSpec::Notification(NotifSpec {
            session,
            serial: c.elements as u64,
            snap_uri: "https://rrdp.example.net/&'/snapshot.xml".into(),
            snap_hash: 7,
            deltas: (0..c.elements as u64)
                .map(|i| DeltaInfoSpec {
                    serial: i + 1,
                    uri: format!("https://rrdp.example.net/{}/{}/delta.xml", session.0, i + 1),
                    hash: i + 1,
                })
                .collect(),
        }),
        1 => FileSpec::Snapshot(SnapSpec {
            session,
            serial: 5,
            elements: (0..c.elements)
                .map(|i| PubSpec { uri: format!("rsync://example.net/repo/o{}.cer", i), data: DataSpec::Gen { seed: i as u64 + 1, len: c.object_len } })
                .collect(),
        }),
        _ => FileSpec::Delta(DeltaSpec {
            session,
            serial: 5,
            elements: (0..c.elements)
                .map(|i| {
                    if i % 2 == 0 {
                        ElSpec::Publish { uri: format!("rsync://example.net/repo/o{}.cer", i), data: DataSpec::Gen { seed: i as u64 + 1, len: c.object_len } }
                    } else {
                        ElSpec::Update { uri: format!("rsync://example.net/repo/o{}.cer", i), hash: 3, data: DataSpec::Gen { seed: i as u64 + 1, len: c.object_len } }
                    }
                })
                .collect(),
        }),
    };
    let xml = write_file(&spec)?;
    obs.label(if xml.len() > 1_000_000 { "over-header-limit" } else { "small" });
    let sig = "big-file-rejected";
    match &spec {
        FileSpec::Notification(n) => {
            let p = NotificationFile::parse(io::BufReader::with_capacity(8192, xml.as_slice()));
            ensure_sig!(p.is_ok(), sig, "a {} byte notification with {} deltas (each element far below the limit) is rejected: {}", xml.len(), n.deltas.len(), p.err().map(|e| e.to_string()).unwrap_or_default());
            ensure!(p.unwrap() == build_notification(n)?, "big notification differs after round trip");
        }
        FileSpec::Snapshot(s) => {
            let p = Snapshot::parse(io::BufReader::with_capacity(8192, xml.as_slice()));
            ensure_sig!(p.is_ok(), sig, "a {} byte snapshot with {} objects of {} bytes is rejected: {}", xml.len(), c.elements, c.object_len, p.err().map(|e| e.to_string()).unwrap_or_default());
            ensure!(p.unwrap() == build_snapshot(s)?, "big snapshot differs after round trip");
        }
        FileSpec::Delta(d) => {
            let p = Delta::parse(io::BufReader::with_capacity(8192, xml.as_slice()));
            ensure_sig!(p.is_ok(), sig, "a {} byte delta with {} objects of {} bytes is rejected: {}", xml.len(), c.elements, c.object_len, p.err().map(|e| e.to_string()).unwrap_or_default());
            ensure!(p.unwrap() == build_delta(d)?, "big delta differs after round trip");
        }
    }
    Ok(())
}

//------------ deltas / origins ----------------------------------------------------------

#[derive(Clone, Debug, Serialize, Deserialize)]
pub struct Chain {
    pub serials: Vec<u64>,
    pub limit: Option<u32>,
    /// authority of the base URI, of the snapshot URI and of each delta URI
    pub base_auth: String,
    pub snap_auth: String,
    pub delta_auth: Vec<String>,
}

fn auth_strategy() -> BoxedStrategy<String> {
    prop_oneof![
        6 => Just("rrdp.example.net".to_string()),
        2 => Just("RRDP.Example.NET".to_string()),
        1 => Just("rrdp.example.net:443".to_string()),
        1 => Just("rrdp.example.org".to_string()),
        1 => Just("rrdp.example.ne".to_string()),
        1 => Just("rrdp.example.nett".to_string()),
        1 => Just(String::new()),
        1 => authority(),
    ]
    .boxed()
}

fn chain_strategy(_: Tier) -> BoxedStrategy<Chain> {
    let serials = (
        prop_oneof![
            3 => prop::sample::select(vec![0u64, 1, 1000, u32::MAX as u64 - 2, (1u64 << 63) - 2, u64::MAX - 3, u64::MAX - 1, u64::MAX]),
            1 => any::<u64>(),
        ],
        prop_oneof![
            // a consecutive run, in random order
            3 => (0usize..9).prop_flat_map(|n| Just((0..n as u64).collect::<Vec<u64>>()).prop_shuffle()),
            // arbitrary small offsets: duplicates and gaps
            4 => prop::collection::vec(0u64..8, 0..9),
            1 => prop::collection::vec(any::<u64>(), 0..5),
        ],
    )
        .prop_map(|(base, offs)| offs.into_iter().map(|o| base.saturating_add(o)).collect::<Vec<u64>>());
    serials
        .prop_flat_map(|serials| {
            let n = serials.len() as u32;
            let limit = prop_oneof![
                3 => Just(None),
                2 => Just(Some(0u32)),
                1 => Just(Some(1u32)),
                1 => Just(Some(2u32)),
                1 => Just(Some(n.saturating_sub(1))),
                1 => Just(Some(n)),
                1 => Just(Some(n + 1)),
                1 => Just(Some(u32::MAX)),
            ];
            let k = serials.len();
            (Just(serials), limit, auth_strategy(), auth_strategy(), prop::collection::vec(auth_strategy(), k..=k))
        })
        .prop_map(|(serials, limit, base_auth, snap_auth, delta_auth)| Chain { serials, limit, base_auth, snap_auth, delta_auth })
        .boxed()
}

fn run_chain(c: &Chain, obs: &mut Obs) -> CheckResult {
    ensure!(c.delta_auth.len() == c.serials.len(), "malformed case: one authority per delta needed");
    let mk = |auth: &str, path: &str| https(&format!("https://{}/{}", auth, path));
    let base = mk(&c.base_auth, "notification.xml")?;
    let mut deltas = Vec::new();
    for (i, (s, a)) in c.serials.iter().zip(c.delta_auth.iter()).enumerate() {
        deltas.push(DeltaInfo::new(*s, mk(a, &format!("d{}/delta.xml", i))?, Hash::from(hash32(i as u64 + 1))));
    }
    let mut nf = NotificationFile::new(
        Uuid::from_u128(1),
        c.serials.iter().copied().max().unwrap_or(0),
        UriAndHash::new(mk(&c.snap_auth, "snapshot.xml")?, Hash::from(hash32(9))),
        deltas,
    );

    // origin check: every authority equals the base authority ignoring ASCII case
    let exp_origin = std::iter::once(&c.snap_auth).chain(c.delta_auth.iter()).all(|a| a.eq_ignore_ascii_case(&c.base_auth));
    let got_origin = nf.has_matching_origins(&base);
    ensure!(
        got_origin == exp_origin,
        "has_matching_origins(base authority '{}') = {}, expected {} (snapshot '{}', deltas {:?})",
        c.base_auth, got_origin, exp_origin, c.snap_auth, c.delta_auth
    );
    obs.label(if exp_origin { "origins-match" } else { "origins-differ" });

    // model of sort_and_verify_deltas
    let mut sorted = c.serials.clone();
    sorted.sort();
    let limit = c.limit.map(|l| l as usize);
    let retained: Vec<u64> = match limit {
        Some(l) if l < sorted.len() => sorted[sorted.len() - l..].to_vec(),
        _ => sorted.clone(),
    };
    let expected = retained.windows(2).all(|w| w[0].checked_add(1) == Some(w[1]));
    let gap_or_dup = sorted.windows(2).any(|w| w[0].checked_add(1) != Some(w[1]));
    obs.nontrivial_if(c.serials.len() >= 3 && gap_or_dup);
    obs.label(if expected { "consecutive" } else { "not-consecutive" });
    obs.label_if(gap_or_dup, "gap-or-dup");
    obs.label_if(limit == Some(0), "limit-0");
    obs.label_if(limit.map(|l| l < sorted.len()).unwrap_or(false), "truncating-limit");

    let got = match no_panic("sort_and_verify_deltas", || nf.sort_and_verify_deltas(limit)) {
        Ok(g) => g,
        Err(f) => {
            // stable signatures for the two known shapes (finding F14)
            let sig = if limit == Some(0) && !c.serials.is_empty() {
                "sort-verify-limit-zero-panic".to_string()
            } else if retained.windows(2).any(|w| w[0] == u64::MAX) {
                "sort-verify-serial-overflow-panic".to_string()
            } else {
                f.sig.clone()
            };
            return Err(Fail::sig(sig, format!("serials {:?} limit {:?}: {}", c.serials, limit, f.msg)));
        }
    };
    ensure!(
        got == expected,
        "sort_and_verify_deltas({:?}) on serials {:?} returned {}, model (retained {:?}) says {}",
        limit, c.serials, got, retained, expected
    );
    // documented effect: sorted by increasing serial, at most `limit` newest retained
    let after: Vec<u64> = nf.deltas().iter().map(|d| d.serial()).collect();
    if expected {
        ensure!(after == retained, "after a successful check the delta list is {:?}, expected the retained deltas {:?}", after, retained);
    } else {
        ensure!(after.len() == retained.len(), "retained {} deltas, expected {}", after.len(), retained.len());
    }
    Ok(())
}

//------------ property ---------------------------------------------------------------------

//------------ sub-check: hash-text -----------------------------------------------------

/// The text form of an RRDP hash (the `hash` attributes of the files, also
/// reachable through `FromStr` and serde): 64 hexadecimal digits and nothing
/// else; anything else is an error, not a panic.
#[derive(Clone, Debug, Serialize, Deserialize)]
pub struct HashText {
    pub text: String,
}

fn hash_text_strategy(_: Tier) -> BoxedStrategy<HashText> {
    let hex = prop::collection::vec(prop::sample::select("0123456789abcdefABCDEF".chars().collect::<Vec<_>>()), 64..=64)
        .prop_map(|v| v.into_iter().collect::<String>());
    let odd = prop::sample::select(vec!['g', 'G', '+', '-', ' ', 'x', '\u{e9}', '\u{20ac}', '\u{1F600}', '\u{0}', '\u{ff10}', '\u{0660}', '"', '\\']);
    prop_oneof![
        4 => hex.clone(),
        // one character replaced (length in octets changes for multi-octet characters)
        3 => (hex.clone(), 0usize..64, odd.clone()).prop_map(|(h, at, ch)| {
            let mut v: Vec<char> = h.chars().collect();
            v[at] = ch;
            v.into_iter().collect()
        }),
        // exactly 64 octets with multi-octet characters inside, at even and odd offsets
        3 => (hex.clone(), 0usize..62, prop::sample::select(vec!['\u{e9}', '\u{20ac}', '\u{1F600}', '\u{ff10}']), 1usize..4).prop_map(|(h, at, ch, n)| {
            let mut out = String::new();
            let mut chars = h.chars();
            for _ in 0..at {
                out.push(chars.next().unwrap());
            }
            for _ in 0..n {
                out.push(ch);
            }
            for c in chars {
                if out.len() >= 64 {
                    break;
                }
                out.push(c);
            }
            while out.len() > 64 {
                out.pop();
            }
            while out.len() < 64 {
                out.push('0');
            }
            out
        }),
        // wrong lengths
        2 => (hex.clone(), prop::sample::select(vec![0usize, 1, 31, 32, 62, 63, 65, 66, 128])).prop_map(|(h, n)| h.chars().cycle().take(n).collect()),
        1 => ".{0,80}",
    ]
    .prop_map(|text| HashText { text })
    .boxed()
}

fn run_hash_text(c: &HashText, obs: &mut Obs) -> CheckResult {
    use std::str::FromStr;
    let t = c.text.as_str();
    let valid = t.len() == 64 && t.bytes().all(|b| b.is_ascii_hexdigit());
    obs.label(if valid { "hash-valid" } else { "hash-invalid" });
    obs.label_if(!t.is_ascii() && t.len() == 64, "hash-64-octets-non-ascii");
    obs.nontrivial_if(!t.is_ascii() || valid);
    let parsed = no_panic("rrdp::Hash::from_str", || rpki::rrdp::Hash::from_str(t))?;
    ensure_sig!(parsed.is_ok() == valid, "c09:hash-text", "Hash::from_str({:?}) ok={}, 64 hex digits: {}", t, parsed.is_ok(), valid);
    let js = serde_json::to_string(t).map_err(|e| Fail::new(e.to_string()))?;
    // every way serde may hand the string over: borrowed, owned (escapes), value, reader
    let escaped = format!("\"{}\"", t.chars().map(|ch| format!("\\u{:04x}", ch as u32)).collect::<String>());
    let des: Vec<(&str, Result<rpki::rrdp::Hash, String>)> = vec![
        ("from_str", no_panic("Hash deserialize", || serde_json::from_str::<rpki::rrdp::Hash>(&js))?.map_err(|e| e.to_string())),
        ("from_value", no_panic("Hash deserialize", || serde_json::from_value::<rpki::rrdp::Hash>(serde_json::Value::String(t.to_string())))?.map_err(|e| e.to_string())),
        ("from_reader", no_panic("Hash deserialize", || serde_json::from_reader::<_, rpki::rrdp::Hash>(js.as_bytes()))?.map_err(|e| e.to_string())),
    ];
    for (how, d) in &des {
        ensure_sig!(d.is_ok() == valid, "c09:hash-text", "Hash deserialized ({}) from {}: {:?}, 64 hex digits: {}", how, js, d, valid);
    }
    if t.chars().all(|ch| (ch as u32) < 0x10000) {
        let d = no_panic("Hash deserialize", || serde_json::from_str::<rpki::rrdp::Hash>(&escaped))?;
        ensure_sig!(d.is_ok() == valid, "c09:hash-text", "Hash deserialized from the escaped JSON string {}: ok={}, 64 hex digits: {}", escaped, d.is_ok(), valid);
    }
    if let Ok(h) = parsed {
        let mut want = [0u8; 32];
        for (i, w) in want.iter_mut().enumerate() {
            *w = u8::from_str_radix(&t[2 * i..2 * i + 2], 16).map_err(|e| Fail::new(e.to_string()))?;
        }
        ensure_sig!(h.as_slice() == want && <[u8; 32]>::from(h) == want && rpki::rrdp::Hash::from(want) == h, "c09:hash-text", "Hash::from_str({:?}) = {}", t, h);
        ensure_sig!(h.to_string() == t.to_ascii_lowercase(), "c09:hash-text", "Display of Hash::from_str({:?}) is {}", t, h);
        ensure_sig!(rpki::rrdp::Hash::from_str(&h.to_string()).ok() == Some(h), "c09:hash-text", "Display form of {} does not parse back", h);
        let ser = serde_json::to_string(&h).map_err(|e| Fail::new(e.to_string()))?;
        ensure_sig!(ser == format!("\"{}\"", h), "c09:hash-text", "Hash serialises as {}, Display is {}", ser, h);
        for (how, d) in des {
            ensure_sig!(d.as_ref().ok() == Some(&h), "c09:hash-text", "Hash deserialized ({}) differs: {:?} vs {}", how, d, h);
        }
        ensure_sig!(rpki::rrdp::Hash::try_from(&want[..]).ok() == Some(h) && rpki::rrdp::Hash::try_from(&want[..31]).is_err(), "c09:hash-text", "TryFrom<&[u8]>");
    }
    Ok(())
}

pub fn property() -> Property {
    Property {
        id: "C09",
        rule: RULE,
        assumptions: vec![
            "the two configured limits are MAX_HEADER_SIZE = 1 000 000 (root elements, children of a notification) and MAX_FILE_SIZE = 100 000 000 (children of snapshot/delta roots and whatever follows them), as in src/rrdp.rs",
            "streams made of endlessly many valid elements are unbounded by design (parse_limited exists) and are not generated",
            "peak heap is not measured (the engine has no counting allocator); bytes consumed from the counting reader is the bound that is checked",
            "URIs compare as the library compares them (scheme and authority ignoring ASCII case)",
        ],
        subs: vec![
            PropSub {
                name: "roundtrip",
                strategy: roundtrip_strategy,
                cases: |t| t.pick(180_000, 1_500_000),
                run: run_roundtrip,
                floors: &[("notification", 0.15), ("snapshot", 0.15), ("delta", 0.15), ("special-uri", 0.25), ("empty-object", 0.05), ("tiny-buffer", 0.1), ("over-delta-limit", 0.0005)],
            }
            .boxed(),
            EnumSub {
                name: "big",
                count: |t, _| big_cases(t).len() as u64,
                make: |t, _, i| big_cases(t)[i as usize].clone(),
                run: run_big,
                exhaustive: false,
            }
            .boxed(),
            bytes_check::sub(),
            streams::header_sub(),
            streams::file_sub(),
            PropSub {
                name: "hash-text",
                strategy: hash_text_strategy,
                cases: |t| t.pick(200_000, 3_000_000),
                run: run_hash_text,
                floors: &[("hash-valid", 0.2), ("hash-invalid", 0.3), ("hash-64-octets-non-ascii", 0.1)],
            }
            .boxed(),
            PropSub {
                name: "deltas",
                strategy: chain_strategy,
                cases: |t| t.pick(900_000, 6_000_000),
                run: run_chain,
                floors: &[("consecutive", 0.15), ("not-consecutive", 0.15), ("gap-or-dup", 0.2), ("limit-0", 0.05), ("truncating-limit", 0.1), ("origins-match", 0.03), ("origins-differ", 0.3)],
            }
            .boxed(),
        ],
    }
}
