//! C09 — stub (not built yet).

use crate::engine::*;

pub fn property() -> Property {
    Property { id: "C09", rule: "", assumptions: vec![], subs: vec![] }
}
